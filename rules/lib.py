"""Helpers shared by property rules."""
from mir import norm, place_fields, op_local, op_place, const_int, const_str, Span


def sfx(path, suffix):
    return path == suffix or path.endswith("::" + suffix)


def get_fn(ck, F, suffix, crate="abasic_core"):
    b = F.one(suffix, crate)
    if b is None:
        ck.missing("ANCHOR:%s" % suffix, "function %s in %s" % (suffix, crate))
    return b


def strip_expr(e):
    """Peel refs, casts, clones, into/from conversions and Deref calls off an expression tree."""
    while True:
        k = e[0]
        if k == "ref":
            e = e[1]
        elif k == "cast":
            e = e[2]
        elif k == "place" and not e[2]:
            e = e[1]
        elif k == "call" and e[2] and (
            e[1].endswith("::clone") or e[1].endswith("::deref") or e[1].endswith("::deref_mut")
            or e[1].endswith("::borrow") or e[1].endswith("::as_ref") or e[1].endswith("::copied")
            or e[1].endswith("::cloned") or e[1].endswith("::into_iter") or e[1].endswith("::iter")
            or e[1].endswith("::to_owned")
        ):
            e = e[2][0]
        else:
            return e


def strip_refs(e):
    """Peel only borrows / reborrows (no calls)."""
    while True:
        if e[0] == "ref":
            e = e[1]
        elif e[0] == "place" and not e[2]:
            e = e[1]
        elif e[0] == "cast":
            e = e[2]
        else:
            return e


def expr_const_str(e):
    s = strip_refs(e)
    if s[0] == "const":
        return s[1].get("str")
    return None


def expr_calls(e, acc=None):
    """All ('call', ...) nodes inside an expression tree."""
    if acc is None:
        acc = []
    if not isinstance(e, tuple):
        return acc
    if e and e[0] == "call":
        acc.append(e)
        for a in e[2]:
            expr_calls(a, acc)
        return acc
    for x in e[1:]:
        if isinstance(x, tuple):
            expr_calls(x, acc)
        elif isinstance(x, list):
            for y in x:
                expr_calls(y, acc)
    return acc


def expr_has_call(e, suffix):
    return any(sfx(c[1], suffix) for c in expr_calls(e))


def expr_params(e, acc=None):
    if acc is None:
        acc = set()
    if not isinstance(e, tuple):
        return acc
    if e and e[0] == "param":
        acc.add(e[1])
        return acc
    for x in e[1:]:
        if isinstance(x, tuple):
            expr_params(x, acc)
        elif isinstance(x, list):
            for y in x:
                expr_params(y, acc)
    return acc


def expr_has_field(e, name):
    """Does any place inside the tree go through a field called `name`?"""
    if not isinstance(e, tuple) or not e:
        return False
    if e[0] == "place" and any(f[1] == name for f in e[2]):
        return True
    for x in e[1:]:
        if isinstance(x, tuple) and expr_has_field(x, name):
            return True
        if isinstance(x, list) and any(expr_has_field(y, name) for y in x):
            return True
    return False


def expr_fields(e):
    """Field path of a ('place', ...) expr, else ()."""
    if isinstance(e, tuple) and e and e[0] == "place":
        return e[2]
    return ()


def show(e, depth=0):
    """Compact rendering of an expression tree for reports."""
    if not isinstance(e, tuple) or not e:
        return str(e)
    k = e[0]
    if depth > 12:
        return "..."
    if k == "const":
        op = e[1]
        if "str" in op:
            return repr(op["str"])
        if "int" in op:
            return str(op["int"])
        if "float" in op:
            return op["float"]
        if "fn" in op:
            return "fn:" + norm(op["fn"]).split("::")[-1]
        return op.get("text", "const")
    if k == "param":
        return "arg%d" % e[1]
    if k == "local":
        return "_%d" % e[1]
    if k == "call":
        return "%s(%s)" % ("::".join(e[1].split("::")[-2:]), ", ".join(show(a, depth + 1) for a in e[2]))
    if k == "binop":
        return "(%s %s %s)" % (show(e[2], depth + 1), e[1], show(e[3], depth + 1))
    if k == "unop":
        return "%s(%s)" % (e[1], show(e[2], depth + 1))
    if k == "cast":
        return "(%s as %s)" % (show(e[2], depth + 1), e[3])
    if k == "ref":
        return "&" + show(e[1], depth + 1)
    if k == "agg":
        return "%s::%s{%s}" % (str(e[1]).split("::")[-1], e[2], ", ".join(show(a, depth + 1) for a in e[3]))
    if k == "discr":
        return "discr(%s)" % show(e[1], depth + 1)
    if k == "place":
        return "%s.%s" % (show(e[1], depth + 1), ".".join(f[1] for f in e[2]))
    return k


def callers_of(F, suffix):
    """[(caller Body, Call)] over all four crates."""
    out = []
    for b in F.bodies.values():
        for c in b.calls():
            if sfx(c.callee, suffix) or sfx(c.declared, suffix):
                out.append((b, c))
    return out


def fn_item_mentions(F, suffix):
    """Bodies that mention fn item `suffix` as a value (address-taken), not as a callee."""
    out = []
    for b in F.bodies.values():
        for blk in b.blocks:
            if blk["cleanup"]:
                continue
            ops = []
            for st in blk["stmts"]:
                if st["k"] == "assign":
                    rv = st["rv"]
                    for key in ("op", "a", "b"):
                        if key in rv and isinstance(rv[key], dict):
                            ops.append(rv[key])
                    ops.extend(rv.get("ops", []))
            t = blk["term"]
            if t["k"] == "call":
                ops.extend(t["args"])
            for o in ops:
                if o.get("k") == "const" and "fn" in o and sfx(norm(o["fn"]), suffix):
                    out.append(b)
    return out


def aggregates(body, adt_suffix=None, variant=None):
    """yield (bb, idx, place, rv, span) for aggregate constructions."""
    for b, i, pl, rv, sp in body.assigns():
        if rv["k"] != "aggregate" or rv.get("agg") != "adt":
            continue
        if adt_suffix and not sfx(norm(rv["adt"]), adt_suffix):
            continue
        if variant and rv.get("variant") != variant:
            continue
        yield b, i, pl, rv, sp


def block_of_stmt_dominated_by(body, bb, dom_bb):
    return body.dominates(dom_bb, bb)


def switch_arms_on(body, pred):
    """Switch blocks whose subject satisfies pred(subject_expr, names) -> [(bb, targets, otherwise, names)]"""
    out = []
    for b in sorted(body.reachable()):
        if body.term(b)["k"] != "switch":
            continue
        info = body.switch_info(b)
        if info is None:
            continue
        subject, targets, otherwise, names = info
        if pred(subject, names):
            out.append((b, subject, targets, otherwise, names))
    return out


def arm_target(targets, otherwise, names, variant):
    """Block a switch goes to for enum variant `variant`."""
    if names is None:
        return None
    for v, n in names.items():
        if n == variant:
            return targets.get(v, otherwise)
    return None


def exclusive_region(body, start, stop_at=()):
    """Blocks reachable from `start` that are dominated by `start` (the arm's own region)."""
    reg = set()
    for x in body.blocks_reachable_from(start, avoid=stop_at):
        if body.dominates(start, x):
            reg.add(x)
    return reg


def region_aggregates(body, region):
    out = []
    for b in sorted(region):
        for st in body.blocks[b]["stmts"]:
            if st["k"] == "assign" and st["rv"]["k"] == "aggregate" and st["rv"].get("agg") == "adt":
                out.append((norm(st["rv"]["adt"]), st["rv"].get("variant"), b))
    return out


def region_calls(body, region):
    return [c for c in body.calls() if c.bb in region]


def bool_switch_true_target(body, bb):
    """For `switchInt(bool)` return (false_target, true_target)."""
    t = body.term(bb)
    if t["k"] != "switch":
        return None
    tg = {int(v): x for v, x in t["targets"]}
    if 0 in tg:
        return tg[0], t["otherwise"]
    if 1 in tg:
        return t["otherwise"], tg[1]
    return None


def iteration_paths(body, limit=20000):
    """Block paths of one iteration of each natural loop: header -> .. -> header."""
    out = []
    for h, blk in sorted(body.natural_loops().items()):
        for s0 in body.succs(h):
            if s0 not in blk:
                continue
            for path, stop in body.const_paths(s0, {h}, limit=limit):
                if stop == h:
                    out.append([h] + path + [h])
    return out


def path_records(body, limit=20000, paths=None):
    """Per entry->return path: decisions on enum discriminants / bool tests, calls, aggregates, outcome.

    decision = (subject_text, subject_params, value) where value is a variant name, or True/False for bool
    switches, or an int.  Infeasible combinations produced by drop-flag switches are harmless duplicates."""
    recs = []
    for path in (paths if paths is not None else body.paths(limit=limit)):
        if body.term(path[-1])["k"] == "unreachable":
            continue  # compiler-proved infeasible arm
        decisions = []
        for i, b in enumerate(path[:-1]):
            t = body.term(b)
            if t["k"] != "switch":
                continue
            nxt = path[i + 1]
            info = body.switch_info(b)
            subject, targets, otherwise, names = info
            val = None
            for v, tg in targets.items():
                if tg == nxt:
                    val = v
            if names:
                if val is None:
                    # otherwise arm: the variants without an explicit target
                    rest = [n for v, n in names.items() if v not in targets]
                    vname = rest[0] if len(rest) == 1 else tuple(rest)
                else:
                    vname = names.get(val, val)
                subj = subject[1] if subject[0] == "discr" else subject
                decisions.append((show(subj), frozenset(expr_params(subj)), vname, subj))
            else:
                if t.get("dty") == "bool":
                    ft = bool_switch_true_target(body, b)
                    bval = (nxt == ft[1]) if ft else None
                    decisions.append((show(subject), frozenset(expr_params(subject)), bval, subject))
                else:
                    decisions.append((show(subject), frozenset(expr_params(subject)), val, subject))
        calls = [body.call_at(b) for b in path]
        calls = [c for c in calls if c is not None]
        aggs = []
        outcome = None
        for b in path:
            for st in body.blocks[b]["stmts"]:
                if st["k"] == "assign" and st["rv"]["k"] == "aggregate" and st["rv"].get("agg") == "adt":
                    aggs.append((norm(st["rv"]["adt"]), st["rv"].get("variant")))
                    if st["place"]["local"] == 0 and not st["place"]["proj"] and st["rv"].get("variant") in ("Ok", "Err"):
                        outcome = st["rv"]["variant"]
        if outcome == "Err":
            errs = [a[1] for a in aggs if a[0].endswith("InterpreterError") or a[0].endswith("SyntaxError")]
            outcome = "Err:" + (errs[-1] if errs else "?")
        if outcome is None:
            # `?` propagation of a callee's error
            if any(c.callee.endswith("from_residual") for c in calls):
                outcome = "Err:propagated"
        recs.append({"path": path, "decisions": decisions, "calls": calls, "aggs": aggs, "outcome": outcome})
    return recs


def _on_ok_arm_bool(body, call, bb):
    """`if r.is_err() { .. } else { <bb> }` / `if r.is_ok() { <bb> }` where r is the result of `call`"""
    for b in sorted(body.reachable()):
        t = body.term(b)
        if t["k"] != "switch" or t.get("dty") != "bool":
            continue
        subj = strip_expr(body.expr(t["discr"]))
        neg = False
        while subj[0] == "unop" and subj[1] == "Not":
            neg = not neg
            subj = strip_expr(subj[2])
        if subj[0] != "call" or subj[1].split("::")[-1] not in ("is_ok", "is_err") or "Result" not in subj[1]:
            continue
        if not any(len(x) > 3 and x[3] is call for x in expr_calls(subj[2][0])):
            continue
        ft = bool_switch_true_target(body, b)
        if not ft:
            continue
        want_true = (subj[1].split("::")[-1] == "is_ok") != neg
        good, other = (ft[1], ft[0]) if want_true else (ft[0], ft[1])
        if body.dominates(good, bb) and not body.dominates(other, bb):
            return True
    return False


def on_ok_arm(body, call, bb):
    """Is block `bb` reachable only through the success arm of `call`'s Result?  Accepts `call(..)?`
    (Continue arm of Try::branch) and a direct `match call(..) { Ok(..) => .., Err(..) => .. }`."""
    for b in sorted(body.reachable()):
        info = body.switch_info(b)
        if not info or not info[3]:
            continue
        subject, targets, otherwise, names = info
        vals = set(names.values())
        if not (vals == {"Ok", "Err"} or vals == {"Continue", "Break"}):
            continue
        cs = [x[3] for x in expr_calls(subject) if len(x) > 3]
        if not any(x is call for x in cs):
            continue
        # for Continue/Break the subject must be branch(call)
        for v, n in names.items():
            if n in ("Ok", "Continue"):
                t = targets.get(v, otherwise)
                bad_t = [targets.get(v2, otherwise) for v2, n2 in names.items() if n2 in ("Err", "Break")]
                if body.dominates(t, bb) and not any(body.dominates(x, bb) for x in bad_t if x != t):
                    return True
    return _on_ok_arm_bool(body, call, bb)


def controlling_switches(body, bb):
    """Switch blocks on which `bb` is control dependent (approximation: dominating switches from some successor
    of which `bb` cannot be reached).  -> [(switch_bb, subject_expr, names)]"""
    out = []
    fwd = _forward_reach(body)
    for b in sorted(body.reachable()):
        t = body.term(b)
        if t["k"] != "switch" or b == bb or not body.dominates(b, bb):
            continue
        # reachability without loop back edges: inside a loop every block reaches every other through the next iteration,
        # which says nothing about what decides whether `bb` runs in THIS iteration
        if all(bb == x or bb in fwd(x) for x in body.succs(b)):
            continue
        info = body.switch_info(b)
        out.append((b, info[0] if info else body.expr(t["discr"]), info[3] if info else None))
    return out


def with_closures(F, body):
    """The body followed by the bodies of the closures defined inside it (a loop body turned into `.map(|x| ..)`)."""
    return [body] + [F.bodies[p] for p in sorted(F.bodies) if p.startswith(body.path + "::{closure")]


def _forward_reach(body):
    """reach(x) over the CFG with back edges (u -> h where h dominates u) removed; memoised per body."""
    cache = getattr(body, "_fwd_reach_cache", None)
    if cache is None:
        cache = {}
        body._fwd_reach_cache = cache

    def reach(x):
        if x in cache:
            return cache[x]
        seen = set()
        work = [x]
        while work:
            u = work.pop()
            for v in body.succs(u):
                if body.dominates(v, u):
                    continue        # back edge
                if v not in seen:
                    seen.add(v)
                    work.append(v)
        cache[x] = seen
        return seen
    return reach


class VCall:
    """A call seen through a forwarding helper: looks like the inner call (callee), sits at the outer call site (bb, span,
    target) and carries the outer operands for the parameters the helper passes straight through (None elsewhere)."""

    def __init__(self, outer, callee, args, via):
        self.bb, self.span, self.target, self.dest = outer.bb, outer.span, outer.target, outer.dest
        self.callee, self.args, self.via, self.is_local, self.gargs = callee, args, via, True, []
        self.outer = outer


def forwarders_of(F, suffix, crate="abasic_core"):
    """{helper path: [index of the helper's parameter handed to each argument of the inner call, or None]} for local
    functions that call `suffix` exactly once, on every path (the call post-dominates the entry), e.g.
    `fn store_numbered_line(&mut self, n, tokens) { ..; self.program.set_numbered_line(n, tokens); .. }`."""
    out = {}
    for b in F.bodies.values():
        if b.crate != crate or b.kind == "Closure":
            continue
        cs = [c for c in b.calls() if sfx(c.callee, suffix)]
        if len(cs) != 1:
            continue
        c = cs[0]
        pd = b.postdominators().get(0, set()) | {0}
        if c.bb not in pd:
            continue
        m = []
        for a in c.args:
            e = strip_expr(b.expr(a))
            m.append(e[1] if e[0] == "param" else None)
        if any(x is not None for x in m[1:]):
            out[b.path] = m
    return out


def calls_through(F, body, suffix, depth=2):
    """Calls of `suffix` in `body`, directly or through forwarding helpers (as VCalls with the outer operands)."""
    out = [c for c in body.calls() if sfx(c.callee, suffix)]
    if depth <= 0:
        return out
    fw = forwarders_of(F, suffix, body.crate)
    for c in body.calls():
        m = fw.get(c.callee)
        if m is None or c.callee == body.path:
            continue
        args = [c.args[i] if (i is not None and i < len(c.args)) else None for i in m]
        inner = [x for x in F.bodies[c.callee].calls() if sfx(x.callee, suffix)][0]
        out.append(VCall(c, inner.callee, args, c.callee))
    return out


def allowed_via_callers(F, name, allowed_suffixes, depth=3):
    """`name` is one of the allowed functions, or a helper all of whose callers (at least one) are: a private function
    extracted from an allowed function acts on that function's behalf."""
    if any(sfx(name, a) for a in allowed_suffixes):
        return True
    if depth <= 0:
        return False
    callers = {b.path for b in F.bodies.values() for c in b.calls() if c.callee == name and b.path != name}
    return bool(callers) and all(allowed_via_callers(F, c, allowed_suffixes, depth - 1) for c in callers)


def deep_calls(F, body, expand, depth=3, _seen=None):
    """(owner body, call) for the calls of `body` and, recursively, of the local callees for which expand(path) holds
    (private helpers that should be looked through)."""
    if _seen is None:
        _seen = {body.path}
    out = []
    for c in body.calls():
        out.append((body, c))
        if depth > 0 and c.callee in F.bodies and c.callee not in _seen and expand(c.callee):
            _seen.add(c.callee)
            out += deep_calls(F, F.bodies[c.callee], expand, depth - 1, _seen)
    return out


def call_names_deep(body, e, depth=4, _seen=None):
    """Last path segments of all calls an expression depends on, also through locals with several definitions."""
    if _seen is None:
        _seen = set()
    out = set()
    if not isinstance(e, tuple):
        return out
    for x in expr_calls(e):
        out.add(x[1].split("::")[-1])

    def locals_in(t, acc):
        if isinstance(t, tuple):
            if t and t[0] == "local":
                acc.add(t[1])
            for y in t[1:]:
                if isinstance(y, (tuple, list)):
                    locals_in(y, acc)
        elif isinstance(t, list):
            for y in t:
                locals_in(y, acc)
        return acc
    if depth > 0:
        for l in locals_in(e, set()):
            if l in _seen:
                continue
            _seen.add(l)
            for d in body.defs().get(l, []):
                if d[0] in ("assign", "partial"):
                    out |= call_names_deep(body, body.rv_expr(d[3]), depth - 1, _seen)
                elif d[0] in ("call", "partial-call"):
                    c = d[2]
                    out.add(c.callee.split("::")[-1])
                    for a in c.args:
                        out |= call_names_deep(body, body.expr(a), depth - 1, _seen)
    return out


def float_consts_deep(body, e, depth=4, _seen=None):
    """Float literals an expression can evaluate to, following locals with several (constant) definitions:
    `let t = if c { 1.0 } else { 0.0 }; t.into()`."""
    if _seen is None:
        _seen = set()
    out = set()
    e = strip_expr(e)
    if e[0] == "const":
        if e[1].get("float") is not None:
            out.add(e[1]["float"])
        return out
    loc = None
    if e[0] == "local":
        loc = e[1]
    elif e[0] == "place" and e[1][0] == "local" and not e[2]:
        loc = e[1][1]
    if loc is not None and depth > 0 and loc not in _seen:
        _seen.add(loc)
        for d in body.defs().get(loc, []):
            if d[0] in ("assign", "partial"):
                out |= float_consts_deep(body, body.rv_expr(d[3]), depth - 1, _seen)
    return out


def count_deep(F, body, pred, expand, depth=3, _stack=()):
    """How many calls satisfying pred(call) one execution path-insensitive walk of `body` contains, where every call of an
    expandable helper counts for what the helper contains (a helper called three times counts three times)."""
    n = 0
    for c in body.calls():
        if pred(c):
            n += 1
        if depth > 0 and c.callee in F.bodies and c.callee not in _stack and c.callee != body.path and expand(c.callee):
            n += count_deep(F, F.bodies[c.callee], pred, expand, depth - 1, _stack + (body.path,))
    return n


def ok_or_sites(body, variant):
    """Calls `opt.ok_or(E)` / `ok_or_else(|| E)` whose error operand is (a conversion of) the given error variant:
    [(ok_or call, [calls the Option operand is computed from])].  `x.pop().ok_or(Err)?` fails exactly when pop() gave None."""
    out = []
    for c in body.calls():
        nm = c.callee.split("::")[-1]
        if nm not in ("ok_or", "ok_or_else") or len(c.args) < 2:
            continue
        e1 = body.expr(c.args[1])

        def has_variant(t):
            if isinstance(t, tuple):
                if t and t[0] == "agg" and len(t) > 2 and t[2] == variant:
                    return True
                return any(has_variant(y) for y in t[1:] if isinstance(y, (tuple, list)))
            if isinstance(t, list):
                return any(has_variant(y) for y in t)
            return False
        if has_variant(e1):
            out.append((c, [x[3] for x in expr_calls(body.expr(c.args[0])) if len(x) > 3]))
    return out


def variant_sites(F, body, adt_suffix):
    """Where `body` builds values of the enum: aggregates, plus uses of a variant constructor as a function
    (`.map(ValueArray::String)`): [(bb, variant name)]."""
    out = [(b, rv.get("variant")) for (b, i, pl, rv, sp) in aggregates(body, adt_suffix)]
    for bi, blk in enumerate(body.blocks):
        ops = []
        for st in blk["stmts"]:
            if st["k"] == "assign":
                rv = st["rv"]
                ops += rv.get("ops", []) + [rv[k] for k in ("op", "a", "b") if isinstance(rv.get(k), dict)]
        t = blk["term"]
        if t["k"] == "call":
            ops += t["args"]
        for o in ops:
            if isinstance(o, dict) and o.get("k") == "const" and "fn" in o:
                p = norm(o["fn"])
                owner, _, var = p.rpartition("::")
                if owner.endswith(adt_suffix):
                    a = F.adt(adt_suffix)
                    if a is not None and var in [v["name"] for v in a["variants"]]:
                        out.append((bi, var))
    return out


def is_ctor_shim(body):
    """the compiler-generated function behind a tuple variant / tuple struct used as `fn(fields) -> T`"""
    return getattr(body, "kind", "") == "Ctor" or (len(body.blocks) == 1 and body.blocks[0]["term"]["k"] == "return" and
                                                    len([s_ for s_ in body.blocks[0]["stmts"] if s_["k"] == "assign"]) == 1 and
                                                    body.blocks[0]["stmts"][0]["rv"]["k"] == "aggregate" and body.path.split("::")[-1][:1].isupper())


def closure_capture_expr(F, cb, idx):
    """What the enclosing function put into capture slot `idx` of closure body `cb` (as an expression of the parent),
    with the parent body: (parent, expr) or (None, None)."""
    if "::{closure" not in cb.path:
        return None, None
    ppath = cb.path.rsplit("::{closure", 1)[0]
    parent = F.bodies.get(ppath)
    if parent is None:
        return None, None
    tail = cb.path[len(ppath):]
    for blk in parent.blocks:
        for st in blk["stmts"]:
            if st["k"] == "assign" and st["rv"]["k"] == "aggregate" and st["rv"].get("agg") == "closure" and \
                    str(st["rv"].get("closure", "")).endswith(tail) and idx < len(st["rv"]["ops"]):
                return parent, parent.expr(st["rv"]["ops"][idx])
    return None, None


def resolve_captures(F, body, e, depth=2):
    """If `e` is (a projection of) a capture slot of a closure, the parent's expression for that slot; else e."""
    x = strip_expr(e)
    if depth > 0 and x[0] == "place" and strip_expr(x[1]) == ("param", 0) and x[2] and x[2][0][0] == "(closure)":
        try:
            idx = int(x[2][0][1])
        except ValueError:
            return e
        parent, pe = closure_capture_expr(F, body, idx)
        if pe is not None:
            return strip_expr(strip_refs(pe)) if len(x[2]) == 1 else e
    return e


def any_guard(F, body):
    """`if a.zip(b).any(|(&x, &y)| x >= y) { return Err(..) }` up-front validation: [(switch bb, block reached when NO pair
    satisfied the comparison, comparison ops used in the closure)] for the `Iterator::any` calls of `body`."""
    out = []
    for c in body.calls():
        if c.callee.split("::")[-1] != "any" or c.target is None:
            continue
        ft = bool_switch_true_target(body, c.target)
        if ft is None:
            continue
        ops = []
        for cb in with_closures(F, body)[1:]:
            if cb.span.line < c.span.line - 1 or cb.span.line > getattr(c.span, "eline", c.span.line) + 3:
                continue
            for (bb, i, pl, rv, sp) in cb.assigns():
                if rv["k"] == "binop" and rv["op"] in ("Ge", "Gt", "Lt", "Le"):
                    ops.append(rv["op"])
        out.append((c.target, ft[0], ops, c))
    return out


def field_stores(F, body, field_name, adt_suffix=None):
    """Stores to a field in `body`: direct assignments and calls of a trivial setter (`fn set_x(&mut self, v) { self.x = v }`).
    -> [(bb, value expr in `body`, span)]"""
    out = []
    for (bb, i, pl, rv, sp) in body.assigns():
        fs = [p for p in pl["proj"] if p["k"] == "field"]
        if fs and fs[-1].get("name") == field_name and (adt_suffix is None or fs[-1].get("adt", "").endswith(adt_suffix)):
            out.append((bb, body.rv_expr(rv), sp))
    for c in body.calls():
        sb = F.bodies.get(c.callee)
        if sb is None or sb.path == body.path or len(sb.calls()) != 0 or sb.arg_count != 2 or len(c.args) != 2:
            continue
        st = [(b2, rv2) for (b2, i2, pl2, rv2, sp2) in sb.assigns()
              if [p for p in pl2["proj"] if p["k"] == "field"] and [p for p in pl2["proj"] if p["k"] == "field"][-1].get("name") == field_name]
        if len(st) == 1 and strip_expr(sb.rv_expr(st[0][1])) == ("param", 1):
            out.append((c.bb, body.expr(c.args[1]), c.span))
    return out


def dollar_predicates(F):
    """local functions that return exactly `param.ends_with('$')` (the name-suffix test given a name)"""
    out = set()
    for p, b in F.bodies.items():
        if b.crate != "abasic_core" or b.local_ty(0) != "bool":
            continue
        cs = b.calls()
        ew = [c for c in cs if c.callee.endswith("ends_with") and any(strip_expr(b.expr(a))[0] == "const" and strip_expr(b.expr(a))[1].get("int") == 36
                                                                      for a in c.args)]
        if len(ew) == 1 and all(c is ew[0] or c.callee.split("::")[-1] in ("as_str", "as_ref", "deref") for c in cs) and \
                ew[0].dest["local"] == 0 and not ew[0].dest["proj"]:
            out.add(p)
    return out


def delegated_step(F, body, inner_suffix, post_suffix):
    """`body` returns H(|s| s.inner(..)) where the local helper H runs the closure it is given exactly once on every path and
    returns post(result) -- i.e. body is `post(inner(..))` with the sequencing factored out.  -> description or None"""
    d = body.unique_def(0)
    if d is None or d[0] != "call":
        return None
    hc = d[2]
    hb = F.bodies.get(hc.callee)
    if hb is None or hb.path == body.path:
        return None
    # the closure argument and what it does
    clos = None
    for a in hc.args:
        t = a.get("place", {}).get("ty", "") if a.get("k") in ("copy", "move") else a.get("ty", "")
        if "{closure" in str(t):
            e = strip_expr(body.expr(a))
            for p in sorted(F.bodies):
                if p.startswith(body.path + "::{closure") and F.bodies[p].span.line >= body.span.line:
                    cb = F.bodies[p]
                    inner = [c for c in cb.calls() if sfx(c.callee, inner_suffix)]
                    others = [c for c in cb.calls() if c.is_local and not sfx(c.callee, inner_suffix)]
                    if len(inner) == 1 and not others and cb.unique_def(0) is not None and cb.unique_def(0)[0] == "call" and \
                            cb.unique_def(0)[2] is inner[0] and not cb.natural_loops():
                        clos = cb
    if clos is None:
        return None
    # the helper: one invocation of its closure parameter per path, then post(..) of exactly that result
    inv = [c for c in hb.calls() if c.callee.split("::")[-1] in ("call_once", "call_mut", "call") or c.indirect]
    post = [c for c in hb.calls() if sfx(c.callee, post_suffix)]
    if len(inv) != 1 or len(post) != 1 or hb.natural_loops():
        return None
    hd = hb.unique_def(0)
    if hd is None or hd[0] != "call" or hd[2] is not post[0]:
        return None
    arg = hb.expr(post[0].args[1]) if len(post[0].args) > 1 else None
    if arg is None or not any(len(x) > 3 and x[3] is inv[0] for x in expr_calls(arg)):
        return None
    pd = hb.postdominators().get(0, set()) | {0}
    if inv[0].bb not in pd or post[0].bb not in pd:
        return None
    return "%s(|s| s.%s(..)) with %s = post-process(closure())" % (hb.path.split("::")[-1], inner_suffix.split("::")[-1], hb.path.split("::")[-1])


def ascii_digit_run(F, body, e):
    """Is `e` the expression `start + s[start..].chars().take_while(|c| c.is_ascii_digit()).count()` (the end of a run of
    one-byte characters beginning at `start`)?  -> (start expr, count call) or None"""
    x = strip_expr(e)
    if x[0] == "place" and isinstance(x[1], tuple) and x[1][0] == "binop" and x[1][1] in ("AddWithOverflow", "Add"):
        x = x[1]
    if x[0] != "binop" or x[1] not in ("AddWithOverflow", "Add"):
        return None
    for (st, cn) in ((x[2], x[3]), (x[3], x[2])):
        c = strip_expr(cn)
        if c[0] != "call" or c[1].split("::")[-1] != "count":
            continue
        names = [y[1].split("::")[-1] for y in expr_calls(c)]
        if "take_while" not in names or "chars" not in names:
            continue
        # the predicate is is_ascii_digit (ASCII digits are one byte each)
        preds = [cb for cb in with_closures(F, body)[1:] if any(z.callee.endswith("is_ascii_digit") for z in cb.calls())
                 and not any(z.callee.split("::")[-1] in ("is_numeric", "is_digit", "is_alphanumeric") for z in cb.calls())]
        if not preds:
            continue
        # and the characters come from the slice that begins at `start`
        sl = [y for y in expr_calls(c) if y[1].endswith("for str>::index")]
        if not sl:
            continue
        rng = strip_expr(sl[0][2][1]) if len(sl[0][2]) > 1 else None
        if len(sl[0]) > 3 and sl[0][3] is not None and (rng is None or rng[0] != "agg" or rng[3] and strip_expr(rng[3][0])[0] == "local"):
            rng = strip_expr(body.expr(sl[0][3].args[1]))     # the nested expression was cut off: re-expand from the call
        if rng is None or rng[0] != "agg" or not str(rng[1]).endswith("RangeFrom"):
            continue
        if _norm_small(strip_expr(rng[3][0])) != _norm_small(strip_expr(st)) and not _same_call_payload(strip_expr(rng[3][0]), strip_expr(st)):
            continue
        return (strip_expr(st), c[3] if len(c) > 3 else None)
    return None


def _norm_small(e):
    return show(e)


def _same_call_payload(a, b):
    return a[0] == "place" and b[0] == "place" and isinstance(a[1], tuple) and isinstance(b[1], tuple) and a[1][0] == "call" and \
        b[1][0] == "call" and len(a[1]) > 3 and len(b[1]) > 3 and a[1][3] is b[1][3]


def adt_fields_touched(F, body, adt_suffix, depth=3):
    """Names of the fields of the given struct that `body` (with its closures and, recursively, the local functions it calls)
    mentions in any place -- reads and writes alike."""
    import json as _json
    seen = set()
    out = set()

    def walk(x):
        if isinstance(x, dict):
            if x.get("k") == "field" and str(x.get("adt", "")).endswith(adt_suffix):
                out.add(x.get("name"))
            for v in x.values():
                walk(v)
        elif isinstance(x, list):
            for v in x:
                walk(v)

    def go(b, d):
        if b.path in seen:
            return
        seen.add(b.path)
        for bb in sorted(b.reachable()):
            blk = b.blocks[bb]
            walk(blk["stmts"])
            walk(blk.get("term"))
        for cb in with_closures(F, b)[1:]:
            go(cb, d)
        if d > 0:
            for c in b.calls():
                if c.callee in F.bodies:
                    go(F.bodies[c.callee], d - 1)
    go(body, depth)
    return out


def with_helpers(F, body, depth=1):
    """The body, its closures, and (to the given depth) the functions of the same module it calls, with their closures: where a
    rule asks "does this function do X somewhere", X may have been moved into a private helper next to it."""
    out = []
    seen = set()
    mod = body.path.split("::{closure", 1)[0].rsplit("::", 1)[0]
    mod = mod.rsplit("::", 1)[0] if body.self_adt else mod

    def go(b, d):
        if b.path in seen:
            return
        seen.add(b.path)
        for x in with_closures(F, b):
            if x.path not in seen or x is b:
                out.append(x)
                seen.add(x.path)
            if d > 0:
                for c in x.calls():
                    cb = F.bodies.get(c.callee)
                    if cb is not None and cb.path.startswith(mod + "::") and cb.path not in seen:
                        go(cb, d - 1)
    go(body, depth)
    return out


def err_arm_passes(F, body, callee_suffix):
    """Does every error that `body` hands on pass a call of `callee_suffix` first?  Recognises `body` = `arg.map_err(|e| { ..; e })`
    (the closure calls it on every path); the explicit `if let Err(..)` / `match` forms are decided by the callers' own path rules.
    -> True / False / None (None: not the map_err form)"""
    d = body.unique_def(0)
    if d is None or d[0] != "call" or d[2].callee.split("::")[-1] not in ("map_err", "or_else", "inspect_err"):
        return None
    c = d[2]
    if strip_expr(body.expr(c.args[0]))[0] != "param":
        return None
    cl = strip_expr(body.expr(c.args[1]))
    cb = F.bodies.get(cl[1]) if cl[0] == "agg" else None
    if cb is None:
        return False
    pd = cb.postdominators().get(0, set()) | {0}
    return any(sfx(x.callee, callee_suffix) and x.bb in pd for x in cb.calls())


def immediate_line_emptied_by(F, body):
    """Calls in `body` that leave the program on an empty immediate line: `set_and_goto_immediate_line(vec![])`, directly or through
    a Program method that does exactly that on every path (`Program::end`)."""
    out = []
    for c in body.calls():
        if sfx(c.callee, "Program::set_and_goto_immediate_line") and len(c.args) > 1 and "Vec::new" in show(body.expr(c.args[1])):
            out.append(c)
            continue
        cb = F.bodies.get(c.callee)
        if cb is not None and cb.path != body.path and cb.path.startswith("abasic_core::program::Program::"):
            pd = cb.postdominators().get(0, set()) | {0}
            if any(sfx(x.callee, "Program::set_and_goto_immediate_line") and x.bb in pd and len(x.args) > 1 and
                   "Vec::new" in show(cb.expr(x.args[1])) for x in cb.calls()):
                out.append(c)
    return out


def line_membership_tests(F):
    """Paths of the functions that answer "is this line number stored": ProgramLines::has itself and local wrappers that return
    exactly `<lines>.has(param)` (Program::has_line_number)."""
    out = set()
    for p, b in F.bodies.items():
        if b.crate != "abasic_core":
            continue
        if p.endswith("program_lines::ProgramLines::has"):
            out.add(p)
            continue
        if b.local_ty(0) != "bool" or len(b.calls()) != 1:
            continue
        c = b.calls()[0]
        if c.callee.endswith("program_lines::ProgramLines::has") and c.dest["local"] == 0 and not c.dest["proj"] and \
                len(c.args) > 1 and strip_expr(b.expr(c.args[1]))[0] == "param":
            out.add(p)
    return out
