"""Facts loader and per-body CFG utilities over the JSON written by driver/.

Nothing here is specific to a property: paths are normalised, CFGs exclude cleanup
(unwind) blocks, dominators / post-dominators / natural loops are computed per body,
and temporaries are expanded into expression trees through their unique definition.
"""
import json
import os
import re
from functools import lru_cache

CRATES = {
    "abasic_core": "abasic_core.lib.json",
    "abasic": "abasic.bin.json",
    "abasic_web": "abasic_web.lib.json",
    "abasic_lsp": "abasic_lsp.bin.json",
}


def strip_generics(path):
    """`A::<'a, T>::f` -> `A::f`; leaves `<X as Tr>::f` qualified paths alone."""
    out = []
    i = 0
    n = len(path)
    while i < n:
        if path.startswith("::<", i) and not path.startswith("::<impl ", i):
            depth = 0
            j = i + 2
            while j < n:
                if path[j] == "<":
                    depth += 1
                elif path[j] == ">":
                    if j > 0 and path[j - 1] == "-":
                        pass
                    else:
                        depth -= 1
                        if depth == 0:
                            break
                j += 1
            i = j + 1
            continue
        out.append(path[i])
        i += 1
    return "".join(out)


_TY_GENERIC_RE = re.compile(r"<'[a-z_]+(, '[a-z_]+)*>")


def norm(path):
    p = strip_generics(path)
    # `<Tokenizer<'a, T> as Iterator>::next` -> `<Tokenizer as Iterator>::next`
    if p.startswith("<"):
        p = _strip_inner_generics(p)
    return p


def _strip_inner_generics(p):
    # remove generic argument lists of the self type inside `<Self<..> as Trait<..>>::m`
    # only for the Self part (before " as "); keep trait args (they distinguish impls).
    if " as " not in p:
        return p
    depth = 0
    for idx, ch in enumerate(p):
        if ch == "<":
            depth += 1
        elif ch == ">" and (idx == 0 or p[idx - 1] != "-"):
            depth -= 1
        if depth == 1 and p.startswith(" as ", idx):
            self_part = p[1:idx]
            rest = p[idx:]
            lt = self_part.find("<")
            if lt > 0 and not self_part.startswith("&") and not self_part.startswith("("):
                self_part = self_part[:lt]
            return "<" + self_part + rest
    return p


def short(path):
    """Last two path segments, for display."""
    p = norm(path)
    if p.startswith("<"):
        return p
    parts = p.split("::")
    return "::".join(parts[-2:])


class Span:
    __slots__ = ("file", "line", "col", "eline", "exp", "macro")

    def __init__(self, d):
        self.file = d.get("file", "?")
        self.line = d.get("line", 0)
        self.col = d.get("col", 0)
        self.eline = d.get("eline", 0)
        self.exp = d.get("exp", False)
        self.macro = d.get("macro", "")

    def __str__(self):
        return "%s:%d" % (self.file, self.line)


def place_fields(place):
    """[(adt, fieldname)] for the ADT field projections of a place, in order."""
    out = []
    for pr in place["proj"]:
        if pr["k"] == "field":
            adt = pr.get("adt")
            name = pr.get("name", str(pr["i"]))
            if adt is None:
                continue
            if adt == "(tuple)":
                out.append(("(tuple)", str(pr["i"])))
            elif adt.startswith("(closure"):
                out.append(("(closure)", str(pr["i"])))
            else:
                out.append((norm(adt), name))
    return out


def _proj_sig(pr):
    k = pr["k"]
    if k == "field":
        return ("field", norm(pr.get("adt", "")), pr.get("variant"), pr.get("name", str(pr["i"])))
    if k == "downcast":
        return ("downcast", pr.get("variant"))
    return (k,)


def place_has_deref(place):
    return any(pr["k"] == "deref" for pr in place["proj"])


def is_bare(place):
    return not place["proj"]


def op_place(op):
    if op["k"] in ("copy", "move"):
        return op["place"]
    return None


def op_local(op):
    p = op_place(op)
    if p is not None and not p["proj"]:
        return p["local"]
    return None


def const_int(op):
    if op["k"] == "const" and "int" in op:
        return op["int"]
    return None


def const_str(op):
    if op["k"] == "const":
        return op.get("str")
    return None


def const_float(op):
    if op["k"] == "const" and "float" in op:
        try:
            return float(op["float"])
        except ValueError:
            return None
    return None


class Call:
    """A Call terminator."""

    def __init__(self, body, bb, term, tspan):
        self.body = body
        self.bb = bb
        self.term = term
        self.args = term["args"]
        self.dest = term["dest"]
        self.target = term["target"]
        self.span = Span(term.get("fn_span") or tspan)
        self.tspan = Span(tspan)
        raw = term.get("resolved") or term.get("callee")
        self.callee = norm(raw)
        self.declared = norm(term.get("callee", raw))
        self.callee_crate = term.get("resolved_crate") or term.get("callee_crate") or "?"
        self.gargs = term.get("gargs", [])
        self.full = term.get("resolved_full") or term.get("callee_full") or raw
        self.indirect = term.get("callee") == "(indirect)"

    @property
    def is_local(self):
        return self.callee_crate in CRATES

    def __repr__(self):
        return "Call(%s @bb%d)" % (self.callee, self.bb)


class Body:
    def __init__(self, d):
        self.raw = d
        self.path = norm(d["path"])
        self.full_path = d["path"]
        self.crate = d["crate"]
        self.kind = d["kind"]
        self.is_pub = d.get("is_pub", False)
        self.vis = d.get("vis", "")
        self.arg_count = d["arg_count"]
        self.span = Span(d["span"])
        self.locals = d["locals"]
        self.blocks = d["blocks"]
        self.self_adt = norm(d["self_adt"]) if "self_adt" in d else None
        self.impl_trait = norm(d["impl_trait"]) if "impl_trait" in d else None
        self.parent = norm(d["parent"]) if "parent" in d else None
        self.names = {}
        for v in d["debug"]:
            if not v["place"]["proj"]:
                self.names.setdefault(v["place"]["local"], v["name"])
        self._succ = None
        self._pred = None
        self._dom = None
        self._pdom = None
        self._defs = None
        self._calls = None

    # ------------------------------------------------------------ basics
    def local_ty(self, n):
        return self.locals[n]["ty"]

    def local_name(self, n):
        return self.names.get(n, "_%d" % n)

    def term(self, bb):
        return self.blocks[bb]["term"]

    def is_cleanup(self, bb):
        return self.blocks[bb]["cleanup"]

    def succs(self, bb):
        if self._succ is None:
            self._build_cfg()
        return self._succ[bb]

    def preds(self, bb):
        if self._succ is None:
            self._build_cfg()
        return self._pred[bb]

    def _raw_succs(self, bb):
        t = self.blocks[bb]["term"]
        k = t["k"]
        if k == "goto":
            return [t["target"]]
        if k == "switch":
            out = [x[1] for x in t["targets"]]
            out.append(t["otherwise"])
            return out
        if k in ("drop", "assert"):
            return [t["target"]]
        if k == "call":
            return [t["target"]] if t["target"] is not None else []
        return []

    def _build_cfg(self):
        n = len(self.blocks)
        self._succ = [[] for _ in range(n)]
        self._pred = [[] for _ in range(n)]
        for b in range(n):
            if self.blocks[b]["cleanup"]:
                continue
            seen = []
            for s in self._raw_succs(b):
                if self.blocks[s]["cleanup"]:
                    continue
                if s not in seen:
                    seen.append(s)
            self._succ[b] = seen
            for s in seen:
                self._pred[s].append(b)

    def reachable(self):
        seen = {0}
        stack = [0]
        while stack:
            b = stack.pop()
            for s in self.succs(b):
                if s not in seen:
                    seen.add(s)
                    stack.append(s)
        return seen

    def return_blocks(self):
        return [b for b in self.reachable() if self.term(b)["k"] == "return"]

    # ------------------------------------------------------------ dominators
    def dominators(self):
        """dom[b] = set of blocks dominating b (including b)."""
        if self._dom is not None:
            return self._dom
        reach = self.reachable()
        order = sorted(reach)
        dom = {b: set(reach) for b in order}
        dom[0] = {0}
        changed = True
        while changed:
            changed = False
            for b in order:
                if b == 0:
                    continue
                ps = [p for p in self.preds(b) if p in reach]
                if ps:
                    new = set.intersection(*[dom[p] for p in ps])
                else:
                    new = set()
                new = new | {b}
                if new != dom[b]:
                    dom[b] = new
                    changed = True
        self._dom = dom
        return dom

    def dominates(self, a, b):
        return a in self.dominators().get(b, set())

    def postdominators(self):
        """pdom[b] = blocks post-dominating b w.r.t. Return exits (diverging paths ignored)."""
        if self._pdom is not None:
            return self._pdom
        reach = self.reachable()
        rets = set(self.return_blocks())
        # blocks that can reach a return
        can = set(rets)
        work = list(rets)
        while work:
            b = work.pop()
            for p in self.preds(b):
                if p in reach and p not in can:
                    can.add(p)
                    work.append(p)
        pdom = {b: set(can) for b in can}
        for r in rets:
            pdom[r] = {r}
        changed = True
        while changed:
            changed = False
            for b in sorted(can, reverse=True):
                if b in rets:
                    continue
                ss = [s for s in self.succs(b) if s in can]
                if ss:
                    new = set.intersection(*[pdom[s] for s in ss])
                else:
                    new = set()
                new = new | {b}
                if new != pdom[b]:
                    pdom[b] = new
                    changed = True
        self._pdom = pdom
        return pdom

    def back_edges(self):
        out = []
        dom = self.dominators()
        for b in self.reachable():
            for s in self.succs(b):
                if s in dom.get(b, ()):
                    out.append((b, s))
        return out

    def natural_loops(self):
        """{header: set(blocks)}"""
        loops = {}
        for (t, h) in self.back_edges():
            body = {h, t}
            stack = [t]
            while stack:
                x = stack.pop()
                if x == h:
                    continue
                for p in self.preds(x):
                    if p not in body:
                        body.add(p)
                        stack.append(p)
            loops.setdefault(h, set()).update(body)
        return loops

    def reaches(self, a, b, avoid=()):
        """Is there a path a ->+ b (at least one edge) avoiding blocks in `avoid`?"""
        seen = set()
        stack = list(self.succs(a))
        while stack:
            x = stack.pop()
            if x in seen or x in avoid:
                continue
            seen.add(x)
            if x == b:
                return True
            stack.extend(self.succs(x))
        return False

    def blocks_reachable_from(self, a, avoid=()):
        seen = set()
        stack = [a]
        while stack:
            x = stack.pop()
            if x in seen or x in avoid:
                continue
            seen.add(x)
            stack.extend(self.succs(x))
        return seen

    def paths(self, start=0, limit=10000, stop=None):
        """Enumerate acyclic entry->return block paths (each loop body traversed at most once).

        Returns a list of block lists; raises OverflowError beyond `limit` (callers fail closed).
        """
        out = []
        stack = [(start, [start])]
        while stack:
            b, path = stack.pop()
            if stop is not None and b in stop:
                out.append(path)
                continue
            ss = self.succs(b)
            if not ss:
                out.append(path)
                continue
            for s_ in ss:
                if s_ in path:
                    continue  # back edge: do not unroll
                stack.append((s_, path + [s_]))
            if len(out) + len(stack) > limit:
                raise OverflowError("more than %d paths in %s" % (limit, self.path))
        return out

    def const_paths(self, start, stop, limit=20000):
        """Paths from `start` until a block in `stop` (or a return / dead end), pruned by constant
        propagation of bare locals assigned integer/bool constants (A7).  Back edges are not unrolled.
        Yields (path, reached_stop_block_or_None)."""
        out = []
        stack = [(start, [start], {})]
        while stack:
            b, path, env = stack.pop()
            env = dict(env)
            blk = self.blocks[b]
            for st in blk["stmts"]:
                if st["k"] != "assign":
                    continue
                pl, rv = st["place"], st["rv"]
                if pl["proj"]:
                    continue
                l = pl["local"]
                if rv["k"] == "use" and rv["op"]["k"] == "const" and "int" in rv["op"]:
                    env[l] = rv["op"]["int"]
                elif rv["k"] == "use" and rv["op"]["k"] in ("copy", "move") and not rv["op"]["place"]["proj"] \
                        and rv["op"]["place"]["local"] in env:
                    env[l] = env[rv["op"]["place"]["local"]]
                else:
                    env.pop(l, None)
            t = blk["term"]
            succs = self.succs(b)
            if t["k"] == "call" and not t["dest"]["proj"]:
                env.pop(t["dest"]["local"], None)
            if t["k"] == "switch" and t["discr"]["k"] in ("copy", "move") and not t["discr"]["place"]["proj"] \
                    and t["discr"]["place"]["local"] in env:
                v = env[t["discr"]["place"]["local"]]
                tg = {int(x): y for x, y in t["targets"]}
                succs = [tg.get(v, t["otherwise"])]
                succs = [x for x in succs if not self.blocks[x]["cleanup"]]
            if not succs:
                out.append((path, None))
                continue
            for s_ in succs:
                if s_ in stop:
                    out.append((path, s_))
                    continue
                if s_ in path:
                    continue
                stack.append((s_, path + [s_], env))
            if len(out) + len(stack) > limit:
                raise OverflowError("more than %d paths in %s" % (limit, self.path))
        return out

    # ------------------------------------------------------------ statements / calls
    def calls(self):
        if self._calls is None:
            out = []
            for b in sorted(self.reachable()):
                blk = self.blocks[b]
                if blk["term"]["k"] == "call":
                    out.append(Call(self, b, blk["term"], blk["tspan"]))
            self._calls = out
        return self._calls

    def call_at(self, bb):
        for c in self.calls():
            if c.bb == bb:
                return c
        return None

    def calls_to(self, suffix):
        return [c for c in self.calls() if c.callee == suffix or c.callee.endswith("::" + suffix)]

    def assigns(self):
        """yield (bb, idx, place, rvalue, span) for assignments in reachable non-cleanup blocks."""
        for b in sorted(self.reachable()):
            for i, st in enumerate(self.blocks[b]["stmts"]):
                if st["k"] == "assign":
                    yield b, i, st["place"], st["rv"], Span(st["span"])

    def defs(self):
        """local -> list of ('assign', bb, idx, rv) | ('call', bb, Call)"""
        if self._defs is None:
            d = {}
            for b, i, pl, rv, _sp in self.assigns():
                if not pl["proj"]:
                    d.setdefault(pl["local"], []).append(("assign", b, i, rv))
                else:
                    d.setdefault(pl["local"], []).append(("partial", b, i, rv, pl))
            for c in self.calls():
                if not c.dest["proj"]:
                    d.setdefault(c.dest["local"], []).append(("call", c.bb, c))
                else:
                    d.setdefault(c.dest["local"], []).append(("partial-call", c.bb, c))
            self._defs = d
        return self._defs

    def unique_def(self, local):
        ds = self.defs().get(local, [])
        if len(ds) == 1 and ds[0][0] in ("assign", "call"):
            return ds[0]
        return None

    def binding_expr(self, local, depth=12):
        """The expression a local was bound to, ignoring later stores THROUGH it (`(*_10).f = ..` is recorded as a partial
        definition of _10, which makes `unique_def` give up; for a reference that is the wrong answer: the reference itself
        is still the one value it was bound to)."""
        ds = [d for d in self.defs().get(local, []) if d[0] in ("assign", "call")]
        if len(ds) != 1:
            return ("local", local)
        if ds[0][0] == "call":
            c = ds[0][2]
            return ("call", c.callee, [self.expr(a, depth - 1) for a in c.args], c)
        return self.rv_expr(ds[0][3], depth - 1)

    # ------------------------------------------------------------ expression trees
    def expr(self, op, depth=12):
        """Expand an operand into a nested tuple through unique definitions of temporaries.

        Forms: ('const', opdict) ('param', i, fields) ('local', n, fields)
               ('call', callee, [args], Call) ('binop', op, a, b) ('unop', op, a)
               ('cast', kind, a, to) ('ref', expr) ('agg', adt, variant, [ops])
               ('discr', expr) ('place', base_expr, fields, has_deref)
        """
        if op["k"] == "const":
            if "promoted" in op:
                pv = self.promoted_value(op["promoted"])
                if pv is not None:
                    return pv
            return ("const", op)
        if op["k"] not in ("copy", "move"):
            return ("unknown", op)
        return self.place_expr(op["place"], depth)

    def promoted_value(self, n):
        """Value of promoted constant `n` (e.g. `&InterpreterState::NewInterpreterRequested`) as an expr."""
        for p in self.raw.get("promoted", []):
            if p["i"] != n:
                continue
            defs = {}
            for blk in p["blocks"]:
                for st in blk["stmts"]:
                    if st["k"] == "assign" and not st["place"]["proj"]:
                        defs[st["place"]["local"]] = st["rv"]

            def val(rv, d=0):
                if d > 6:
                    return ("unknown", rv)
                k = rv["k"]
                if k == "ref":
                    pl = rv["place"]
                    if not pl["proj"] and pl["local"] in defs:
                        return ("ref", val(defs[pl["local"]], d + 1), False)
                    return ("unknown", rv)
                if k == "use":
                    o = rv["op"]
                    if o["k"] == "const":
                        return ("const", o)
                    if o["k"] in ("copy", "move") and not o["place"]["proj"] and o["place"]["local"] in defs:
                        return val(defs[o["place"]["local"]], d + 1)
                    return ("unknown", rv)
                if k == "aggregate":
                    ops = []
                    for o in rv["ops"]:
                        if o["k"] == "const":
                            ops.append(("const", o))
                        elif o["k"] in ("copy", "move") and not o["place"]["proj"] and o["place"]["local"] in defs:
                            ops.append(val(defs[o["place"]["local"]], d + 1))
                        else:
                            ops.append(("unknown", o))
                    return ("agg", norm(rv.get("adt") or rv.get("agg")), rv.get("variant"), ops)
                return ("unknown", rv)

            if 0 in defs:
                return val(defs[0])
        return None

    def place_expr(self, place, depth=12):
        base = self._local_expr(place["local"], depth)
        fields = tuple(place_fields(place))
        deref = place_has_deref(place)
        if not place["proj"]:
            return base
        proj = tuple(_proj_sig(pr) for pr in place["proj"])
        # `(a, b).0` -> a : project tuple aggregates so provenance stays precise
        while base[0] == "agg" and base[1] == "tuple" and proj and proj[0][0] == "field" and proj[0][1] == "(tuple)":
            idx = int(proj[0][3])
            if idx >= len(base[3]):
                break
            base = base[3][idx]
            proj = proj[1:]
            fields = fields[1:]
            if not proj:
                return base
            # merge with an inner place
            if base[0] == "place":
                return ("place", base[1], base[2] + fields, base[3] or deref, base[4] + proj)
        return ("place", base, fields, deref, proj)

    def _local_expr(self, n, depth):
        if 1 <= n <= self.arg_count:
            return ("param", n - 1)
        if depth <= 0:
            return ("local", n)
        d = self.unique_def(n)
        if d is None:
            return ("local", n)
        if d[0] == "call":
            c = d[2]
            return ("call", c.callee, [self.expr(a, depth - 1) for a in c.args], c)
        rv = d[3]
        return self.rv_expr(rv, depth - 1)

    def rv_expr(self, rv, depth=12):
        k = rv["k"]
        if k == "use":
            return self.expr(rv["op"], depth)
        if k == "ref" or k == "rawptr":
            return ("ref", self.place_expr(rv["place"], depth), rv.get("mut", False))
        if k == "binop":
            return ("binop", rv["op"], self.expr(rv["a"], depth), self.expr(rv["b"], depth))
        if k == "unop":
            return ("unop", rv["op"], self.expr(rv["a"], depth))
        if k == "cast":
            return ("cast", rv["cast"], self.expr(rv["op"], depth), rv["to"], rv.get("from"))
        if k == "aggregate":
            return (
                "agg",
                norm(rv.get("adt") or rv.get("closure") or rv.get("agg")),
                rv.get("variant"),
                [self.expr(o, depth) for o in rv["ops"]],
            )
        if k == "discr":
            return ("discr", self.place_expr(rv["place"], depth))
        if k == "repeat":
            return ("repeat", self.expr(rv["op"], depth), rv["n"])
        return ("unknown", rv)

    # ------------------------------------------------------------ switches
    def switch_info(self, bb):
        """For a SwitchInt block: (subject_expr, {value: target}, otherwise, variant_names or None).

        If the scrutinee is `discriminant(place)` computed in this block (or a unique def),
        variant_names maps value -> variant name and subject is the place expr.
        """
        t = self.term(bb)
        if t["k"] != "switch":
            return None
        targets = {int(v): tgt for v, tgt in t["targets"]}
        discr = t["discr"]
        names = None
        subject = self.expr(discr)
        loc = op_local(discr)
        if loc is not None:
            rv = None
            for st in reversed(self.blocks[bb]["stmts"]):
                if st["k"] == "assign" and not st["place"]["proj"] and st["place"]["local"] == loc:
                    rv = st["rv"]
                    break
            if rv is None:
                d = self.unique_def(loc)
                if d and d[0] == "assign":
                    rv = d[3]
            if rv is not None and rv["k"] == "discr":
                if "variants" in rv:
                    names = {int(v): n for v, n in rv["variants"]}
                subject = ("discr", self.place_expr(rv["place"]), norm(rv.get("adt", "")))
        return subject, targets, t["otherwise"], names


_CONV = {
    "<T as core::convert::Into<U>>::into": "<%s as core::convert::From<%s>>::from",
    "<T as core::convert::TryInto<U>>::try_into": "<%s as core::convert::TryFrom<%s>>::try_from",
}


def _resolve_conversions(raw_body, known):
    """`x.into()` resolves to the blanket impl; step through to the local From/TryFrom impl."""
    for blk in raw_body["blocks"]:
        t = blk["term"]
        if t["k"] != "call":
            continue
        r = t.get("resolved")
        if r in _CONV and len(t.get("gargs", [])) == 2:
            src, dst = t["gargs"]
            cands = [_CONV[r] % (dst, src)]
            # inherent-style printing used for impls on foreign types: crate::module::<impl Tr<S> for D>::f
            for cand in cands:
                if norm(cand) in known:
                    t["resolved_via"] = r
                    t["resolved"] = cand
                    t["resolved_crate"] = known[norm(cand)]
                    break
            else:
                tr = "TryFrom" if "TryInto" in r else "From"
                m = "try_from" if "TryInto" in r else "from"
                tail = "<impl core::convert::%s<%s> for %s>::%s" % (tr, src, dst, m)
                for k, cr in known.items():
                    if k.endswith(tail):
                        t["resolved_via"] = r
                        t["resolved"] = k
                        t["resolved_crate"] = cr
                        break


class Facts:
    def __init__(self, directory):
        self.dir = directory
        self.crates = {}
        self.bodies = {}
        self.adts = {}
        self.consts = {}
        self.pointer_bits = 64
        raw_bodies = []
        for crate, fname in CRATES.items():
            p = os.path.join(directory, fname)
            with open(p) as f:
                d = json.load(f)
            self.crates[crate] = d
            self.pointer_bits = d.get("pointer_bits", 64)
            for b in d["bodies"]:
                raw_bodies.append(b)
        import specialize
        self.specialised = specialize.specialize(raw_bodies, norm)
        known = {norm(b["path"]): b["crate"] for b in raw_bodies}
        for b in raw_bodies:
            _resolve_conversions(b, known)
        for crate, d in self.crates.items():
            for b in d["bodies"]:
                body = Body(b)
                key = body.path
                if key in self.bodies:
                    # closures / duplicate impl paths: disambiguate by line
                    key = "%s@%d" % (key, body.span.line)
                    body.path = key
                self.bodies[key] = body
            for a in d["adts"]:
                self.adts[norm(a["path"])] = a
            for c in d["consts"]:
                self.consts[norm(c["path"])] = c
        self.nonces = {c: d.get("nonce") for c, d in self.crates.items()}

    def body(self, path):
        return self.bodies.get(path)

    def find(self, suffix, crate=None):
        """Bodies whose normalised path equals suffix or ends with ::suffix."""
        out = []
        for k, b in self.bodies.items():
            if crate and b.crate != crate:
                continue
            if k == suffix or k.endswith("::" + suffix):
                out.append(b)
        return out

    def one(self, suffix, crate=None):
        bs = self.find(suffix, crate)
        if len(bs) == 1:
            return bs[0]
        return None

    def const(self, suffix):
        for k, c in self.consts.items():
            if k == suffix or k.endswith("::" + suffix):
                return c.get("int")
        return None

    def adt(self, suffix):
        for k, a in self.adts.items():
            if k == suffix or k.endswith("::" + suffix):
                return a
        return None

    def adt_fields(self, suffix):
        a = self.adt(suffix)
        if a is None:
            return None
        return [f["name"] for f in a["variants"][0]["fields"]]

    def adt_mentions_closure(self, adt_path, targets):
        """Does ADT (transitively through local ADTs) mention any of `targets`?"""
        seen = set()

        def go(p):
            if p in targets:
                return True
            if p in seen:
                return False
            seen.add(p)
            a = self.adts.get(p)
            if a is None:
                return False
            for v in a["variants"]:
                for f in v["fields"]:
                    for m in f["mentions"]:
                        if go(norm(m)):
                            return True
            return False

        return go(adt_path)

    def field_mentions(self, adt_suffix, field, targets):
        a = self.adt(adt_suffix)
        for v in a["variants"]:
            for f in v["fields"]:
                if f["name"] == field:
                    for m in f["mentions"]:
                        if self.adt_mentions_closure(norm(m), targets):
                            return True
        return False
