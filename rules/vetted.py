"""Vetted panic-capable sites (A2.4): site key -> invariant + one-line reason (+ structural check).

A key is `<fn path>|<kind>|<callee or assert kind>|<producer of the receiver>[#n]` -- no line numbers.
Every invariant named here is an obligation of a structural rule (the `check` function below, or a
property module listed in INV_DEPENDS), so nothing is trusted merely because it was read once.
A site that moves to another function, or a new site, has no row and is reported.
"""
from lib import sfx, strip_expr, strip_refs, show, expr_calls, callers_of, bool_switch_true_target, aggregates

# invariants established by other property modules: (module, key prefixes whose violation breaks it)
INV_DEPENDS = {
    "INV-LOC": ("C11", ("C11:KILL:", "C11:ESTABLISH:", "C11:WRITER:", "C11:CALLER:")),
    "INV-SYNC": ("C04", ("C04:PAIR:", "C04:WRITER:", "C04:CALLER:")),
    "INV-DIM": ("C16", ("C16:DIM:", "C16:OVF:")),
    "INV-RNG": ("C18", ("C18:RANGE:", "C18:STEP:", "C18:OVF:", "C18:SEEDWRITER:", "C18:CONST:")),
    "INV-CURSOR": ("C13", ("C13:CURSOR:", "C13:ADVANCE:")),
}


# ------------------------------------------------------------------------------- structural checks
def on_continue_arm_of(body, callee_suffix, bb, same_arg=None):
    """bb is dominated by the success arm of `callee(..)?` (or of a `match callee(..)`); optionally
    arg index -> expected expr."""
    from lib import on_ok_arm
    for c in body.calls():
        if not sfx(c.callee, callee_suffix):
            continue
        if same_arg is not None:
            idx, want = same_arg
            if strip_expr(body.expr(c.args[idx])) != want:
                continue
        if on_ok_arm(body, c, bb):
            return True
    return False


def chk_after_create(F, E, body, s):
    """map.get(name).unwrap() right after maybe_create_default_array(name, ..)? on the same map and key."""
    key = strip_expr(body.expr(s.call.args[0]))
    # receiver: get(&self.0, array_name)
    if key[0] != "call" or not (key[1].endswith("::get") or key[1].endswith("::get_mut")):
        return False
    name = strip_expr(key[2][1])
    if name[0] != "param":
        return False
    if not on_continue_arm_of(body, "Arrays::maybe_create_default_array", s.bb, same_arg=(1, name)):
        return False
    # the helper really inserts when the key is missing
    mc = F.one("Arrays::maybe_create_default_array")
    if mc is None:
        return False
    ins = [c for c in mc.calls() if c.callee.endswith("HashMap::insert")]
    def is_membership(c):
        if c.callee.endswith("HashMap::contains_key"):
            return True
        wb = F.bodies.get(c.callee)            # `fn has(&self, k) -> bool { self.0.contains_key(k) }`
        if wb is None or wb.local_ty(0) != "bool" or len(wb.calls()) != 1:
            return False
        w = wb.calls()[0]
        return w.callee.endswith("HashMap::contains_key") and w.dest["local"] == 0 and not w.dest["proj"]
    has = [c for c in mc.calls() if is_membership(c)]
    if not ins or not has:
        return False
    # every Ok return is preceded by contains_key==true or by the insert
    for path in mc.paths():
        blocks = set(path)
        ok_ret = any(st["k"] == "assign" and st["place"]["local"] == 0 and not st["place"]["proj"]
                     and st["rv"]["k"] == "aggregate" and st["rv"].get("variant") == "Ok"
                     for b in path for st in mc.blocks[b]["stmts"])
        if not ok_ret:
            continue
        inserted = any(i.bb in blocks for i in ins)
        found = False
        for h in has:
            if h.bb in blocks and h.target is not None:
                ft = bool_switch_true_target(mc, h.target)
                if ft and ft[1] in blocks:
                    found = True
        if not (inserted or found):
            return False
    return True


def chk_index_from_linear(F, E, body, s):
    """values[linear_index] where linear_index is the Ok payload of get_linear_index(self, index)."""
    idx = body.expr(s.call.args[1])
    ok = any(sfx(c[1], "DimArray::get_linear_index") for c in expr_calls(idx))
    if ok and on_continue_arm_of(body, "DimArray::get_linear_index", s.bb):
        return True
    # `self.get_linear_index(index).map(|linear_index| self.values[linear_index] ..)`: the closure runs on the Ok value only
    if "::{closure" in body.path and strip_expr(idx) == ("param", 1):
        parent = F.bodies.get(body.path.split("::{closure", 1)[0])
        if parent is not None:
            for c in parent.calls():
                if c.callee.split("::")[-1] == "map" and "Result" in c.callee and c.args:
                    recv = strip_expr(parent.expr(c.args[0]))
                    if recv[0] == "call" and sfx(recv[1], "DimArray::get_linear_index"):
                        return True
    return False


def chk_gli(F, E, body, s):
    """stride arithmetic runs only past the `dim_index >= dim_size -> BadSubscript` early return."""
    for b in sorted(body.reachable()):
        t = body.term(b)
        if t["k"] != "switch" or not body.dominates(b, s.bb):
            continue
        e = strip_expr(body.expr(t["discr"]))
        if e[0] == "binop" and e[1] in ("Ge", "Lt"):
            ft = bool_switch_true_target(body, b)
            if not ft:
                continue
            arm = ft[0] if e[1] == "Ge" else ft[1]
            if body.dominates(arm, s.bb) and "dimensions" in show(e[3]):
                return True
    # ... or past an up-front validation of every subscript against its dimension
    from lib import any_guard
    for (sb_, none_arm, ops_, ac) in any_guard(F, body):
        if "Ge" in ops_ and "dimensions" in show(body.expr(ac.args[0])) and (s.bb == none_arm or body.dominates(none_arm, s.bb)):
            return True
    return False


def chk_peek_then_next(F, E, body, s):
    """next_token().unwrap() on a path where the immediately preceding peek_next_token() was Some and
    nothing moved the cursor in between."""
    recv = strip_expr(body.expr(s.call.args[0]))
    if recv[0] != "call" or not sfx(recv[1], "Program::next_token"):
        return False
    nt = recv[3]
    for pk in body.calls():
        if not sfx(pk.callee, "Program::peek_next_token") or pk.target is None:
            continue
        # discriminant switch on the peek result
        info = None
        for b in sorted(body.reachable()):
            si = body.switch_info(b)
            if si and si[3] and set(si[3].values()) == {"None", "Some"} and body.dominates(pk.bb, b):
                subj = si[0]
                if "peek_next_token" in show(subj):
                    info = (b, si)
                    break
        if info is None:
            continue
        b, (subject, targets, otherwise, names) = info
        some_t = [targets.get(v, otherwise) for v, n in names.items() if n == "Some"][0]
        if not body.dominates(some_t, nt.bb):
            continue
        # no cursor-moving call between the Some arm and this next_token
        avoid = {b}
        fwd = body.blocks_reachable_from(some_t, avoid=avoid)
        between = {x for x in fwd if x != nt.bb and body.reaches(x, nt.bb, avoid=avoid)}
        moved = False
        for x in between:
            c = body.call_at(x)
            if c is not None and c.is_local and c.callee in E.info:
                if any(p and p[-1][1] in ("token_index", "location") for (_k, p) in E.info[c.callee].writes):
                    moved = True
        if not moved:
            return True
    return False


def frame_poppers(F):
    """Program methods that take a frame off Program.stack and never put one on."""
    from props import C16
    out = set()
    for pb in F.bodies.values():
        if pb.crate == "abasic_core" and pb.self_adt == C16.PROGRAM:
            pops = [c for c in pb.calls() if c.callee.split("::")[-1] in ("pop", "truncate", "clear", "drain", "remove", "split_off")
                    and not c.is_local and C16.receiver_field(pb, c) == (C16.PROGRAM, "stack")]
            pushes = [c for c in pb.calls() if c.callee.endswith("Vec::push") and C16.receiver_field(pb, c) == (C16.PROGRAM, "stack")]
            if pops and not pushes:
                out.add(pb.path)
    return out


def _fn_call_frames_balanced(F, E):
    """In evaluate_user_defined_function_call every path takes at most one frame off, and only after a successful push, and all frame-popping methods reachable from expression evaluation are called only there: so a nested
    evaluation returns with the stack exactly as it found it, and the frame popped is the one this call pushed."""
    import panics
    from lib import on_ok_arm
    ud = F.one("ExpressionEvaluator::evaluate_user_defined_function_call")
    root = F.one("ExpressionEvaluator::evaluate_expression")
    if ud is None or root is None:
        return False
    G = panics.CallGraph(F)
    seen = G.reachable([root.path])
    poppers = {p for p in frame_poppers(F) if p in seen}
    if not any(sfx(p, "Program::pop_function_call_off_stack_and_return_from_it") for p in poppers):
        return False
    for p in poppers:
        for cb, c in callers_of(F, p):
            if cb.path in seen and cb.path != ud.path and not cb.path.startswith(ud.path + "::{closure"):
                return False
    counts = fn_call_frame_counts(F, ud, poppers)
    if counts is None:
        return False
    for (pushed, n, early) in counts:
        if early or n > 1:
            return False    # more frames taken off than this call put on (fewer is a leak -- C07's pairing rule -- not a trap)
    return True


def fn_call_frame_counts(F, ud, poppers):
    """Per entry->return path of evaluate_user_defined_function_call: (frame pushed successfully?, frames taken off after it,
    was one taken off before / without the push?)"""
    from lib import on_ok_arm
    pushes = ud.calls_to("Program::push_function_call_onto_stack_and_goto_it")
    if len(pushes) != 1:
        return None
    try:
        paths = ud.paths(limit=50000)
    except OverflowError:
        return None
    # `expr.map_err(|e| { self.program().discard..(); e })?`: the closure runs exactly when the result is an error, i.e. on
    # the paths that leave through the `?` right behind the map_err call
    err_closure_pops = {}
    for c in ud.calls():
        if c.callee.split("::")[-1] == "map_err" and len(c.args) > 1:
            k = 0
            for p in sorted(F.bodies):
                if p.startswith(ud.path + "::{closure") and F.bodies[p].span.line >= c.span.line and \
                        F.bodies[p].span.line <= getattr(c.span, "eline", c.span.line) + 12:
                    k += sum(1 for x in F.bodies[p].calls() if x.callee in poppers)
            if k:
                err_closure_pops[c.bb] = (c, k)
    out = []
    for path in paths:
        if ud.term(path[-1])["k"] != "return":
            continue
        n = 0
        pushed = False
        early = False
        for idx, b in enumerate(path):
            c = ud.call_at(b)
            if c is None:
                continue
            if c.callee == pushes[0].callee:
                pushed = any(on_ok_arm(ud, c, x) for x in path[idx + 1:idx + 8])
            elif c.callee in poppers:
                if not pushed:
                    early = True
                n += 1
            elif b in err_closure_pops:
                mc, k = err_closure_pops[b]
                rest = path[idx + 1:]
                took_error_exit = any((ud.call_at(x) is not None and ud.call_at(x).callee.endswith("from_residual")) for x in rest[:8]) \
                    and not any(on_ok_arm(ud, mc, x) for x in rest[:8])
                if took_error_exit:
                    if not pushed:
                        early = True
                    n += k
        out.append((pushed, n, early))
    return out


def chk_fn_pop(F, E, body, s):
    """stack.pop().expect(..): the frame-popping methods are called only from evaluate_user_defined_function_call, exactly
    once after a successful push on every path, and expression evaluation cannot reach anything else that empties the stack."""
    return _fn_call_frames_balanced(F, E) and _expr_eval_cannot_unwind(F, E)


def _expr_eval_cannot_unwind(F, E):
    import panics
    G = panics.CallGraph(F)
    root = F.one("ExpressionEvaluator::evaluate_expression")
    if root is None:
        return False
    seen = G.reachable([root.path])
    forbidden = ("Program::return_to_last_gosub", "Program::set_and_goto_immediate_line", "Program::reset_runtime_state",
                 "Program::set_numbered_line", "Program::break_at_current_location", "Program::end",
                 "Program::define_function")
    for p in seen:
        if any(sfx(p, f) for f in forbidden):
            return False
    # direct clears / pops of Program.stack or Program.functions inside expression evaluation
    allowed = frame_poppers(F) | {p for p in F.bodies if sfx(p, "Program::push_function_call_onto_stack_and_goto_it")}
    for p in seen:
        fi = E.info.get(p)
        if fi is None:
            continue
        for (k, path, span, via, fresh) in fi.write_sites:
            if via in E.info:
                continue
            if path and path[-1] in (("abasic_core::program::Program", "stack"), ("abasic_core::program::Program", "functions")):
                if p not in allowed or path[-1][1] == "functions":
                    return False
    return True


def chk_fn_push(F, E, body, s):
    """functions.get(name).expect(..): the only caller looked the name up (Some) before, same name."""
    cs = callers_of(F, "Program::push_function_call_onto_stack_and_goto_it")
    for cb, c in cs:
        if not sfx(cb.path, "ExpressionEvaluator::evaluate_user_defined_function_call"):
            return False
        name = strip_expr(cb.expr(c.args[1]))
        ok = False
        for g in cb.calls_to("Program::get_function_argument_names"):
            if strip_expr(cb.expr(g.args[1])) == name and cb.dominates(g.bb, c.bb):
                ok = True
        if not ok:
            return False
    return _expr_eval_cannot_unwind(F, E)


def chk_data_nonempty(F, E, body, s):
    """data[0]: parse_data_until_colon never returns an empty Vec (finish() pushes when nothing was pushed)."""
    fin = F.one("DataParser::finish")
    pd = F.one("data::parse_data_until_colon")
    ti = F.one("Interpreter::take_input")
    if fin is None or pd is None or ti is None:
        return False
    # index 0 of the first tuple component of take_input()'s payload
    if "take_input" not in show(body.expr(s.call.args[0])):
        return False
    # ... and it IS index 0 (non-emptiness says nothing about data[k] for a counter k)
    ix = strip_expr(body.expr(s.call.args[1])) if len(s.call.args) > 1 else ("?",)
    if not (ix[0] == "const" and ix[1].get("int") == 0):
        return False
    if not ti.calls_to("data::parse_data_until_colon"):
        return False
    # finish() is called on every path of parse_data_until_colon before returning
    fcalls = pd.calls_to("DataParser::finish")
    pdom = pd.postdominators()
    if not any(f.bb in pdom.get(0, set()) for f in fcalls):
        return False
    # in finish(): every path that reaches `is_finished = true` either pushes an element or went through the
    # "elements is not empty" arm of an emptiness test on `elements`
    from lib import path_records
    saw = 0
    for r in path_records(fin):
        sets_finished = any(st["k"] == "assign" and [p for p in st["place"]["proj"] if p["k"] == "field"] and
                            [p for p in st["place"]["proj"] if p["k"] == "field"][-1].get("name") == "is_finished"
                            for b in r["path"] for st in fin.blocks[b]["stmts"])
        if not sets_finished:
            continue
        saw += 1
        pushed = any(sfx(c.callee, "DataParser::push_current_element") for c in r["calls"])
        nonempty = False
        for (txt, ps, val, subj) in r["decisions"]:
            if "elements" in txt and "is_empty" in txt and val is False:
                nonempty = True
            if "elements" in txt and "len(" in txt:
                e = strip_expr(subj)
                if e[0] == "binop" and e[1] == "Eq" and val is False:
                    nonempty = True
                if e[0] == "binop" and e[1] in ("Ne", "Gt") and val is True:
                    nonempty = True
        if not (pushed or nonempty):
            return False
    return saw > 0


def chk_in_loop_over_same_vec(F, E, body, s):
    """`arity - 1` inside the loop that iterates the vector whose length is `arity`."""
    loops = body.natural_loops()
    if not any(s.bb in blk for blk in loops.values()):
        return False
    x = strip_expr(body.expr(s.term["ops"][0]))
    return x[0] == "call" and x[1].endswith("::len")


def chk_drain_full(F, E, body, s):
    return any("RangeFull" in g for g in s.call.gargs)


def chk_drain_found_index(F, E, body, s):
    """drain(i..) where i was found by enumerate() / position() / rposition() over the same vector."""
    finders = [c for c in body.calls() if c.callee.split("::")[-1] in ("enumerate", "position", "rposition")]
    return any("RangeFrom" in g for g in s.call.gargs) and bool(finders)


def chk_stop_evaluating(F, E, body, s):
    """run_next_statement().unwrap() right after set_and_goto_immediate_line(vec![]): nothing is evaluated."""
    recv = strip_expr(body.expr(s.call.args[0]))
    if recv[0] != "call" or not sfx(recv[1], "Interpreter::run_next_statement"):
        return False
    rn = recv[3]
    from lib import immediate_line_emptied_by
    return any(body.dominates(c.bb, rn.bb) for c in immediate_line_emptied_by(F, body))


def chk_cruncher_cursor(F, E, body, s):
    """INV-CRUNCHER: LineCruncher.index <= bytes.len().  Every store to the field is one of: 0 (constructor),
    `index + 1` under a dominating `index < bytes.len()` test, `index + p + 1` where p is the payload of position() over
    `bytes[index..]` (so p < len - index), or `bytes.len()` itself.  `&bytes[index..]` is then in range."""
    LC = "line_cruncher::LineCruncher"
    n = 0
    for b in F.bodies.values():
        if b.crate != "abasic_core":
            continue
        for (bb, i, pl, rv, sp) in aggregates(b, LC):
            names = rv.get("fields", [])
            if "index" in names:
                v = strip_expr(b.expr(rv["ops"][names.index("index")]))
                if not (v[0] == "const" and v[1].get("int") == 0):
                    return False
        for (bb, i, pl, rv, sp) in b.assigns():
            fs = [p for p in pl["proj"] if p["k"] == "field"]
            if not (fs and fs[-1].get("name") == "index" and fs[-1].get("adt", "").endswith(LC)):
                continue
            n += 1
            e = strip_expr(b.rv_expr(rv))
            txt = show(e)
            if e[0] == "call" and e[1].endswith("::len") and expr_has_field_(e, "bytes"):
                continue
            if e[0] == "place" and e[1][0] == "binop" and e[1][1] == "AddWithOverflow":
                l, r = strip_expr(e[1][2]), strip_expr(e[1][3])
                if expr_has_field_(l, "index") and r[0] == "const" and r[1].get("int") == 1:
                    # needs the dominating `index < len` test
                    ok = False
                    for g in sorted(b.reachable()):
                        t = b.term(g)
                        if t["k"] == "switch" and b.dominates(g, bb) and g != bb:
                            ge = strip_expr(b.expr(t["discr"]))
                            if ge[0] == "binop" and ge[1] == "Lt" and expr_has_field_(ge[2], "index") and "len" in show(ge[3]) and expr_has_field_(ge[3], "bytes"):
                                ft = bool_switch_true_target(b, g)
                                if ft and b.dominates(ft[1], bb):
                                    ok = True
                    if ok:
                        continue
                    return False
                names_ = [x[1].split("::")[-1] for x in expr_calls(e)]
                if expr_has_field_(l, "index") and "position" in names_ and "index" in names_ and \
                        any(x[1].endswith("Index<I> for [T]>::index") and any("RangeFrom" in g for g in (x[3].gargs if len(x) > 3 else [])) for x in expr_calls(e)):
                    # index + (position payload + 1) over bytes[index..]
                    continue
            return False
    return n >= 1


def expr_has_field_(e, name):
    from lib import expr_has_field
    return expr_has_field(e, name)


def chk_caret_range(F, E, body, s):
    """`range.end - range.start` where range is what TokenizationError::string_range(..) returned -- in this function, or
    (when the range is a parameter of a helper) at every call site of the helper."""
    ops = s.term["ops"]
    a, b = strip_expr(body.expr(ops[0])), strip_expr(body.expr(ops[1]))

    def range_root(e, field):
        if e[0] == "place" and e[2] and e[2][-1][1] == field and str(e[2][-1][0]).endswith("Range"):
            return e
        return None
    ra, rb = range_root(a, "end"), range_root(b, "start")
    if ra is None or rb is None:
        return False

    def from_string_range(bd, e, depth=0):
        if any(x[1].endswith("TokenizationError::string_range") for x in expr_calls(e)):
            return True
        ps = set()
        from lib import expr_params
        ps = expr_params(e)
        if depth < 2 and len(ps) == 1 and not expr_calls(e):
            pi = list(ps)[0]
            callers = [(cb, c) for cb in F.bodies.values() for c in cb.calls() if c.callee == bd.path]
            return bool(callers) and all(pi < len(c.args) and from_string_range(cb, cb.expr(c.args[pi]), depth + 1) for cb, c in callers)
        return False
    return from_string_range(body, ra) and from_string_range(body, rb)


def chk_line_number_slices(F, E, body, s):
    """`line[a..]` / `line[a..b]` in parse_line_number: a is an offset returned by str::find on the same string (a char
    boundary) or a char_indices() offset; b is a char_indices() offset + 1 of an ASCII digit, or a + the length of a run of
    ASCII digits (one byte each) counted from a."""
    from lib import ascii_digit_run
    rng = strip_expr(body.expr(s.call.args[1]))
    if rng[0] != "agg" or not str(rng[1]).split("::")[-1].startswith("Range"):
        return False

    def boundary(e):
        e = strip_expr(e)
        names = [x[1].split("::")[-1] for x in expr_calls(e)]
        if e[0] == "place" and isinstance(e[1], tuple) and e[1][0] == "call" and e[1][1].endswith("<impl str>::find"):
            return True
        if ascii_digit_run(F, body, e) is not None:
            return boundary(ascii_digit_run(F, body, e)[0])
        if "char_indices" in names:
            return True
        # user variables fed from char_indices offsets (the one-pass form)
        from lib import call_names_deep
        return "char_indices" in call_names_deep(body, e)
    return all(boundary(x) for x in rng[3])


def chk_sync_key(F, E, body, s):
    """`numbered_lines.get(k).unwrap()`: k is an element of sorted_line_numbers -- taken from an iteration over that set in this
    function (or its parent for a closure), or a parameter of a private ProgramLines method whose every caller passes such an
    element."""
    from lib import callers_of, with_closures, expr_has_field
    c = s.call
    if not c.callee.endswith("unwrap") and not c.callee.endswith("expect"):
        return False
    opt = strip_expr(body.expr(c.args[0], depth=30))
    gets = [x for x in expr_calls(opt) if x[1].split("::")[-1] == "get" and "HashMap" in x[1]]
    if not gets or len(gets[0][2]) < 2:
        return False
    recv, key = gets[0][2][0], gets[0][2][1]
    if not expr_has_field(recv, "numbered_lines"):
        return False

    def from_sorted(b, e, depth=0):
        if expr_has_field(e, "sorted_line_numbers") and any(x[1].split("::")[-1] in ("next", "next_back") for x in expr_calls(e)):
            return True
        e0 = strip_expr(e)
        while e0[0] in ("ref", "place") and isinstance(e0[1], tuple):
            e0 = strip_expr(e0[1])
        if e0[0] == "param" and depth < 2:
            if "{closure" in b.path:
                # the closure's argument: the element type of the iterator it is mapped over, in the parent
                parent = F.bodies.get(b.path.split("::{closure", 1)[0])
                if parent is None:
                    return False
                for pc in parent.calls():
                    for a in pc.args[1:]:
                        ae = strip_expr(parent.expr(a))
                        if ae[0] == "agg" and ae[1] == b.path and pc.callee.split("::")[-1] in ("map", "for_each", "filter_map", "flat_map", "fold", "try_for_each"):
                            if expr_has_field(parent.expr(pc.args[0], depth=30), "sorted_line_numbers"):
                                return True
                # or a capture of the parent
                return False
            if b.self_adt and b.self_adt.endswith("program_lines::ProgramLines") and not b.is_pub:
                cs = [(cb, cc) for (cb, cc) in callers_of(F, b.path.split("::", 1)[1]) if cc.callee == b.path]
                return bool(cs) and all(from_sorted(cb, cb.expr(cc.args[e0[1]], depth=30), depth + 1) for (cb, cc) in cs)
        return False
    return from_sorted(body, key)


def chk_cursor_slice(F, E, body, s):
    """`bytes[self.index..]`: the slice starts at the tokenizer's cursor (INV-CURSOR: index <= len is C13's obligation)"""
    c = s.call
    if len(c.args) < 2:
        return False
    r = strip_expr(body.expr(c.args[1], depth=20))
    if r[0] != "agg" or not str(r[1]).endswith("RangeFrom") or len(r[3]) != 1:
        return False
    x = strip_expr(r[3][0])
    return x[0] == "place" and bool(x[2]) and x[2][-1][1] == "index" and x[2][-1][0].endswith("tokenizer::Tokenizer")


R = {}


def row(key, inv, why, check=None):
    R[key] = {"inv": inv, "why": why, "check": check}


P = "abasic_core::"
# ---- arrays
row(P + "arrays::Arrays::get_value_at_index|unwrap|unwrap|of:get", "INV-CREATE",
    "the key was inserted (or found) by maybe_create_default_array(name)? on the same map just before", chk_after_create)
row(P + "arrays::Arrays::set_value_at_index|unwrap|unwrap|of:get_mut", "INV-CREATE",
    "the key was inserted (or found) by maybe_create_default_array(name)? on the same map just before", chk_after_create)
row(P + "arrays::DimArray::get|index|index|of:.values", "INV-DIM",
    "linear_index = get_linear_index(index)? < product(dimensions) == values.len()", chk_index_from_linear)
row(P + "arrays::DimArray::set|index|index|of:.values", "INV-DIM",
    "linear_index = get_linear_index(index)? < product(dimensions) == values.len()", chk_index_from_linear)
for k in ("Overflow:Mul", "Overflow:Add", "Overflow:Mul#2"):
    row(P + "arrays::DimArray::get_linear_index|assert|" + k, "INV-DIM",
        "past the `dim_index >= dim_size` early return, index < size and the running stride/product is bounded by "
        "product(dimensions) <= MAX_DIM_TOTAL_ELEMENTS (10^4; 10^8 for index*stride fits 32-bit usize)", chk_gli)
row(P + "arrays::DimArray::new|alloc-size|from_elem|of:default", "INV-DIM",
    "total_elements <= MAX_DIM_TOTAL_ELEMENTS is tested before the allocation (C16:DIM:cap-guard)")
# ---- line cruncher
row("<abasic_core::line_cruncher::LineCruncher as core::iter::traits::iterator::Iterator>::next|index|index|of:.bytes", "INV-CRUNCHER",
    "LineCruncher.index <= bytes.len() is preserved by every store to the field, so `&bytes[index..]` is in range", chk_cruncher_cursor)
# ---- function calls
row(P + "program::Program::pop_function_call_off_stack_and_return_from_it|unwrap|expect|of:pop", "INV-FNCALL",
    "called only after a successful push in evaluate_user_defined_function_call; expression evaluation cannot reach "
    "RETURN/END/RUN/edit/break, so the frame is still there", chk_fn_pop)
row(P + "program::Program::push_function_call_onto_stack_and_goto_it|unwrap|expect|of:get", "INV-FNCALL",
    "the only caller found the same name in `functions` (get_function_argument_names == Some) and expression "
    "evaluation cannot remove definitions", chk_fn_push)
row(P + "expression::ExpressionEvaluator::evaluate_user_defined_function_call|assert|Overflow:Sub", "INV-ARITY",
    "`arity - 1` is evaluated inside the loop over arg_names, which runs only when arity >= 1", chk_in_loop_over_same_vec)
# ---- loops
row(P + "program::Program::remove_loop_with_name|vec-op|drain|of:.loop_stack", "INV-FOUND-INDEX",
    "drain(i..) with i an index produced by enumerate() over the same vector, no mutation in between", chk_drain_found_index)
row(P + "program::Program::remove_loop_with_name|unwrap|unwrap|of:next", "INV-FOUND-INDEX",
    "drain(i..) with i < len yields at least one element")
# ---- program lines / locations
row(P + "program::Program::tokens_for_line|unwrap|unwrap|of:get", "INV-LOC",
    "every location stored in Program names a line present in numbered_lines (C11)")
for fn in ("program_lines::ProgramLines::data_iterator", "program_lines::ProgramLines::list_tokens",
           "<abasic_core::program_lines::ProgramLines as core::fmt::Debug>::fmt"):
    row((P if not fn.startswith("<") else "") + fn + "|unwrap|unwrap|of:get", "INV-SYNC",
        "keys iterated from sorted_line_numbers are exactly the keys of numbered_lines (C04 paired update)", chk_sync_key)
# ---- interpreter
row(P + "interpreter::Interpreter::stop_evaluating|unwrap|unwrap|of:run_next_statement", "INV-EMPTY-IMMEDIATE",
    "run_next_statement on an empty immediate line evaluates nothing and returns Ok", chk_stop_evaluating)
row(P + "statement::StatementEvaluator::evaluate_input_statement|index|index|of:.0", "INV-DATA-NONEMPTY",
    "parse_data_until_colon never returns an empty Vec: finish() pushes an element when none was pushed", chk_data_nonempty)
row(P + "statement::StatementEvaluator::evaluate_print_statement|unwrap|unwrap|of:next_token", "INV-PEEKED",
    "the preceding peek_next_token() matched Some and the cursor did not move", chk_peek_then_next)
row(P + "statement::StatementEvaluator::evaluate_print_statement|unwrap|unwrap|of:next_token#2", "INV-PEEKED",
    "the preceding peek_next_token() matched Some and the cursor did not move", chk_peek_then_next)
row(P + "program::Program::rewind_before_token|panic|panic_fmt|of:new", "INV-INPUT-CALLER",
    "only INPUT rewinds, after its own token was consumed on the same line (C08:REWIND rules)")
row(P + "string_manager::StringManager::gc|vec-op|drain|of:collect", "FULL-RANGE", "drain(..) over the full range cannot panic",
    chk_drain_full)
row(P + "interpreter_error::TracedInterpreterError::get_line_with_pointer_caret|assert|Overflow:Sub", "HOST-CONTRACT",
    "range = string_range(line.len()) of the line that was tokenised (doc comment of the API): start <= end <= len", chk_caret_range)
# ---- rng
row(P + "random::Rng::random|assert|Overflow:Mul", "INV-RNG", "seed <= 2^33-1 at every read (C18 interval argument)")
row(P + "random::Rng::random|assert|Overflow:Add", "INV-RNG", "seed <= 2^33-1 at every read (C18 interval argument)")
# ---- line number parser
row(P + "line_number_parser::parse_line_number|index|index|of:arg0", "INV-CHARBOUNDARY",
    "the slice bounds are char boundaries of the same string: offsets from char_indices()/find(), ends one ASCII digit further "
    "or a counted run of ASCII digits further", chk_line_number_slices)
# ---- tokenizer (cursor invariants are C13's obligations)
T = P + "tokenizer::Tokenizer::"
row(T + "remaining_bytes|index|index|of:bytes", "INV-CURSOR", "index <= len: the cursor only advances over bytes that were read",
    chk_cursor_slice)
row(T + "chomp_data|index|index|of:as_bytes", "INV-CURSOR", "index <= len")
row(T + "chomp_string|index|index|of:as_bytes", "INV-CURSOR", "index <= len")
row(T + "chomp_data|unwrap|unwrap|of:from_utf8", "INV-CHARBOUNDARY", "the cursor sits after the ASCII keyword DATA: a char boundary of valid UTF-8")
row(T + "chomp_remark|unwrap|unwrap|of:from_utf8", "INV-CHARBOUNDARY", "the cursor sits after the ASCII keyword REM")
row(T + "chomp_string|unwrap|unwrap|of:from_utf8", "INV-CHARBOUNDARY", "the slice starts after the ASCII byte `\"`")
row(T + "chomp_symbol|unwrap|unwrap|of:from_utf8", "INV-ASCII", "only bytes that passed is_ascii_alphanumeric()/`$` were pushed")
row(T + "chomp_keyword|panic|assert_failed", "INV-KEYWORDS", "every keyword constant passed in is a non-empty literal (C12/C14 keyword table)")
row(T + "chomp_keyword|assert|BoundsCheck", "INV-KEYWORDS", "keyword_idx < len: the loop returns as soon as keyword_idx == len, and len != 0")
row(T + "chomp_leading_whitespace|assert|Overflow:Sub", "INV-CRUNCHER", "LineCruncher::next() == Some implies pos() >= 1")
row(T + "chomp_string|panic|assert_failed", "INV-CURSOR", "Iterator::next returns None when index == len before any matcher runs, so bytes remain")
row(T + "chomp_string|assert|BoundsCheck", "INV-CURSOR", "remaining_bytes[0] after the non-empty assertion")
row(T + "chomp_string|panic|panic_fmt|of:from_str", "INV-CRUNCHER", "chomp_leading_whitespace ran first and the failed matchers before chomp_string do not move the cursor")
row(T + "chomp_string|index|index|of:index", "INV-CURSOR", "remaining_bytes[1..] with len >= 1")
row(T + "chomp_string|index|index|of:unwrap", "INV-CHARBOUNDARY", "[..end_quote_index] where end_quote_index = find('\"') on the same str")


# ---- analyzer (C05 / C20)
def _scratch_rule(fn, F, E):
    import framework
    sub = framework.Check("scratch", "quick", 0, "other", F, {})
    fn(sub, F, E, "X")
    return not any(o.status == "violation" for o in sub.obs)


def chk_inv_map(F, E, body, s):
    import common
    return _scratch_rule(common.map_rule, F, E)


def chk_analyzer_errloc(F, E, body, s):
    """err.location.unwrap() after populate_error_location: only DataTypeMismatch can stay None, and the
    analyzer cannot construct it."""
    import panics
    if not body.calls_to("Program::populate_error_location"):
        return False
    G = panics.CallGraph(F)
    root = F.one("StatementAnalyzer::evaluate_statement")
    if root is None:
        return False
    seen = G.reachable([root.path])
    for p in seen:
        b = F.bodies[p]
        for blk in b.blocks:
            for st in blk["stmts"]:
                if st["k"] == "assign" and st["rv"]["k"] == "aggregate" and st["rv"].get("variant") == "DataTypeMismatch":
                    return False
    pe = F.one("Program::populate_error_location")
    if pe is None:
        return False
    from lib import with_helpers
    return any(hb.calls_to("Program::get_prev_location") for hb in with_helpers(F, pe))


def chk_analyzer_numbered(F, E, body, s):
    """log_access' try_into().unwrap(): statements are analysed only at numbered locations."""
    # the function that drives the analysis of the stored program (SourceFileAnalyzer::run or a helper of it)
    drivers = {b.path for b, _ in callers_of(F, "StatementAnalyzer::new")}
    if len(drivers) != 1 or "source_file_analyzer::SourceFileAnalyzer::" not in next(iter(drivers)):
        return False
    run = F.bodies[next(iter(drivers))]
    news = run.calls_to("StatementAnalyzer::new")
    rf = run.calls_to("Program::run_from_first_numbered_line")
    if not news:
        return False
    if rf:
        if not all(run.dominates(rf[0].bb, n.bb) for n in news):
            return False
    else:
        # the statement loop sits in a helper (`analyze_current_line`): each caller positions the program with
        # run_from_first_numbered_line before it calls the helper
        outer = [(cb, c) for cb in F.bodies.values() for c in cb.calls() if c.callee == run.path]
        if not outer:
            return False
        for (cb, c) in outer:
            rf2 = cb.calls_to("Program::run_from_first_numbered_line")
            if "source_file_analyzer::SourceFileAnalyzer::" not in cb.path or not rf2 or not cb.dominates(rf2[0].bb, c.bb):
                return False
    ht = run.calls_to("Program::has_next_token")
    if not any(run.dominates(h.bb, n.bb) for h in ht for n in news):
        return False
    # nobody else builds analyzers
    # analysing a statement never moves the line
    root = F.one("StatementAnalyzer::evaluate_statement")
    for (k, p) in E.info[root.path].writes:
        if p and p[-1] == ("abasic_core::program::Program", "location"):
            return False
        if p and p[-1] == ("abasic_core::program::ProgramLocation", "line"):
            return False
    return True


A = P + "analyzer::"
row(A + "source_file_analyzer::SourceFileAnalyzer::run|panic|panic_fmt|of:new", "INV-MAP",
    "every stored line is mapped with its token ranges, so map_location_to_source is total on error locations", chk_inv_map)
row(A + "source_file_analyzer::SourceFileAnalyzer::populate_symbol_access_warnings|unwrap|unwrap|of:map_location_to_source",
    "INV-MAP", "symbol accesses are logged at tokens of stored lines, all of which are mapped", chk_inv_map)
row(A + "source_file_analyzer::SourceFileAnalyzer::run|unwrap|unwrap|of:.location", "INV-ERRLOC",
    "populate_error_location leaves None only for DataTypeMismatch, which analysis cannot raise", chk_analyzer_errloc)
row(A + "source_map::SourceFileMap::map_location_to_source|index|index|of:.file_line_ranges", "INV-MAP",
    "values of basic_lines_to_file_lines are indices of entries pushed by add()", chk_inv_map)
row(A + "source_map::SourceFileMap::map_to_source|index|index|of:.file_line_ranges", "INV-MAP",
    "diagnostics carry the enumerate() index of a file line, and every file line pushed exactly one entry", chk_inv_map)
row(A + "source_map::SourceFileMap::map_to_source|index|index|of:.file_line_ranges#2", "INV-MAP",
    "diagnostics carry the enumerate() index of a file line, and every file line pushed exactly one entry", chk_inv_map)
row(A + "statement_analyzer::StatementAnalyzer::evaluate_print_statement|unwrap|unwrap|of:next_token", "INV-PEEKED",
    "the preceding peek_next_token() matched Some and the cursor did not move", chk_peek_then_next)
row(A + "symbol_access::SymbolAccessMap::log_access|unwrap|unwrap|of:try_from", "INV-ANALYZER-NUMBERED",
    "statements are analysed only after run_from_first_numbered_line / next_line, at numbered locations", chk_analyzer_numbered)
row(A + "expression_analyzer::ExpressionAnalyzer::evaluate_user_defined_function_call|assert|Overflow:Sub", "INV-ARITY",
    "`arity - 1` is evaluated inside the loop over arg_names, which runs only when arity >= 1", chk_in_loop_over_same_vec)

# ---- LSP server (C20)
L = "abasic_lsp::"
row(L + "get_semantic_tokens|assert|Overflow:Sub", "INV-ENUMERATE",
    "line_number comes from enumerate() and prev_line_number is an earlier line_number")
row(L + "get_semantic_tokens|assert|Overflow:Sub#2", "INV-ORDERED-RANGES",
    "token ranges of one line are ordered (C13 monotone cursor) and prev_token_start is an earlier start")
row(L + "get_semantic_tokens|assert|Overflow:Sub#3", "INV-ORDERED-RANGES",
    "token_end - token_start with range.start <= range.end (C13) and a monotone byte->UTF-16 column conversion")
row(L + "main_loop|unwrap|unwrap|of:to_value", "PLAIN-DATA", "serialising SemanticTokens (integers only) to JSON cannot fail")

# ---- Web adapter (C19)
W = "abasic_web::"
row(W + "JsInterpreter::get_state|panic|begin_panic", "INV-NO-TRANSIENT",
    "every Ok path of start/continue_evaluating passes maybe_replace_interpreter (C19:TRANSIENT rules)")

ROWS = R
