"""A5: inter-procedural field effect sets over access paths.

For every body we compute, relative to its parameters:
  WRITES[f]  = {(k, path)}: something at or below `param_k.path` may be modified
  RET[f]     = {(ret_path, k, path, mut)}: the reference stored at `return.ret_path`
               may point at `param_k.path`
  KILLS[f]   = {(k, path)}: on every path to a normal return `param_k.path` is left
               holding a fresh value (Default / None / empty / cleared) -- must analysis
A path is a tuple of (ADT, field) pairs; references, boxes, containers and enum
downcasts are transparent.  Shared borrows are tracked (mut flag) so `&self` code
contributes no writes.  The analysis is flow-insensitive for aliasing (MIR temporaries
are single-assignment in practice) and flow-sensitive for KILLS.
"""
from mir import norm, place_fields, Span

UNKNOWN = ("?",)

SCALARS = {
    "bool", "char", "u8", "u16", "u32", "u64", "u128", "usize", "i8", "i16", "i32", "i64",
    "i128", "isize", "f32", "f64", "()", "!", "str",
}

# std methods that take `&mut x` and only hand back a borrow derived from it.
PURE_MUT_BORROW = (
    "::get_mut", "::iter_mut", "::as_mut", "::deref_mut", "::index_mut", "::as_mut_slice",
    "::last_mut", "::first_mut", "::values_mut", "::as_mut_str", "::borrow_mut", "::by_ref",
    "::as_deref_mut", "::into_iter", "::iter", "::peekable", "::rev", "::enumerate",
)

# std calls that leave their `&mut` receiver holding a fresh/empty value.
CLEARING = (
    "alloc::vec::Vec::clear", "std::collections::hash::map::HashMap::clear",
    "std::collections::hash::set::HashSet::clear", "alloc::collections::btree::set::BTreeSet::clear",
    "alloc::collections::btree::map::BTreeMap::clear", "alloc::string::String::clear",
    "core::option::Option::take", "core::mem::take", "alloc::collections::vec_deque::VecDeque::clear",
)

FRESH_CALL_SUFFIX = (
    "as core::default::Default>::default", "::new", "::with_capacity", "core::default::Default::default",
)


def may_hold_ref(ty):
    if ty in SCALARS:
        return False
    return ("&" in ty) or ("'" in ty) or ("*mut" in ty) or ("*const" in ty) or ("closure" in ty) or ("Box<" in ty) \
        or ty in ("T", "F", "Self") or (len(ty) <= 2 and ty.isupper())


def ptr_mut(ty):
    t = ty.strip()
    if t.startswith("&mut") or t.startswith("*mut") or t.startswith("alloc::boxed::Box<"):
        return True
    if t.startswith("&") or t.startswith("*const"):
        return False
    return True  # smart pointer / unknown: assume mutable


def related(p, q):
    n = min(len(p), len(q))
    return p[:n] == q[:n]


class FnInfo:
    def __init__(self, body):
        self.body = body
        self.A = {}            # (local, fpath) -> set((root, path, mut))
        self.CL = {}           # local -> set(closure body paths)
        self.writes = set()    # (k|'?', path)
        self.dirty = set()     # subset of writes that may leave a non-fresh value
        self.ret = set()       # (ret_path, k, path, mut)
        self.kills = set()
        self.write_sites = []  # (k, path, Span, via, fresh) -- direct and via callees
        self.param_is_ref = []
        self.param_mut = []
        for i in range(body.arg_count):
            ty = body.local_ty(i + 1).strip()
            self.param_is_ref.append(ty.startswith("&") or ty.startswith("*"))
            self.param_mut.append(ptr_mut(ty) if (ty.startswith("&") or ty.startswith("*")) else True)


class Effects:
    def __init__(self, facts):
        self.facts = facts
        self.info = {p: FnInfo(b) for p, b in facts.bodies.items()}
        self.closure_by_path = {}
        for p, b in facts.bodies.items():
            if b.kind == "Closure":
                self.closure_by_path[norm(b.full_path)] = p
                self.closure_by_path[p] = p
        self.unknown_writes = []
        self.field_ty = {}
        for ap, a in facts.adts.items():
            for v in a["variants"]:
                for f in v["fields"]:
                    self.field_ty[(ap, f["name"])] = f["ty"]
        self.final = False
        self._solve()
        # second phase: pointers with no known source become UNKNOWN (sound fallback)
        self.final = True
        self._solve()
        self._solve_kills()

    # ------------------------------------------------------------------ resolution
    def _pointees(self, fi, root, path):
        """Where may the pointer value stored at (root, path) point?  None = unknown."""
        if root[0] == "p":
            return None  # handled by caller (stays in param namespace)
        n = root[1]
        for i in range(len(path), -1, -1):
            got = fi.A.get((n, path[:i]))
            if got:
                if i == len(path):
                    return set(got)
                return set(got)
        return None

    def resolve(self, fi, place, extra_deref=False):
        """Locations a place may denote: set of (root, path, mut, derefd)."""
        body = fi.body
        n = place["local"]
        cur = {(("l", n), (), True, False)}
        curty = body.local_ty(n)
        projs = list(place["proj"])
        if extra_deref:
            projs = projs + [{"k": "deref"}]
        for pr in projs:
            k = pr["k"]
            if k == "deref":
                new = set()
                pm = ptr_mut(curty)
                for (root, path, mut, d) in cur:
                    if root[0] == "p":
                        new.add((root, path, mut and pm, True))
                        continue
                    if root == UNKNOWN:
                        new.add((UNKNOWN, (), mut and pm, True))
                        continue
                    ln = root[1]
                    tg = self._pointees(fi, root, path)
                    if tg is None:
                        if 1 <= ln <= body.arg_count:
                            if path == () and fi.param_is_ref[ln - 1]:
                                new.add((("p", ln - 1), (), fi.param_mut[ln - 1], True))
                            else:
                                new.add((("p", ln - 1), path, mut and pm, True))
                        elif self.final:
                            new.add((UNKNOWN, (), mut and pm, True))
                    else:
                        for (r2, p2, m2) in tg:
                            new.add((r2, p2, m2 and pm if r2[0] != "l" else m2 and pm, True))
                cur = new
                t = curty.strip()
                if t.startswith("&mut "):
                    curty = t[5:]
                elif t.startswith("&"):
                    curty = t[1:].strip()
                elif t.startswith("*mut ") or t.startswith("*const "):
                    curty = t.split(" ", 1)[1]
                else:
                    curty = ""
            elif k == "field":
                adt = pr.get("adt")
                name = pr.get("name", str(pr["i"]))
                if adt is None:
                    el = None
                elif adt == "(tuple)":
                    el = ("(tuple)", str(pr["i"]))
                elif adt.startswith("(closure"):
                    el = ("(closure)", str(pr["i"]))
                else:
                    el = (norm(adt), name)
                if el is not None:
                    cur = {(r, p + (el,) if r != UNKNOWN else (), m, d) for (r, p, m, d) in cur}
                curty = pr.get("ty", "")
            elif k == "downcast":
                pass
            else:  # index, constindex, subslice, other
                t = curty.strip()
                if t.startswith("[") and ";" in t:
                    curty = t[1:t.rfind(";")].strip()
                elif t.startswith("["):
                    curty = t[1:-1].strip()
        return cur

    def _add_alias(self, fi, key, locs):
        s = fi.A.setdefault(key, set())
        before = len(s)
        for (r, p, m) in locs:
            s.add((r, p[:8], m))
        return len(s) != before

    def _value_locs(self, fi, op, force_shared=False):
        """What the *value* of operand `op` may point to (for ref-like values)."""
        if op["k"] not in ("copy", "move"):
            return set()
        q = op["place"]
        out = set()
        for (r, p, m, _d) in self.resolve(fi, q, extra_deref=True):
            out.add((r, p, m and not force_shared))
        return out

    def _sub_entries(self, fi, local, prefix):
        """A entries stored under (local, prefix + suffix) -> [(suffix, locs)]"""
        out = []
        for (ln, pth), locs in fi.A.items():
            if ln == local and pth[:len(prefix)] == prefix:
                out.append((pth[len(prefix):], locs))
        return out

    def _copy_aliases(self, fi, dlocal, dpath, op):
        """dest.(dpath) = use op : propagate pointer facts."""
        changed = False
        if op["k"] not in ("copy", "move"):
            return False
        q = op["place"]
        qty = q.get("ty", "")
        if not may_hold_ref(qty):
            return False
        qfields = tuple(place_fields(q))
        has_deref = any(pr["k"] == "deref" for pr in q["proj"])
        if not has_deref:
            for suffix, locs in self._sub_entries(fi, q["local"], qfields):
                changed |= self._add_alias(fi, (dlocal, dpath + suffix), locs)
            ln = q["local"]
            if 1 <= ln <= fi.body.arg_count:
                # by-value / reference parameter
                t = qty.strip()
                if t.startswith("&") or t.startswith("*"):
                    locs = {(r, p, m) for (r, p, m, _d) in self.resolve(fi, q, extra_deref=True)}
                    changed |= self._add_alias(fi, (dlocal, dpath), locs)
                else:
                    # struct param moved whole: its interior refs live in the param namespace
                    changed |= self._add_alias(fi, (dlocal, dpath), {(("p", ln - 1), qfields, True)})
        else:
            t = qty.strip()
            if t.startswith("&") or t.startswith("*"):
                locs = {(r, p, m) for (r, p, m, _d) in self.resolve(fi, q, extra_deref=True)}
                changed |= self._add_alias(fi, (dlocal, dpath), locs)
            else:
                locs = {(r, p, m) for (r, p, m, _d) in self.resolve(fi, q)}
                changed |= self._add_alias(fi, (dlocal, dpath), locs)
        # closures
        lq = q["local"]
        if not q["proj"] and lq in fi.CL:
            s = fi.CL.setdefault(dlocal, set())
            n0 = len(s)
            s |= fi.CL[lq]
            changed |= len(s) != n0
        return changed

    def _record_write(self, fi, locs, span, via, fresh=False):
        changed = False
        for (r, p, m, d) in locs:
            if not d or not m:
                continue
            if r[0] == "p":
                key = (r[1], p[:8])
            elif r == UNKNOWN:
                key = ("?", ())
            else:
                continue
            if key not in fi.writes:
                fi.writes.add(key)
                changed = True
            if not fresh and key not in fi.dirty:
                fi.dirty.add(key)
                changed = True
            if key[0] == "?":
                self.unknown_writes.append((fi.body.path, str(span), via))
            fi.write_sites.append((key[0], key[1], span, via, fresh))
        return changed

    def _extend(self, fi, locs, suffix):
        """Append callee-relative path `suffix` to caller locations, following pointers
        stored in caller locals (struct wrappers such as StatementEvaluator)."""
        cur = set(locs)
        argc = fi.body.arg_count
        for el in suffix:
            new = set()
            for (r, p, m) in cur:
                if r == UNKNOWN:
                    new.add((UNKNOWN, (), m))
                    continue
                if r[0] == "l":
                    got = fi.A.get((r[1], p + (el,)))
                    if got:
                        new |= {(r2, p2, m and m2) for (r2, p2, m2) in got}
                        continue
                    fty = self.field_ty.get(el, "").strip()
                    if fty.startswith("&") or fty.startswith("*"):
                        ln = r[1]
                        if 1 <= ln <= argc:
                            new.add((("p", ln - 1), p + (el,), m and ptr_mut(fty)))
                        elif self.final:
                            new.add((UNKNOWN, (), m and ptr_mut(fty)))
                        continue
                new.add((r, p + (el,), m))
            cur = new
        return cur

    def _map_callee_loc(self, fi, arg_op, cpath, callee_param_is_ref):
        """Translate callee location (param_k . cpath) into caller locations via the actual arg."""
        if arg_op["k"] not in ("copy", "move"):
            return set()
        q = arg_op["place"]
        qfields = tuple(place_fields(q))
        ln = q["local"]
        has_deref = any(pr["k"] == "deref" for pr in q["proj"])
        out = set()
        if callee_param_is_ref:
            base = {(r, p, m) for (r, p, m, _d) in self.resolve(fi, q, extra_deref=True)}
            return self._extend(fi, base, cpath)
        # by-value argument: interior references
        if not has_deref:
            return self._extend(fi, {(("l", ln), qfields, True)}, cpath)
        base = {(r, p, m) for (r, p, m, _d) in self.resolve(fi, q)}
        return self._extend(fi, base, cpath)

    def _closure_of(self, fi, op):
        l = None
        if op["k"] in ("copy", "move") and not op["place"]["proj"]:
            l = op["place"]["local"]
        if l is None:
            return set()
        return fi.CL.get(l, set())

    # ------------------------------------------------------------------ per-body pass
    def _pass(self, fi):
        body = fi.body
        changed = False
        fi.write_sites = []
        for b, i, pl, rv, sp in body.assigns():
            # 1. write effect
            locs = self.resolve(fi, pl)
            fresh = self._rv_is_fresh(body, rv)
            changed |= self._record_write(fi, locs, sp, "assign", fresh)
            # 2. aliasing
            if any(pr["k"] == "deref" for pr in pl["proj"]):
                continue
            dl = pl["local"]
            dp = tuple(place_fields(pl))
            k = rv["k"]
            if k == "use" or k == "cast":
                changed |= self._copy_aliases(fi, dl, dp, rv["op"])
            elif k in ("ref", "rawptr"):
                is_mut = rv.get("mut", False) or k == "rawptr"
                locs2 = {(r, p, m and is_mut) for (r, p, m, _d) in self.resolve(fi, rv["place"])}
                changed |= self._add_alias(fi, (dl, dp), locs2)
            elif k == "aggregate":
                names = rv.get("fields")
                agg = rv.get("agg")
                adt = norm(rv["adt"]) if "adt" in rv else None
                for idx, op in enumerate(rv["ops"]):
                    if agg == "adt" and names and idx < len(names):
                        el = (adt, names[idx])
                    elif agg == "closure":
                        el = ("(closure)", str(idx))
                    else:
                        el = ("(tuple)", str(idx))
                    changed |= self._copy_aliases(fi, dl, dp + (el,), op)
                if agg == "closure":
                    cp = self.closure_by_path.get(norm(rv["closure"]))
                    if cp:
                        s = fi.CL.setdefault(dl, set())
                        if cp not in s:
                            s.add(cp)
                            changed = True
        for c in body.calls():
            changed |= self._call(fi, c)
        # return summary
        for (ln, pth), locs in list(fi.A.items()):
            if ln != 0:
                continue
            for (r, p, m) in locs:
                if r[0] == "p":
                    e = (pth, r[1], p, m)
                    if e not in fi.ret:
                        fi.ret.add(e)
                        changed = True
        return changed

    def _call(self, fi, c):
        changed = False
        body = fi.body
        callee_info = self.info.get(c.callee) if c.is_local else None
        dl = c.dest["local"]
        dp = tuple(place_fields(c.dest))
        dest_deref = any(pr["k"] == "deref" for pr in c.dest["proj"])
        dty = c.dest.get("ty", "")
        # writing the call result into caller-visible memory
        if dest_deref:
            changed |= self._record_write(fi, self.resolve(fi, c.dest), c.span, "call-result", False)
        if callee_info is not None:
            cb = callee_info.body
            for (k, path) in list(callee_info.writes):
                if k == "?":
                    if ("?", ()) not in fi.writes:
                        fi.writes.add(("?", ()))
                        fi.dirty.add(("?", ()))
                        changed = True
                    continue
                if k >= len(c.args):
                    continue
                locs = self._map_callee_loc(fi, c.args[k], path, callee_info.param_is_ref[k])
                changed |= self._record_write(
                    fi, {(r, p, m, True) for (r, p, m) in locs}, c.span, c.callee,
                    (k, path) not in callee_info.dirty)
            if may_hold_ref(dty) and not dest_deref:
                for (rp, k, path, mut) in list(callee_info.ret):
                    if k >= len(c.args):
                        continue
                    locs = self._map_callee_loc(fi, c.args[k], path, callee_info.param_is_ref[k])
                    changed |= self._add_alias(fi, (dl, dp + rp), {(r, p, m and mut) for (r, p, m) in locs})
        else:
            pure = any(c.callee.endswith(s) or c.declared.endswith(s) for s in PURE_MUT_BORROW)
            arg_locs = []
            for a in c.args:
                if a["k"] not in ("copy", "move"):
                    continue
                aty = a["place"].get("ty", "")
                if not may_hold_ref(aty):
                    continue
                seen = set()
                work = list(self._all_pointees(fi, a))
                while work:
                    loc = work.pop()
                    if loc in seen:
                        continue
                    seen.add(loc)
                    (r, p, m) = loc
                    if r[0] == "l":
                        for _suffix, locs in self._sub_entries(fi, r[1], ()):
                            for l2 in locs:
                                work.append((l2[0], l2[1], l2[2] and m))
                        ln = r[1]
                        if 1 <= ln <= body.arg_count and not fi.param_is_ref[ln - 1]:
                            adt = body.locals[ln].get("adt")
                            a = self.facts.adts.get(norm(adt)) if adt else None
                            if a is not None:
                                for v in a["variants"]:
                                    for f in v["fields"]:
                                        ft = f["ty"].strip()
                                        if ft.startswith("&") or ft.startswith("*"):
                                            work.append((("p", ln - 1), p + ((norm(adt), f["name"]),), m and ptr_mut(ft)))
                arg_locs.append(seen)
            if not pure:
                clearing = c.callee in CLEARING or c.declared in CLEARING
                for seen in arg_locs:
                    changed |= self._record_write(
                        fi, {(r, p, m, True) for (r, p, m) in seen}, c.span, c.callee, clearing)
            if may_hold_ref(dty) and not dest_deref:
                for seen in arg_locs:
                    changed |= self._add_alias(fi, (dl, dp), seen)
        # closures handed to anybody are assumed to be invoked there
        for a in c.args:
            for cp in self._closure_of(fi, a):
                ci = self.info.get(cp)
                if ci is None:
                    continue
                for (k, path) in list(ci.writes):
                    if k == "?":
                        if ("?", ()) not in fi.writes:
                            fi.writes.add(("?", ()))
                            changed = True
                        continue
                    if k != 0:
                        continue
                    locs = self._map_callee_loc(fi, a, path, False)
                    changed |= self._record_write(
                        fi, {(r, p, m, True) for (r, p, m) in locs}, c.span, cp, False)
        return changed

    def _all_pointees(self, fi, op):
        q = op["place"]
        ty = q.get("ty", "").strip()
        out = set()
        if ty.startswith("&") or ty.startswith("*"):
            for (r, p, m, _d) in self.resolve(fi, q, extra_deref=True):
                out.add((r, p, m))
        else:
            qfields = tuple(place_fields(q))
            if not any(pr["k"] == "deref" for pr in q["proj"]):
                for _suffix, locs in self._sub_entries(fi, q["local"], qfields):
                    out |= set(locs)
                ln = q["local"]
                if 1 <= ln <= fi.body.arg_count and not out:
                    out.add((("p", ln - 1), qfields, True))
        return out

    # ------------------------------------------------------------------ freshness
    def _rv_is_fresh(self, body, rv):
        try:
            return self._expr_fresh(body.rv_expr(rv, 6))
        except RecursionError:
            return False

    def _expr_fresh(self, e):
        k = e[0]
        if k == "const":
            return True
        if k == "agg":
            return all(self._expr_fresh(x) for x in e[3])
        if k == "call":
            callee = e[1]
            if any(callee.endswith(s) for s in FRESH_CALL_SUFFIX):
                return all(self._expr_fresh(a) for a in e[2])
            ci = self.info.get(callee)
            if ci is not None and ci.body.arg_count == 0:
                return True
            if callee.endswith("::into") or callee.endswith("::from"):
                return all(self._expr_fresh(a) for a in e[2])
            return False
        if k == "cast":
            return self._expr_fresh(e[2])
        return False

    # ------------------------------------------------------------------ fixpoints
    def _solve(self):
        order = list(self.info.values())
        for _round in range(40):
            changed = False
            for fi in order:
                for _inner in range(20):
                    if not self._pass(fi):
                        break
                    changed = True
            if not changed:
                break
        self.rounds = _round + 1

    # ------------------------------------------------------------------ must-kill
    def _solve_kills(self):
        for _round in range(12):
            changed = False
            for fi in self.info.values():
                new = self._kills_of(fi)
                if new != fi.kills:
                    fi.kills = new
                    changed = True
            if not changed:
                break

    def _single(self, locs):
        ls = [(r, p) for (r, p, m, d) in locs if d]
        if len(locs) == 1 and len(ls) == 1 and ls[0][0][0] == "p":
            return (ls[0][0][1], ls[0][1])
        return None

    def _block_transfer(self, fi, b, state):
        body = fi.body
        st = set(state)

        def dirty(locs):
            for (r, p, m, d) in locs:
                if d and m and r[0] == "p":
                    for kx in [x for x in st if x[0] == r[1] and related(x[1], p)]:
                        st.discard(kx)
                elif d and m and r == UNKNOWN:
                    st.clear()

        for stmt in body.blocks[b]["stmts"]:
            if stmt["k"] != "assign":
                continue
            locs = self.resolve(fi, stmt["place"])
            one = self._single(locs)
            if one is not None and self._rv_is_fresh(body, stmt["rv"]):
                # overwriting a prefix kills everything beneath it too
                for kx in [x for x in st if x[0] == one[0] and x[1][:len(one[1])] == one[1]]:
                    st.discard(kx)
                st.add(one)
            else:
                dirty(locs)
        t = body.blocks[b]["term"]
        if t["k"] == "call":
            c = body.call_at(b)
            if c is not None:
                ci = self.info.get(c.callee) if c.is_local else None
                if ci is not None:
                    # may-writes of the callee dirty first, then its must-kills apply
                    for (k, path) in ci.dirty:
                        if k == "?":
                            st.clear()
                            continue
                        if k < len(c.args):
                            locs = self._map_callee_loc(fi, c.args[k], path, ci.param_is_ref[k])
                            dirty({(r, p, m, True) for (r, p, m) in locs})
                    for (k, path) in ci.kills:
                        if k < len(c.args):
                            locs = self._map_callee_loc(fi, c.args[k], path, ci.param_is_ref[k])
                            if len(locs) == 1:
                                (r, p, m) = next(iter(locs))
                                if r[0] == "p" and m:
                                    st.add((r[1], p))
                else:
                    clearing = c.callee in CLEARING or c.declared in CLEARING
                    if clearing and c.args and c.args[0]["k"] in ("copy", "move"):
                        locs = self.resolve(fi, c.args[0]["place"], extra_deref=True)
                        one = self._single(locs)
                        if one is not None:
                            st.add(one)
                        else:
                            dirty(locs)
                    else:
                        pure = any(c.callee.endswith(s) or c.declared.endswith(s) for s in PURE_MUT_BORROW)
                        if not pure:
                            for a in c.args:
                                if a["k"] in ("copy", "move") and may_hold_ref(a["place"].get("ty", "")):
                                    dirty({(r, p, m, True) for (r, p, m) in self._all_pointees(fi, a)})
                if any(pr["k"] == "deref" for pr in c.dest["proj"]):
                    dirty(self.resolve(fi, c.dest))
        return st

    def kill_states(self, fi):
        """Forward must-analysis: returns {bb: state at block entry} and {bb: state at exit}."""
        body = fi.body
        reach = sorted(body.reachable())
        IN = {b: None for b in reach}
        OUT = {b: None for b in reach}
        IN[0] = set()
        work = [0]
        iters = 0
        while work and iters < 5000:
            iters += 1
            b = work.pop(0)
            if IN[b] is None:
                continue
            out = self._block_transfer(fi, b, IN[b])
            if OUT[b] is not None and out == OUT[b]:
                continue
            OUT[b] = out
            for s in body.succs(b):
                ps = [OUT[p] for p in body.preds(s) if OUT.get(p) is not None]
                new = set.intersection(*ps) if ps else set()
                if IN[s] is None or new != IN[s]:
                    IN[s] = new
                    if s not in work:
                        work.append(s)
        return IN, OUT

    def _kills_of(self, fi):
        body = fi.body
        _IN, OUT = self.kill_states(fi)
        rets = [b for b in body.return_blocks() if OUT.get(b) is not None]
        if not rets:
            return set()
        return set.intersection(*[OUT[b] for b in rets])

    # ------------------------------------------------------------------ queries
    def writes_of(self, path):
        fi = self.info.get(path)
        return set(fi.writes) if fi else None

    def field_writes(self, fn_path, param=0, adt=None):
        """Top-level fields of `adt` (first path element) written through `param` by fn."""
        fi = self.info[fn_path]
        out = {}
        for (k, p) in fi.writes:
            if k != param or not p:
                continue
            if adt is None or p[0][0].endswith(adt):
                out.setdefault(p[0][1], set()).add(p)
        return out

    def writers_of_field(self, adt_suffix, field, direct_only=True):
        """Functions containing a *direct* write site (assign / std call) touching adt.field."""
        out = {}
        for path, fi in self.info.items():
            for (k, p, span, via, fresh) in fi.write_sites:
                if direct_only and via in self.info:
                    continue
                for el in p:
                    if el[0].endswith(adt_suffix) and el[1] == field:
                        out.setdefault(path, []).append((span, via, p))
                        break
        return out
