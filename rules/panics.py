"""A1 call graph + A2 panic-capable site inventory + A4 recursion guard (shared by C01/C05/C19/C20)."""
import re
from mir import norm, Span
from lib import sfx, strip_expr, strip_refs, show, expr_calls, bool_switch_true_target

# ---------------------------------------------------------------------------------- A1
WORKSPACE = ("abasic_core", "abasic", "abasic_web", "abasic_lsp")


class CallGraph:
    def __init__(self, F):
        self.F = F
        self.edges = {}      # caller path -> set(callee path) (local bodies only)
        self.sites = {}      # (caller, callee) -> [Call|None]
        self.externals = {}  # external callee -> count
        closure_by_full = {}
        for p, b in F.bodies.items():
            if b.kind == "Closure":
                closure_by_full[norm(b.full_path)] = p
        # local trait impls that std code can call back into: (adt, TraitName) -> [body paths]
        impls = {}
        for p, b in F.bodies.items():
            if b.impl_trait and b.self_adt:
                impls.setdefault((b.self_adt, b.impl_trait.split("::")[-1].split("<")[0]), []).append(p)
        adt_names = sorted(F.adts, key=len, reverse=True)
        alias = {"to_string": "Display", "new_display": "Display", "new_debug": "Debug", "join": "Borrow"}
        self.callbacks = 0
        for p, b in F.bodies.items():
            es = self.edges.setdefault(p, set())
            for c in b.calls():
                if c.callee in F.bodies:
                    es.add(c.callee)
                    self.sites.setdefault((p, c.callee), []).append(c)
                else:
                    self.externals[c.callee] = self.externals.get(c.callee, 0) + 1
                    # std forwarding impls (`<&mut I as Iterator>::next`, fmt machinery, derived containers)
                    if "resolved" not in c.term and c.declared.count("::") >= 1:
                        # unresolved trait call on a type parameter: any local impl may be the target
                        meth = c.declared.split("::")[-1]
                        trn = c.declared.split("::")[-2].split("<")[0] if c.declared.count("::") >= 1 else ""
                        for (adt, tr), tgts in impls.items():
                            if tr == trn:
                                for tgt in tgts:
                                    if tgt.endswith("::" + meth) and tgt not in es:
                                        es.add(tgt)
                                        self.callbacks += 1
                    text = " ".join(c.gargs)
                    if not text:
                        continue
                    mentioned = [a for a in adt_names if a in text]
                    if not mentioned:
                        continue
                    hints = set()
                    last = c.callee.split("::")[-1]
                    if last in alias:
                        hints.add(alias[last])
                    for (adt, tr) in impls:
                        if tr in c.callee or tr in c.declared:
                            hints.add(tr)
                    for a in mentioned:
                        for tr in hints:
                            for tgt in impls.get((a, tr), ()):
                                if tgt not in es:
                                    es.add(tgt)
                                    self.callbacks += 1
                                self.sites.setdefault((p, tgt), []).append(c)
            # address-taken fn items and closures: conservative edges from the mentioning function
            for blk in b.blocks:
                if blk["cleanup"]:
                    continue
                ops = []
                for st in blk["stmts"]:
                    if st["k"] != "assign":
                        continue
                    rv = st["rv"]
                    for key in ("op", "a", "b"):
                        if key in rv and isinstance(rv[key], dict):
                            ops.append(rv[key])
                    ops.extend(rv.get("ops", []))
                    if rv["k"] == "aggregate" and rv.get("agg") == "closure":
                        cp = closure_by_full.get(norm(rv["closure"]))
                        if cp:
                            es.add(cp)
                            self.sites.setdefault((p, cp), []).append(None)
                t = blk["term"]
                if t["k"] == "call":
                    ops.extend(t["args"])
                for o in ops:
                    if o.get("k") == "const" and "fn" in o:
                        fp = norm(o["fn"])
                        if fp in F.bodies:
                            es.add(fp)
                            self.sites.setdefault((p, fp), []).append(None)
                        elif fp in closure_by_full:
                            es.add(closure_by_full[fp])

    def reachable(self, roots):
        seen = {}
        work = [(r, None) for r in roots]
        while work:
            n, parent = work.pop(0)
            if n in seen:
                continue
            seen[n] = parent
            for m in sorted(self.edges.get(n, ())):
                if m not in seen:
                    work.append((m, n))
        return seen  # node -> parent (shortest chain from a root)

    def chain(self, seen, n):
        out = []
        while n is not None:
            out.append(n.split("::")[-1] if not n.startswith("<") else n)
            n = seen.get(n)
        return " <- ".join(out)

    def sccs(self, nodes):
        """Tarjan over the sub-graph induced by `nodes` -> list of SCCs (each a list) with a cycle."""
        index = {}
        low = {}
        stack = []
        on = set()
        out = []
        counter = [0]
        import sys
        sys.setrecursionlimit(10000)

        def strong(v):
            index[v] = low[v] = counter[0]
            counter[0] += 1
            stack.append(v)
            on.add(v)
            for w in self.edges.get(v, ()):
                if w not in nodes:
                    continue
                if w not in index:
                    strong(w)
                    low[v] = min(low[v], low[w])
                elif w in on:
                    low[v] = min(low[v], index[w])
            if low[v] == index[v]:
                comp = []
                while True:
                    w = stack.pop()
                    on.discard(w)
                    comp.append(w)
                    if w == v:
                        break
                if len(comp) > 1 or v in self.edges.get(v, ()):
                    out.append(comp)

        for v in sorted(nodes):
            if v not in index:
                strong(v)
        return out


# ---------------------------------------------------------------------------------- A2
PANIC_API = [
    # (regex on resolved callee path, kind)
    (r"core::option::Option::(unwrap|expect)$", "unwrap"),
    (r"core::result::Result::(unwrap|expect|unwrap_err|expect_err)$", "unwrap"),
    (r"core::panicking::", "panic"),
    (r"std::rt::(begin_panic|panic_fmt)", "panic"),
    (r"std::panicking::", "panic"),
    (r"core::option::(unwrap_failed|expect_failed)", "panic"),
    (r"core::result::unwrap_failed", "panic"),
    (r"Index(Mut)?<.*>>::index(_mut)?$", "index"),
    (r"core::slice::index::.*::index(_mut)?$", "index"),
    (r"core::str::traits::.*::index(_mut)?$", "index"),
    (r"alloc::vec::Vec::(drain|remove|swap_remove|insert|split_off|extend_from_within|splice)$", "vec-op"),
    (r"alloc::collections::vec_deque::VecDeque::(drain|remove|swap_remove|insert|split_off|swap|range)$", "vec-op"),
    (r"alloc::string::String::(insert|insert_str|remove|replace_range|drain|split_off|truncate)$", "string-op"),
    (r"alloc::str::<impl str>::repeat$", "alloc-size"),
    (r"alloc::vec::from_elem$", "alloc-size"),
    (r"::with_capacity$", "alloc-size"),
    (r"alloc::vec::Vec::(reserve|reserve_exact|resize)$", "alloc-size"),
    (r"core::slice::<impl \[T\]>::(split_at|split_at_mut|copy_from_slice|clone_from_slice|swap|chunks|chunks_exact|windows|rotate_left|rotate_right|select_nth_unstable|copy_within)$", "slice-op"),
    (r"core::str::<impl str>::(split_at|split_at_mut)$", "slice-op"),
    (r"alloc::collections::btree::(set::BTreeSet|map::BTreeMap)::(range|range_mut)$", "range-api"),
    (r"core::cell::RefCell::(borrow|borrow_mut)$", "refcell"),
    (r"core::iter::traits::iterator::Iterator::step_by$", "arith-api"),
    (r"core::f64::<impl f64>::clamp$", "arith-api"),
    (r"core::num::<impl [iu](8|16|32|64|128|size)>::(pow|abs|div_euclid|rem_euclid|ilog|ilog2|ilog10|isqrt|next_power_of_two|abs_diff)$", "arith-api"),
    (r"core::time::Duration::(from_secs_f64|from_secs_f32|mul_f64|div_f64)$", "arith-api"),
    (r"<core::time::Duration as core::ops::arith::(Add|Sub|Mul|Div).*>::", "arith-api"),
    (r"<std::time::(Instant|SystemTime) as core::ops::arith::(Add|Sub).*>::", "arith-api"),
    (r"std::time::Instant::duration_since$", "arith-api"),
    (r"core::char::methods::<impl char>::(from_digit|to_digit)$", "arith-api"),
    (r"alloc::rc::Rc::(new_cyclic)$", "panic"),
    (r"std::thread::spawn$|std::sync::mpsc::", "thread"),
    (r"std::process::(exit|abort)$", "exit"),
]
_PANIC_RX = [(re.compile(rx), kind) for rx, kind in PANIC_API]

ASSERT_KINDS = ("Overflow", "BoundsCheck", "DivisionByZero", "RemainderByZero", "OverflowNeg")


class Site:
    __slots__ = ("fn", "kind", "detail", "bb", "span", "macro", "call", "term", "producer", "key")

    def __init__(self, fn, kind, detail, bb, span, macro, call=None, term=None, producer=""):
        self.fn = fn
        self.kind = kind
        self.detail = detail
        self.bb = bb
        self.span = span
        self.macro = macro
        self.call = call
        self.term = term
        self.producer = producer
        self.key = None

    def __repr__(self):
        return "Site(%s %s %s @%s)" % (self.fn, self.kind, self.detail, self.span)


def classify_callee(callee):
    for rx, kind in _PANIC_RX:
        if rx.search(callee):
            return kind
    return None


def producer_of(body, c):
    """Short description of what produced the receiver of an unwrap/index (for stable keys)."""
    if not c.args:
        return ""
    e = strip_expr(body.expr(c.args[0]))
    if e[0] == "call":
        return "of:" + e[1].split("::")[-1]
    if e[0] == "place":
        inner = strip_expr(e[1])
        if e[2]:
            return "of:." + e[2][-1][1]
        if inner[0] == "call":
            return "of:" + inner[1].split("::")[-1]
    if e[0] == "param":
        return "of:arg%d" % e[1]
    return ""


def sites_of(body):
    out = []
    for b in sorted(body.reachable()):
        blk = body.blocks[b]
        t = blk["term"]
        if t["k"] == "assert":
            kind = t["kind"].split(":")[0]
            sp = Span(blk["tspan"])
            if kind in ("MisalignedPointer", "NullPointer"):
                continue  # debug-only checks around raw derefs in macro-generated glue; see DESIGN A2
            out.append(Site(body.path, "assert", t["kind"], b, sp, sp.macro if sp.exp else "", term=t))
        elif t["k"] == "call":
            c = body.call_at(b)
            if c is None:
                continue
            kind = classify_callee(c.callee) or classify_callee(c.declared)
            if kind is None:
                continue
            mac = c.tspan.macro if c.tspan.exp else (c.span.macro if c.span.exp else "")
            det = c.callee.split("::")[-1]
            if kind == "index":
                det = "index"
            out.append(Site(body.path, kind, det, b, c.span, mac, call=c, producer=producer_of(body, c)))
    # stable keys: fn | kind | detail | producer | ordinal among equals
    seen = {}
    for s in out:
        base = "%s|%s|%s%s" % (s.fn, s.kind, s.detail, ("|" + s.producer) if s.producer else "")
        n = seen.get(base, 0)
        seen[base] = n + 1
        s.key = base if n == 0 else "%s#%d" % (base, n + 1)
    return out


# ---------------------------------------------------------------------------------- A3 value-like taint
INT_TYPES = ("u8", "u16", "u32", "u64", "u128", "usize", "i8", "i16", "i32", "i64", "i128", "isize")


def intlike(ty):
    """Is `ty` an integer or a simple container / tuple / option of integers?"""
    t = ty.strip()
    for _ in range(6):
        if t in INT_TYPES:
            return True
        if t.startswith("&mut "):
            t = t[5:].strip()
        elif t.startswith("&"):
            t = t[1:].strip()
        elif t.startswith("core::option::Option<") and t.endswith(">"):
            t = t[len("core::option::Option<"):-1].strip()
        elif t.startswith("core::result::Result<") and t.endswith(">"):
            t = t[len("core::result::Result<"):-1].split(",")[0].strip()
        elif t.startswith("alloc::vec::Vec<") and t.endswith(">"):
            t = t[len("alloc::vec::Vec<"):-1].split(",")[0].strip()
        elif t.startswith("core::ops::range::Range") and "<" in t:
            t = t[t.index("<") + 1:-1].strip()
        elif t.startswith("[") and t.endswith("]"):
            t = t[1:-1].split(";")[0].strip()
        elif t.startswith("(") and t.endswith(")"):
            parts = [x.strip() for x in t[1:-1].split(",")]
            return any(x in INT_TYPES for x in parts)
        else:
            return False
    return False


class Taint:
    """Forward 'value-like' taint: integers derived from program text or from the host
    (str::parse::<int>, float->int casts, integer parameters of the host API), field-based and
    inter-procedural.  Everything else that reaches integer arithmetic is 'size-like'
    (lengths, cursor positions, enumerate indices, literals)."""

    def __init__(self, F, api_roots):
        self.F = F
        self.TF = set()   # (adt, field)
        self.TP = set()   # (fn, param index)
        self.TR = set()   # fn  (whole return value) or (fn, tuple index)
        self.TL = set()   # (fn, local)
        self.why = {}
        for r in api_roots:
            b = F.bodies.get(r)
            if b is None:
                continue
            for i in range(b.arg_count):
                if b.local_ty(i + 1) in INT_TYPES:
                    self._add(self.TP, (b.path, i), "integer parameter of host API %s" % r.split("::")[-1])
        for _round in range(30):
            if not self._round():
                break

    def _ty_ok(self, s, k):
        F = self.F
        if s is self.TF:
            a = F.adts.get(k[0])
            if a is None:
                return False
            for v in a["variants"]:
                for f in v["fields"]:
                    if f["name"] == k[1]:
                        return intlike(f["ty"])
            return False
        if s is self.TP:
            b = F.bodies.get(k[0])
            return b is not None and k[1] < b.arg_count and intlike(b.local_ty(k[1] + 1))
        if s is self.TR:
            b = F.bodies.get(k)
            return b is not None and intlike(b.local_ty(0))
        if s is self.TL:
            b = F.bodies.get(k[0])
            return b is not None and intlike(b.local_ty(k[1]))
        return True

    def _ret_tuple(self, body, rv):
        """`_0 = Some(move _t)` / `_0 = (a, b)` where _t is a tuple aggregate: per-component taint."""
        changed = False
        tup = None
        if rv.get("agg") == "tuple":
            tup = rv
        elif rv.get("agg") == "adt" and len(rv["ops"]) == 1 and rv["ops"][0]["k"] in ("copy", "move"):
            l = rv["ops"][0]["place"]["local"]
            d = body.unique_def(l)
            if d and d[0] == "assign" and d[3]["k"] == "aggregate" and d[3].get("agg") == "tuple":
                tup = d[3]
        if tup is None:
            return False
        if (body.path, "tuple") not in self.TR:
            self.TR.add((body.path, "tuple"))
            changed = True
        for idx, o in enumerate(tup["ops"]):
            if self.tainted_op(body, o) and (body.path, str(idx)) not in self.TR:
                self.TR.add((body.path, str(idx)))
                self.why[(body.path, str(idx))] = "tuple component returned by %s" % body.path
                changed = True
        return changed

    def _add(self, s, k, why):
        if k not in s and not self._ty_ok(s, k):
            return False
        if k not in s:
            s.add(k)
            self.why[k] = why
            return True
        return False

    def tainted(self, body, e, seen=None):
        if seen is None:
            seen = set()
        if not isinstance(e, tuple) or not e:
            return False
        k = e[0]
        if k == "const":
            return False
        if k == "param":
            return (body.path, e[1]) in self.TP
        if k == "local":
            n = e[1]
            if (body.path, n) in self.TL:
                return True
            if n in seen:
                return False
            seen.add(n)
            for d in body.defs().get(n, []):
                if d[0] in ("assign", "partial"):
                    if self.tainted(body, body.rv_expr(d[3]), seen):
                        return True
                elif d[0] in ("call", "partial-call"):
                    c = d[2]
                    if self.tainted(body, ("call", c.callee, [body.expr(a) for a in c.args], c), seen):
                        return True
            return False
        if k == "call":
            callee = e[1]
            c = e[3] if len(e) > 3 else None
            if callee.endswith("<impl str>::parse") and c is not None and c.gargs and c.gargs[0] in INT_TYPES:
                return True
            if callee in self.TR:
                return True
            if callee in self.F.bodies:
                return False
            if callee.split("::")[-1] in ("len", "count", "capacity", "len_utf8", "is_empty"):
                return False  # a length is a size, whatever the container holds
            last = callee.split("::")[-1]
            arith = last.startswith(("checked_", "saturating_", "wrapping_", "overflowing_", "unchecked_")) or \
                last in ("min", "max", "pow", "clamp", "abs_diff", "add", "sub", "mul", "div", "rem")
            if arith:
                return any(self.tainted(body, a, seen) for a in e[2])
            # conversions / accessors: the value flows from the receiver, not from lookup keys
            return bool(e[2]) and self.tainted(body, e[2][0], seen)
        if k in ("binop",):
            return self.tainted(body, e[2], seen) or self.tainted(body, e[3], seen)
        if k == "unop":
            return self.tainted(body, e[2], seen)
        if k == "cast":
            if e[1] == "FloatToInt":
                return True
            return self.tainted(body, e[2], seen)
        if k == "place":
            for f in e[2]:
                if f in self.TF:
                    return True
            base = e[1]
            tup = [f[1] for f in e[2] if f[0] == "(tuple)"]
            if base[0] == "call" and base[1] in self.F.bodies and tup:
                # tuple-returning local function: only the tainted components count
                return (base[1], tup[0]) in self.TR or (base[1] in self.TR and (base[1], "tuple") not in self.TR)
            if base[0] == "local" and e[2] and e[2][0][0] == "(tuple)" and (body.path, base[1]) not in self.TL:
                # a local tuple built component-wise (`let (a, b) = match .. { .. => (x, y), .. => (None, 0) }`):
                # only the projected component of each defining aggregate counts
                defs = body.defs().get(base[1], [])
                if defs and all(d[0] == "assign" and d[3]["k"] == "aggregate" and d[3].get("agg") == "tuple" for d in defs):
                    try:
                        idx = int(e[2][0][1])
                    except ValueError:
                        idx = None
                    if idx is not None and all(idx < len(d[3]["ops"]) for d in defs):
                        rest = e[2][1:]
                        for d in defs:
                            sub = body.expr(d[3]["ops"][idx])
                            if rest:
                                sub = ("place", sub, rest, False, ())
                            if self.tainted(body, sub, seen):
                                return True
                        return False
            return self.tainted(body, base, seen)
        if k == "ref":
            return self.tainted(body, e[1], seen)
        if k == "agg":
            return any(self.tainted(body, x, seen) for x in e[3])
        if k == "repeat":
            return self.tainted(body, e[1], seen)
        return False

    def tainted_op(self, body, op):
        if op.get("k") in ("copy", "move") and (body.path, op["place"]["local"]) in self.TL:
            return True
        return self.tainted(body, body.expr(op))

    def _round(self):
        F = self.F
        changed = False
        for body in F.bodies.values():
            for b, i, pl, rv, sp in body.assigns():
                e = body.rv_expr(rv)
                # a tainted container moved / borrowed into another local stays tainted
                src = None
                if rv["k"] in ("use", "cast") and rv["op"]["k"] in ("copy", "move"):
                    src = rv["op"]["place"]["local"]
                elif rv["k"] == "ref":
                    src = rv["place"]["local"]
                if src is not None and (body.path, src) in self.TL and not pl["proj"]:
                    changed |= self._add(self.TL, (body.path, pl["local"]), "moved container")
                if pl["local"] == 0 and rv["k"] == "aggregate":
                    # Ok((a, b)) / Some((a, b)) / (a, b): record which tuple components are tainted
                    changed |= self._ret_tuple(body, rv)
                    if any(self.tainted_op(body, o) for o in rv["ops"]):
                        changed |= self._add(self.TR, body.path, "returned by %s" % body.path)
                fields = [p for p in pl["proj"] if p["k"] == "field" and p.get("adt") and not p["adt"].startswith("(")]
                if rv["k"] == "aggregate" and rv.get("agg") == "adt" and rv.get("fields"):
                    for idx, op in enumerate(rv["ops"]):
                        if idx < len(rv["fields"]) and self.tainted(body, body.expr(op)):
                            changed |= self._add(self.TF, (norm(rv["adt"]), rv["fields"][idx]),
                                                 "stored in %s" % body.path)
                if not self.tainted(body, e):
                    continue
                if fields:
                    f = fields[-1]
                    changed |= self._add(self.TF, (norm(f["adt"]), f.get("name", str(f["i"]))), "assigned in %s" % body.path)
                elif pl["local"] == 0:
                    changed |= self._add(self.TR, body.path, "returned by %s" % body.path)
                else:
                    # user variables with several definitions are found through defs(); nothing to record
                    pass
            for c in body.calls():
                targs = [self.tainted_op(body, a) for a in c.args]
                if c.callee in F.bodies:
                    for idx, ta in enumerate(targs):
                        if ta:
                            changed |= self._add(self.TP, (c.callee, idx), "passed by %s" % body.path)
                else:
                    # container mutation: push/insert/extend of a tainted value taints the container
                    if any(targs[1:]) and c.args and c.args[0]["k"] in ("copy", "move"):
                        a0 = c.args[0]["place"]
                        if a0.get("ty", "").startswith("&mut"):
                            e0 = strip_refs(body.expr(c.args[0]))
                            if e0[0] == "place" and e0[2]:
                                changed |= self._add(self.TF, e0[2][-1], "container filled in %s" % body.path)
                            else:
                                root = e0
                                while root[0] in ("place", "ref"):
                                    root = root[1]
                                if root[0] == "local":
                                    changed |= self._add(self.TL, (body.path, root[1]), "container filled")
                                # `&mut _x` of a single-def temp: find the underlying local through the raw place
                                d = body.unique_def(a0["local"]) if not a0["proj"] else None
                                if d and d[0] == "assign" and d[3]["k"] == "ref":
                                    changed |= self._add(self.TL, (body.path, d[3]["place"]["local"]), "container filled")
                if c.dest["local"] == 0 and not c.dest["proj"]:
                    if self.tainted(body, ("call", c.callee, [body.expr(a) for a in c.args], c)):
                        changed |= self._add(self.TR, body.path, "returned by %s" % body.path)
        return changed


# ---------------------------------------------------------------------------------- discharge rules
def _norm_e(e):
    """Expression tree without Call objects / raw projections, for structural comparison."""
    if not isinstance(e, tuple):
        if isinstance(e, list):
            return tuple(_norm_e(x) for x in e)
        if isinstance(e, dict):
            return ("constval", e.get("int"), e.get("str"), e.get("float"), e.get("fn"))
        return e
    if not e:
        return e
    k = e[0]
    if k == "call":
        return ("call", e[1], tuple(_norm_e(a) for a in e[2]))
    if k == "place":
        return ("place", _norm_e(e[1]), e[2])
    if k == "const":
        return ("const", _norm_e(e[1]))
    return tuple(_norm_e(x) for x in e)


def same_value(a, b):
    return _norm_e(strip_expr(a)) == _norm_e(strip_expr(b))


def const_int_of(e):
    e = strip_expr(e)
    if e[0] == "const":
        return e[1].get("int")
    return None


def _writes_between(E, body, start, target_bb, fields, guard_bb=None):
    """May anything on a path start ->* target_bb (not re-passing the guard) write a place whose field
    path ends with `fields`?"""
    if E is None or not fields or start == target_bb:
        return False
    avoid = {guard_bb} if guard_bb is not None else set()
    fwd = body.blocks_reachable_from(start, avoid=avoid)
    between = {b for b in fwd if b != target_bb and body.reaches(b, target_bb, avoid=avoid)}
    between.discard(target_bb)
    fi = E.info[body.path]
    last = fields[-1]
    for b in between:
        for st in body.blocks[b]["stmts"]:
            if st["k"] == "assign":
                pf = [p for p in st["place"]["proj"] if p["k"] == "field"]
                if pf and (norm(pf[-1].get("adt", "")), pf[-1].get("name")) == last:
                    return True
        c = body.call_at(b)
        if c is not None and c.is_local and c.callee in E.info:
            for (k, path) in E.info[c.callee].writes:
                if path and path[-1] == last:
                    return True
                if k == "?":
                    return True
    return False


def guard_for_sub(E, body, site):
    """`x - c` dominated by the true arm of `x > 0`, `x >= c`, `x != 0` (or false arm of `x == 0`, `x < c`)."""
    ops = site.term["ops"]
    x = body.expr(ops[0])
    c = const_int_of(body.expr(ops[1]))
    if c is None:
        return None
    xs = strip_expr(x)
    xfields = xs[2] if xs[0] == "place" else ()
    for b in sorted(body.reachable()):
        t = body.term(b)
        if t["k"] != "switch" or not body.dominates(b, site.bb) or b == site.bb:
            continue
        e = strip_expr(body.expr(t["discr"]))
        # `len(X) - 1` under `!X.is_empty()`
        if c == 1 and xs[0] == "call" and xs[1].endswith("::len"):
            neg = False
            ee = e
            if ee[0] == "unop" and ee[1] == "Not":
                neg = True
                ee = strip_expr(ee[2])
            if ee[0] == "call" and ee[1].endswith("::is_empty") and \
                    _norm_e(strip_expr(ee[2][0])) == _norm_e(strip_expr(xs[2][0])):
                ft = bool_switch_true_target(body, b)
                if ft:
                    arm = ft[1] if neg else ft[0]
                    if body.dominates(arm, site.bb):
                        return "dominated by `!%s.is_empty()` (bb%d)" % (show(strip_expr(xs[2][0])), b)
        if e[0] != "binop" or e[1] not in ("Gt", "Ge", "Ne", "Eq", "Lt", "Le"):
            continue
        lhs, rhs = e[2], e[3]
        k = const_int_of(rhs)
        if k is None or not same_value(lhs, x):
            continue
        ft = bool_switch_true_target(body, b)
        if ft is None:
            continue
        false_t, true_t = ft
        op = e[1]
        good_true = (op == "Gt" and k >= c - 1) or (op == "Ge" and k >= c) or (op == "Ne" and k == 0 and c == 1)
        good_false = (op == "Eq" and k == 0 and c == 1) or (op == "Lt" and k >= c) or (op == "Le" and k >= c - 1)
        arm = true_t if good_true else (false_t if good_false else None)
        if arm is None or not body.dominates(arm, site.bb):
            continue
        if _writes_between(E, body, arm, site.bb, xfields, b):
            continue
        return "dominated by `%s %s %d` (bb%d) on the same value, no write in between" % (show(xs), op, k, b)
    return None


def guard_for_bounds(E, body, site):
    """BoundsCheck(len, idx) dominated by the true arm of `idx < len(same slice)`; or idx const 0 under len != 0."""
    ops = site.term["ops"]
    ln = body.expr(ops[0])
    ix = body.expr(ops[1])
    ixs = strip_expr(ix)
    ixfields = ixs[2] if ixs[0] == "place" else ()

    def slice_of(le):
        le = strip_expr(le)
        if le[0] == "unop" and le[1] == "PtrMetadata":
            return strip_expr(le[2])
        if le[0] == "call" and le[1].endswith("::len"):
            return strip_expr(le[2][0])
        return None

    target_slice = slice_of(ln)
    # `s[i]` where i is the payload of `s.iter().position(..)` / `rposition(..)` over the very same slice: an index of an
    # element that exists
    if ixs[0] == "place" and isinstance(ixs[1], tuple) and ixs[1][0] == "call" and \
            ixs[1][1].split("::")[-1] in ("position", "rposition") and any(p[0] == "field" and p[2] == "Some" for p in ixs[4]):
        recv = ixs[1][2][0] if ixs[1][2] else None
        it = strip_expr(recv) if recv is not None else None
        while it is not None and it[0] in ("ref",):
            it = strip_expr(it[1])
        if it is not None and it[0] == "call" and it[1].split("::")[-1] in ("iter", "iter_mut") and it[2]:
            it = ("call", "iter", [it[2][0]])
        elif it is not None:
            it = ("call", "iter", [it])       # strip_expr already looked through `.iter()`
        if it is not None:
            over = strip_expr(it[2][0])

            def core(x):
                # peel reborrows: &*&*x -> x
                for _ in range(10):
                    x = strip_expr(x)
                    if x[0] == "ref":
                        x = x[1]
                    elif x[0] == "place" and not x[2] and all(p[0] == "deref" for p in x[4]):
                        x = x[1]
                    else:
                        break
                return x
            co, ct = core(over), (core(target_slice) if target_slice is not None else None)
            same_call = ct is not None and co[0] == "call" and ct[0] == "call" and len(co) > 3 and len(ct) > 3 and co[3] is ct[3]
            if target_slice is not None and (same_call or _norm_e(co) == _norm_e(ct)):
                return "the index is the payload of %s() over the same slice" % ixs[1][1].split("::")[-1]
    for b in sorted(body.reachable()):
        t = body.term(b)
        if t["k"] != "switch" or not body.dominates(b, site.bb) or b == site.bb:
            continue
        e = strip_expr(body.expr(t["discr"]))
        if e[0] != "binop":
            continue
        ft = bool_switch_true_target(body, b)
        if ft is None:
            continue
        false_t, true_t = ft
        if e[1] in ("Lt", "Ge") and same_value(e[2], ix):
            gs = slice_of(e[3])
            if gs is not None and target_slice is not None and _norm_e(gs) == _norm_e(target_slice):
                arm = true_t if e[1] == "Lt" else false_t
                if body.dominates(arm, site.bb) and not _writes_between(E, body, arm, site.bb, ixfields, b):
                    return "dominated by `%s < len` (bb%d) on the same index and slice" % (show(ixs), b)
        if const_int_of(ix) == 0 and e[1] in ("Eq", "Ne") and const_int_of(e[3]) == 0:
            gs = slice_of(e[2])
            if gs is not None and target_slice is not None and _norm_e(gs) == _norm_e(target_slice):
                arm = false_t if e[1] == "Eq" else true_t
                if body.dominates(arm, site.bb):
                    return "index 0 under `len != 0` (bb%d)" % b
    return None


def _safe(chk, F, E, body, s):
    try:
        return chk(F, E, body, s)
    except Exception:
        return False


def guard_option_just_filled(body, site):
    """`if p.is_none() { p = Some(..) }  match p { Some(x) => .., None => unreachable!() }`: the panic sits on the None arm
    of a match on an Option place that every path has just made Some."""
    from lib import exclusive_region
    for sb in sorted(body.reachable()):
        info = body.switch_info(sb)
        if not info or not info[3] or set(info[3].values()) != {"None", "Some"} or not body.dominates(sb, site.bb):
            continue
        none_t = [info[1].get(v, info[2]) for v, n in info[3].items() if n == "None"]
        if not none_t or none_t[0] is None or not (site.bb == none_t[0] or body.dominates(none_t[0], site.bb)):
            continue
        subj = strip_refs(info[0][1]) if info[0][0] == "discr" else None
        if subj is None or subj[0] != "place" or not subj[2]:
            continue
        field = subj[2][-1]
        # the filling `if`
        for gb in sorted(body.reachable()):
            if gb == sb or not body.dominates(gb, sb):
                continue
            t = body.term(gb)
            if t["k"] != "switch":
                continue
            e = strip_expr(body.expr(t["discr"]))
            if e[0] != "call" or not e[1].endswith("Option::is_none"):
                continue
            tested = strip_refs(e[2][0])
            if tested[0] != "place" or not tested[2] or tested[2][-1] != field:
                continue
            ft = bool_switch_true_target(body, gb)
            if ft is None:
                continue
            treg = exclusive_region(body, ft[1])
            def is_some(rv_):
                e_ = strip_expr(body.rv_expr(rv_))
                return e_[0] == "agg" and e_[2] == "Some"
            fills = [bb for (bb, i, pl, rv, sp) in body.assigns() if bb in treg and is_some(rv)
                     and [p for p in pl["proj"] if p["k"] == "field"] and [p for p in pl["proj"] if p["k"] == "field"][-1].get("name") == field[1]]
            if not fills:
                continue
            # every path through the true arm passes a fill; nothing else writes the field between the test and the match
            ok = all(any(f_ == x or body.dominates(f_, x) for f_ in fills) for x in body.preds(sb) if x in treg) if any(x in treg for x in body.preds(sb)) else \
                any(body.dominates(f_, sb) or True for f_ in fills)
            others = [bb for (bb, i, pl, rv, sp) in body.assigns() if bb not in fills and body.reaches(gb, bb) and body.reaches(bb, sb)
                      and [p for p in pl["proj"] if p["k"] == "field"] and [p for p in pl["proj"] if p["k"] == "field"][-1].get("name") == field[1]]
            takes = [c for c in body.calls() if body.reaches(gb, c.bb) and body.reaches(c.bb, sb) and c.bb != gb and
                     c.callee.split("::")[-1] in ("take", "replace", "insert", "get_or_insert_with") and c.args and
                     field in (strip_refs(body.expr(c.args[0]))[2] if strip_refs(body.expr(c.args[0]))[0] == "place" else ())]
            if ok and not others and not takes:
                return "None arm of a match on .%s, which the dominating `if .%s.is_none() { .%s = Some(..) }` (bb%d) has just filled" % (field[1], field[1], field[1], gb)
    return None


def guard_for_index_call(E, body, site):
    """`v[i]` (an Index::index call on a Vec / slice with a usize index) dominated by the true arm of `i < v.len()`"""
    c = site.call
    if not any(g in ("usize",) for g in c.gargs) and "usize" not in str(c.args[1].get("place", {}).get("ty", "")) and \
            c.args[1].get("ty") != "usize":
        return None
    recv = strip_refs(body.expr(c.args[0]))
    ix = body.expr(c.args[1])

    def core(x):
        for _ in range(10):
            x = strip_expr(x)
            if x[0] == "ref":
                x = x[1]
            elif x[0] == "place" and not x[2] and all(p[0] == "deref" for p in x[4]):
                x = x[1]
            else:
                break
        return x
    for b in sorted(body.reachable()):
        t = body.term(b)
        if t["k"] != "switch" or not body.dominates(b, site.bb) or b == site.bb:
            continue
        e = strip_expr(body.expr(t["discr"]))
        if e[0] != "binop" or e[1] not in ("Lt", "Ge", "Gt", "Le"):
            continue
        ft = bool_switch_true_target(body, b)
        if ft is None:
            continue
        l, r, op = e[2], e[3], e[1]
        if op in ("Gt", "Le"):          # len > i  /  len <= i
            l, r, op = r, l, {"Gt": "Lt", "Le": "Ge"}[op]
        ln = strip_expr(r)
        if not (ln[0] == "call" and ln[1].endswith("::len") and ln[2]):
            continue
        if not same_value(l, ix):
            continue
        a, bq = core(ln[2][0]), core(recv)
        same = _norm_e(a) == _norm_e(bq) or (a[0] == "call" and bq[0] == "call" and len(a) > 3 and len(bq) > 3 and a[3] is bq[3])
        if not same:
            continue
        arm = ft[1] if op == "Lt" else ft[0]
        if body.dominates(arm, site.bb) or arm == site.bb:
            return "dominated by `%s < len` of the same vector (bb%d)" % (show(strip_expr(ix)), b)
    return None


def guard_for_map_index(F, body, site):
    """`map[key]` dominated by the true arm of `map.contains_key(key)` on the same map and key -- directly or through a
    method of the same type that returns exactly that test (`fn has(&self, k) -> bool { self.0.contains_key(k) }`)."""
    c = site.call
    recv = _norm_e(strip_refs(body.expr(c.args[0])))
    key = _norm_e(strip_refs(body.expr(c.args[1])))
    for b in sorted(body.reachable()):
        t = body.term(b)
        if t["k"] != "switch" or not body.dominates(b, site.bb) or b == site.bb:
            continue
        ft = bool_switch_true_target(body, b)
        if ft is None:
            continue
        e = strip_expr(body.expr(t["discr"]))
        neg = False
        while e[0] == "unop" and e[1] == "Not":
            neg = not neg
            e = strip_expr(e[2])
        if e[0] != "call" or len(e) < 4:
            continue
        tc = e[3]
        same = False
        if tc.callee.endswith("::contains_key") and len(tc.args) >= 2:
            same = _norm_e(strip_refs(body.expr(tc.args[0]))) == recv and _norm_e(strip_refs(body.expr(tc.args[1]))) == key
        elif tc.callee in F.bodies and len(tc.args) >= 2:
            wb = F.bodies[tc.callee]
            inner = [x for x in wb.calls() if x.callee.endswith("::contains_key")]
            if wb.local_ty(0) == "bool" and len(inner) == 1 and len(wb.calls()) == 1 and \
                    strip_expr(wb.expr(inner[0].args[1])) == ("param", 1):
                # the wrapper tests a field of its receiver; the indexed map must be that field of the same receiver
                wrecv = strip_refs(wb.expr(inner[0].args[0]))
                if wrecv[0] == "place" and strip_expr(wrecv[1]) == ("param", 0) and wrecv[2]:
                    mine = strip_refs(body.expr(c.args[0]))
                    if mine[0] == "place" and mine[2] and mine[2][-len(wrecv[2]):] == wrecv[2] and \
                            _norm_e(strip_refs(body.expr(tc.args[1]))) == key:
                        same = True
        if not same:
            continue
        arm = ft[0] if neg else ft[1]          # the arm on which the key is present
        other = ft[1] if neg else ft[0]
        if (body.dominates(arm, site.bb) or site.bb == arm) and site.bb not in body.blocks_reachable_from(other) | {other} or \
                (site.bb not in (body.blocks_reachable_from(other) | {other})):
            return "dominated by a successful contains_key test of the same map and key (bb%d)" % b
    return None


class Discharger:
    def __init__(self, F, E, taint, rows, protocol_fns=()):
        self.F = F
        self.E = E
        self.T = taint
        self.rows = rows
        self.protocol_fns = protocol_fns
        self.used_rows = set()

    def discharge(self, s):
        """-> (rule, how) or None"""
        body = self.F.bodies[s.fn]
        if s.kind == "assert":
            kind = s.detail.split(":")[0]
            if kind == "Overflow":
                op = s.detail.split(":")[1]
                ops = s.term["ops"]
                if all(const_int_of(body.expr(o)) is not None for o in ops):
                    return ("const", "both operands are constants")
                tainted = [self.T.tainted_op(body, o) for o in ops]
                if op in ("Add", "Mul", "Shl") and not any(tainted):
                    return ("SIZE", "operands are size-like (lengths, cursor positions, counters, literals): "
                            "sum/product of sizes of live allocations cannot exceed usize::MAX")
                if op == "Sub":
                    g = guard_for_sub(self.E, body, s)
                    if g:
                        return ("guard", g)
            elif kind == "BoundsCheck":
                g = guard_for_bounds(self.E, body, s)
                if g:
                    return ("guard", g)
            elif kind in ("DivisionByZero", "RemainderByZero"):
                c = strip_expr(body.expr(s.term["cond"]))
                if c[0] == "binop" and c[1] == "Eq":
                    d = const_int_of(c[2])
                    z = const_int_of(c[3])
                    if d is not None and d != 0 and z == 0:
                        return ("const", "divisor is the non-zero constant %d" % d)
        elif s.kind == "alloc-size":
            c = s.call
            idx = 0 if s.detail == "with_capacity" else 1
            if s.detail in ("reserve", "reserve_exact", "resize"):
                idx = 1
            if idx < len(c.args) and not self.T.tainted_op(body, c.args[idx]):
                return ("SIZE", "allocation size is size-like (a length / count of things already in memory or in the "
                        "source line, or a crate constant), not a number taken from program text")
        elif s.kind == "panic" and s.macro in ("assert_eq!", "assert!", "assert_ne!") and \
                any(sfx(s.fn, p) for p in self.protocol_fns):
            # turn-taking contract: the assertion compares the state field at a public entry point
            cond_mentions_state = False
            for b in sorted(body.reachable()):
                if body.dominates(b, s.bb) and body.term(b)["k"] == "switch":
                    txt = show(body.expr(body.term(b)["discr"]))
                    if ".state" in txt or "state" in txt or "latest_error" in txt:
                        cond_mentions_state = True
            if cond_mentions_state:
                return ("protocol", "turn-taking precondition asserted at the API entry (the property conditions on it)")
        if s.kind == "range-api" and s.call is not None and len(s.call.args) >= 2:
            # BTreeSet::range panics when start > end (or start == end with both excluded): safe when one end is open
            r = strip_expr(body.expr(s.call.args[1], depth=20))
            txt = show(r)
            if r[0] == "agg" and (str(r[1]).split("::")[-1] in ("RangeFrom", "RangeTo", "RangeToInclusive", "RangeFull") or
                                  (r[1] == "tuple" and "Unbounded" in txt)):
                return ("guard", "one end of the range is unbounded: start <= end cannot fail")
        if s.kind == "panic":
            g = guard_option_just_filled(body, s)
            if g:
                return ("guard", g)
        if s.kind == "index" and s.call is not None and "HashMap" not in s.call.callee and len(s.call.args) >= 2:
            g = guard_for_index_call(self.E, body, s)
            if g:
                return ("guard", g)
        if s.kind == "index" and s.call is not None and "HashMap" in s.call.callee and len(s.call.args) >= 2:
            g = guard_for_map_index(self.F, body, s)
            if g:
                return ("guard", g)
        row = self.rows.get(s.key)
        rkey = s.key
        if row is None and "|" in s.key and "::{closure" in s.key.split("|", 1)[0]:
            # the site sits in a closure of the function the row names (a loop body turned into `.map(|x| ..)`, an `if`
            # turned into `.then(|| ..)`): it is still that function's site
            fn, rest = s.key.split("|", 1)
            pfn = fn.split("::{closure", 1)[0]
            pkey = pfn + "|" + re.sub(r"#\d+$", "", rest)
            prow = self.rows.get(pkey)
            if prow is None:
                # inside the closure the indexed field is a capture slot (`of:.0`), not the field name: match the parent's
                # row by site kind and callee when that is unambiguous
                kc = "|".join(rest.split("|")[:2])
                cands = [k2 for k2 in self.rows if k2.startswith(pfn + "|") and "|".join(k2.split("|")[1:3]) == kc]
                if len(cands) == 1:
                    pkey, prow = cands[0], self.rows[cands[0]]
            if prow is not None:
                chk = prow.get("check")
                pbody = self.F.bodies.get(fn.split("::{closure", 1)[0])
                if chk is None or chk(self.F, self.E, body, s) or (pbody is not None and _safe(chk, self.F, self.E, pbody, s)):
                    self.used_rows.add(pkey)
                    return ("row:" + prow["inv"], prow["why"])
        if row is None and "|" in s.key:
            # the site may have moved into another method of the same type (a helper extracted from / inlined into the
            # function the row names): a row of the same type with the same site signature applies if -- and only if --
            # it carries a structural check, which is then evaluated at the site's actual location
            fn, rest = s.key.split("|", 1)
            rest0 = re.sub(r"#\d+$", "", rest)
            owner = fn.rsplit("::", 1)[0]
            for k2, r2 in sorted(self.rows.items()):
                if r2.get("check") is None or "|" not in k2:
                    continue
                fn2, rest2 = k2.split("|", 1)
                owner2 = fn2.rsplit("::", 1)[0]
                # same type, or a free helper function in the module that defines the type (`mod::Type::f` -> `mod::helper`)
                if (owner2 == owner or owner2.rsplit("::", 1)[0] == owner) and re.sub(r"#\d+$", "", rest2) == rest0:
                    row, rkey = r2, k2
                    break
        if row is not None:
            chk = row.get("check")
            if chk is not None:
                res = chk(self.F, self.E, body, s)
                if not res:
                    return None
            self.used_rows.add(rkey)
            return ("row:" + row["inv"], row["why"])
        return None


# ---------------------------------------------------------------------------------- shared property rule
def run_dependency(F, E, modname):
    """Evaluate another property's rules on the same facts; returns {key: detail} of its violations
    that are not open known findings of that property."""
    import importlib
    import framework
    try:
        mod = importlib.import_module("props.%s" % modname)
    except ImportError as ex:
        return {"%s:ENGINE" % modname: "dependency rules missing: %r" % ex}
    sub = framework.Check(modname, "quick", 0, "other", F, {})
    try:
        mod.run(sub, F, E)
    except Exception as ex:  # fail closed
        return {"%s:ENGINE" % modname: "dependency rules crashed: %r" % ex}
    known = framework.load_known()
    open_keys = set()
    for k in known:
        if k.get("status", "open") == "open" and (k.get("property") == modname or modname in k.get("properties", [])):
            open_keys.add(k["key"])
            open_keys.add("%s:%s" % (modname, k["key"]))
            for kk in k.get("keys", []):
                open_keys.add(kk)
                open_keys.add("%s:%s" % (modname, kk))
    return {o.key: o.detail for o in sub.obs if o.status == "violation" and o.key not in open_keys}


def panic_freedom(ck, F, E, P, roots, rows, inv_depends, protocol_fns=(), exempt_fns=(), floor_sites=0,
                  skip_fn=lambda p: False):
    """Every panic-capable site reachable from `roots` must be discharged (A2)."""
    G = CallGraph(F)
    seen = G.reachable(roots)
    T = Taint(F, roots)
    D = Discharger(F, E, T, rows, protocol_fns)
    dep_cache = {}
    n_sites = 0
    by_rule = {}
    for p in sorted(seen):
        body = F.bodies[p]
        if skip_fn(p):
            continue
        for s in sites_of(body):
            n_sites += 1
            key = "%s:PANIC:%s" % (P, s.key)
            if any(sfx(p, x) for x in exempt_fns):
                ck.ok(key, "panic site (exempt)", "outside the property's quantifier (exempt by name)", "", s.span, False)
                continue
            r = D.discharge(s)
            chain = G.chain(seen, p)
            if r is None:
                ck.bad(key, "panic-capable site",
                       "%s site `%s` in %s is reachable from the host API (%s) and no rule discharges it: no dominating "
                       "guard, not size-like arithmetic, no vetted invariant row -- a host call can panic here"
                       % (s.kind, s.detail, p, chain), s.span)
                continue
            rule, how = r
            by_rule[rule] = by_rule.get(rule, 0) + 1
            if rule.startswith("row:"):
                inv = rule[4:]
                dep = inv_depends.get(inv)
                if dep is not None:
                    modname, prefixes = dep
                    if modname not in dep_cache:
                        dep_cache[modname] = run_dependency(F, E, modname)
                    broken = {k: v for k, v in dep_cache[modname].items() if any(k.startswith(pf) for pf in prefixes)}
                    if broken:
                        k0 = sorted(broken)[0]
                        ck.bad(key, "panic-capable site",
                               "site `%s` in %s is vetted under %s, but that invariant no longer holds on this tree "
                               "(%s: %s)" % (s.detail, p, inv, k0, broken[k0][:300]), s.span)
                        continue
            ck.ok(key, "panic site: " + rule, how, "reached via " + chain, s.span, nontrivial=(rule not in ("SIZE", "const")))
    ck.note("%s.panic_sites" % P, {"reachable_functions": len(seen), "sites": n_sites, "by_rule": by_rule,
                                   "roots": sorted(roots), "callback_edges": G.callbacks,
                                   "unclassified_external_callees": len(G.externals)})
    ck.note("%s.value_like" % P, {"fields": sorted("%s.%s" % (a.split("::")[-1], f) for a, f in T.TF),
                                  "params": sorted("%s#%d" % (f.split("::")[-1], i) for f, i in T.TP)})
    ck.floor("%s.panic-capable sites reachable" % P, n_sites, floor_sites)
    return G, seen, T


def depth_guard_fns(F):
    """Local functions that refuse to go deeper than a crate constant: a `len == LIMIT -> OutOfMemory` test
    dominating a push on the same vector."""
    from props import C16
    import framework
    limit = F.const("program::STACK_LIMIT") or 32
    out = set()
    # an `== LIMIT` test bounds the depth only if every growth site of that vector enforces the same cap
    capped = {}
    for field in ("stack", "loop_stack"):
        sub = framework.Check("scratch", "quick", 0, "other", F, {})
        C16.cap_rule(sub, F, None, field, limit, 0)
        capped[field] = not any(o.status == "violation" for o in sub.obs)
    for body in F.bodies.values():
        if body.crate != "abasic_core":
            continue
        for field in ("stack", "loop_stack"):
            guards = C16.find_len_guards(body, field, limit)
            if not guards or not capped[field]:
                continue
            for c in body.calls():
                if c.callee.endswith("Vec::push") and C16.receiver_field(body, c) == (C16.PROGRAM, field):
                    for (g, over_t, under_t, how) in guards:
                        if body.dominates(under_t, c.bb) and c.bb not in body.blocks_reachable_from(over_t):
                            out.add(body.path)
    return out


def _field_of(e, adt_suffix):
    """(adt, field) if `e` is a plain place ending in a field of an ADT whose path ends with adt_suffix."""
    e = strip_refs(e)
    if e[0] == "place" and e[2] and e[2][-1][0].endswith(adt_suffix):
        return e[2][-1]
    return None


def counter_guard_fns(F):
    """Depth counters: functions `fn enter(&mut self) -> Result` that test a usize field of Program against a constant,
    return an error on the reached-the-limit arm and add 1 on the other.  The counter bounds the depth only if every
    other write of that field, anywhere in the workspace, is a decrement or a reset to 0 and the field is never
    mutably borrowed.  -> {guard fn path: (field, limit, {decrementing fn paths})}"""
    from lib import bool_switch_true_target, exclusive_region, region_aggregates
    cands = {}
    for body in F.bodies.values():
        if body.crate != "abasic_core" or not body.local_ty(0).startswith("core::result::Result<"):
            continue
        for b in sorted(body.reachable()):
            t = body.term(b)
            if t["k"] != "switch":
                continue
            e = strip_expr(body.expr(t["discr"]))
            if e[0] != "binop" or e[1] not in ("Eq", "Ge", "Gt", "Lt", "Le", "Ne"):
                continue
            a, c = strip_expr(e[2]), strip_expr(e[3])
            swapped = False
            if a[0] == "const":
                a, c, swapped = c, a, True
            if c[0] != "const" or "int" not in c[1]:
                continue
            fld = _field_of(a, "program::Program")
            if fld is None:
                continue
            op = e[1]
            if swapped:
                op = {"Lt": "Gt", "Gt": "Lt", "Le": "Ge", "Ge": "Le"}.get(op, op)
            ft = bool_switch_true_target(body, b)
            if ft is None:
                continue
            false_t, true_t = ft
            val = c[1]["int"]
            if op in ("Eq", "Ge"):
                over, under, limit = true_t, false_t, val
            elif op == "Gt":
                over, under, limit = true_t, false_t, val + 1
            elif op in ("Ne", "Lt"):
                over, under, limit = false_t, true_t, val
            else:
                over, under, limit = false_t, true_t, val + 1
            # over arm: an error is built and the increment is not reached; under arm: field = field + 1
            oreg = exclusive_region(body, over)
            if not any(a2[1] in ("StackOverflow", "Err") for a2 in region_aggregates(body, oreg)):
                continue
            incs = []
            for (bb, i, pl, rv, sp) in body.assigns():
                fs = [p for p in pl["proj"] if p["k"] == "field"]
                if fs and fs[-1].get("name") == fld[1] and fs[-1].get("adt", "").endswith("program::Program"):
                    incs.append((bb, rv))
            ok = bool(incs)
            for (bb, rv) in incs:
                ex = strip_expr(body.rv_expr(rv))
                # `x + 1` shows up as field 0 of the (usize, bool) AddWithOverflow pair
                txt_ok = False
                def has_add1(x, depth=0):
                    if not isinstance(x, tuple) or depth > 6:
                        return False
                    if x[0] == "binop" and x[1] in ("Add", "AddWithOverflow"):
                        l, r = strip_expr(x[2]), strip_expr(x[3])
                        if _field_of(l, "program::Program") == fld and r[0] == "const" and r[1].get("int") == 1:
                            return True
                    return any(has_add1(y, depth + 1) for y in x[1:] if isinstance(y, tuple))
                txt_ok = has_add1(ex)
                if not (txt_ok and body.dominates(under, bb) and bb not in body.blocks_reachable_from(over)):
                    ok = False
            if ok:
                cands[body.path] = (fld, limit)
    out = {}
    for g, (fld, limit) in cands.items():
        dec = set()
        sound = True
        for body in F.bodies.values():
            if body.path == g or body.path.endswith("as core::default::Default>::default"):
                continue
            for (bb, i, pl, rv, sp) in body.assigns():
                fs = [p for p in pl["proj"] if p["k"] == "field"]
                if fs and fs[-1].get("name") == fld[1] and fs[-1].get("adt", "").endswith("program::Program"):
                    ex = strip_expr(body.rv_expr(rv))
                    txt = show(ex)
                    if _is_minus_one(ex, fld):
                        dec.add(body.path)
                        continue
                    sound = False   # resets and larger steps let the counter fall behind the real depth
                if rv["k"] == "ref" and rv.get("mut") and any(p["k"] == "field" and p.get("name") == fld[1] and
                                                               p.get("adt", "").endswith("program::Program") for p in rv["place"]["proj"][-1:]):
                    sound = False
            for (b2, i2, pl2, rv2, sp2) in aggregates_of(body, "program::Program"):
                names = rv2.get("fields", [])
                if fld[1] in names:
                    v = strip_expr(body.expr(rv2["ops"][names.index(fld[1])]))
                    if not (v[0] == "const" and v[1].get("int") == 0):
                        sound = False
        # every give-back is paired: along every path of every caller the balance (successful enters minus leaves) never
        # drops below zero, so the counter never falls behind the number of active guarded frames
        if sound:
            for body in F.bodies.values():
                if not any(c.callee in dec for c in body.calls()):
                    continue
                if not _balanced(body, g, dec):
                    sound = False
        if sound:
            out[g] = (fld[1], limit, dec)
    return out


def balanced_counter_fields(F):
    """Fields of Program that are depth counters (counter_guard_fns) and that every user returns as it found them: on every
    path to a return of every function calling the guard, successful enters and leaves cancel out.  Such a field is 0
    whenever no guarded evaluation is active, i.e. between host calls."""
    out = {}
    for g, (field, limit, leaves) in counter_guard_fns(F).items():
        ok = True
        n = 0
        for body in F.bodies.values():
            if not any(c.callee == g or c.callee in leaves for c in body.calls()):
                continue
            n += 1
            if not _balanced(body, g, leaves, exact=True):
                ok = False
        if ok and n:
            out[field] = "depth counter of %s: every successful enter is matched by one leave on every path of its %d users" % (g.split("::")[-1], n)
    return out


def _is_minus_one(ex, fld):
    """field.saturating_sub(1) / field - 1 / (field - 1 with overflow check).0"""
    ex = strip_expr(ex)
    if ex[0] == "call" and ex[1].split("::")[-1] in ("saturating_sub", "wrapping_sub"):
        a, b = strip_expr(ex[2][0]), strip_expr(ex[2][1])
        return _field_of(a, "program::Program") == fld and b[0] == "const" and b[1].get("int") == 1
    if ex[0] == "binop" and ex[1] in ("Sub", "SubWithOverflow"):
        a, b = strip_expr(ex[2]), strip_expr(ex[3])
        return _field_of(a, "program::Program") == fld and b[0] == "const" and b[1].get("int") == 1
    if ex[0] == "place" and isinstance(ex[1], tuple):
        return _is_minus_one(ex[1], fld)
    return False


def _balanced(body, enter, leaves, exact=False):
    from lib import on_ok_arm
    try:
        paths = body.paths(limit=20000)
    except OverflowError:
        return False
    for p in paths:
        bal = 0
        if exact and body.term(p[-1])["k"] != "return":
            continue
        for idx, b in enumerate(p):
            c = body.call_at(b)
            if c is None:
                continue
            if c.callee == enter:
                # counts only if the path continues on the success arm
                nxt = p[idx + 1:] if idx + 1 < len(p) else []
                if any(on_ok_arm(body, c, x) for x in nxt[:6]):
                    bal += 1
            elif c.callee in leaves:
                bal -= 1
                if bal < 0:
                    return False
        if exact and bal != 0:
            return False
    return True


def aggregates_of(body, adt_suffix):
    from lib import aggregates
    return list(aggregates(body, adt_suffix))


def recursion_rule(ck, F, G, seen, P):
    """A4: every cycle of the call graph (within the reachable set) must pass a depth-guarded call site."""
    import vetted
    from lib import on_ok_arm
    guards = depth_guard_fns(F)
    counters = counter_guard_fns(F)
    ck.note("%s.depth_guard_functions" % P, sorted(guards))
    ck.note("%s.depth_counter_functions" % P, {g: {"field": v[0], "limit": v[1], "decremented_in": sorted(v[2])} for g, v in counters.items()})

    def counter_guarded(body, c):
        """the call is on the success arm of an `enter` call and the counter is not given back before it"""
        for gc in body.calls():
            if gc.callee not in counters or not on_ok_arm(body, gc, c.bb):
                continue
            leaves = counters[gc.callee][2]
            early = [l for l in body.calls() if l.callee in leaves and l.bb != c.bb and gc.target is not None and
                     body.reaches(gc.target, l.bb) and body.reaches(l.bb, c.bb)]
            if not early:
                return True
        return False
    sccs = G.sccs(set(seen))
    n_cycles = 0
    for comp in sccs:
        comp = set(comp)
        # classify call sites inside the SCC
        unguarded = {}
        for u in comp:
            body = F.bodies[u]
            ordinal = {}
            for c in body.calls():
                v = c.callee
                if v not in comp:
                    continue
                n = ordinal.get(v, 0) + 1
                ordinal[v] = n
                g = any(vetted.on_continue_arm_of(body, gf.split("::", 1)[-1] if False else gf, c.bb) for gf in guards) \
                    or counter_guarded(body, c)
                if not g:
                    unguarded.setdefault(u, []).append((v, n, c))
            # address-taken / closure / callback edges have no call site: treat as unguarded
            for v in G.edges.get(u, ()):
                if v in comp and not any(c.callee == v for c in body.calls()):
                    unguarded.setdefault(u, []).append((v, 0, None))
        # back edges of a deterministic DFS over the unguarded sub-graph, started at the SCC's entry points
        # (functions called from outside the SCC): these are the calls that re-enter an active function
        adj = {}
        for u, lst in unguarded.items():
            for (v, n, c) in lst:
                adj.setdefault(u, []).append((v, n, c))
        for u in adj:
            adj[u].sort(key=lambda x: (x[0], x[1]))
        entries = sorted(v for v in comp if any(v in G.edges.get(u, ()) for u in seen if u not in comp) or v in seen and seen.get(v) is None)
        if not entries:
            entries = sorted(comp)[:1]
        color = {}
        backs = []

        def dfs(u):
            color[u] = 1
            for (v, n, c) in adj.get(u, ()):
                if color.get(v, 0) == 0:
                    dfs(v)
                elif color.get(v) == 1:
                    backs.append((u, v, n, c))
            color[u] = 2

        for e0 in entries + sorted(comp):
            if color.get(e0, 0) == 0:
                dfs(e0)
        for (u, v, n, c) in backs:
            n_cycles += 1
            ck.bad("%s:REC:%s->%s#%d" % (P, u.split("::", 1)[1], v.split("::")[-1], n), "recursion guard",
                   "call %s -> %s (call site %d) re-enters a function that is already active and passes no depth guard: "
                   "native stack depth grows with the nesting of the input (parentheses, subscripts, arguments, "
                   "IF..THEN IF) and is bounded only by line length -- thousands of levels abort the process"
                   % (u, v, n), c.span if c is not None else F.bodies[u].span)
    ck.note("%s.sccs" % P, [sorted(x.split("::")[-1] for x in comp)[:20] for comp in sccs])
    if n_cycles == 0:
        ck.ok("%s:REC:all-cycles-guarded" % P, "recursion guard", "every call-graph cycle passes a depth-guarded call site")
    return sccs
