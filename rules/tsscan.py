"""A10: structural scan of abasic-web/ts/main.ts (no TypeScript front end is installed).

Answers two questions only: which adapter methods (`this.impl.X(...)`) are called where, and under which
`state === JsInterpreterState.Y` / `case JsInterpreterState.Y:` guards, with `state` bound from
`this.impl.get_state()` in the same method and no adapter call in between (other than in exclusive
branches).  Anything it cannot parse inside `class Interpreter` counts as unguarded.  This is the one
syntactic (not type-resolved) analysis in the machinery and is labelled as such in the evidence.
"""
import os
import re


def tokenize(src):
    """-> list of (kind, text, line); kinds: id, num, str, punct"""
    toks = []
    i, n, line = 0, len(src), 1
    prev_sig = None
    while i < n:
        c = src[i]
        if c == "\n":
            line += 1
            i += 1
            continue
        if c.isspace():
            i += 1
            continue
        if src.startswith("//", i):
            j = src.find("\n", i)
            i = n if j < 0 else j
            continue
        if src.startswith("/*", i):
            j = src.find("*/", i + 2)
            j = n if j < 0 else j + 2
            line += src.count("\n", i, j)
            i = j
            continue
        if c in "\"'":
            j = i + 1
            while j < n and src[j] != c:
                if src[j] == "\\":
                    j += 1
                j += 1
            toks.append(("str", src[i:j + 1], line))
            i = j + 1
            prev_sig = "str"
            continue
        if c == "`":
            j = i + 1
            depth = 0
            while j < n:
                if src[j] == "\\":
                    j += 2
                    continue
                if src.startswith("${", j):
                    depth += 1
                    j += 2
                    continue
                if src[j] == "}" and depth > 0:
                    depth -= 1
                elif src[j] == "`" and depth == 0:
                    break
                j += 1
            line += src.count("\n", i, j)
            toks.append(("str", src[i:j + 1], line))
            i = j + 1
            prev_sig = "str"
            continue
        if c == "/" and prev_sig in (None, "(", ",", "=", ":", "[", "!", "&", "|", "?", "{", "}", ";", "return"):
            # regex literal
            j = i + 1
            in_class = False
            while j < n and (src[j] != "/" or in_class):
                if src[j] == "\\":
                    j += 1
                elif src[j] == "[":
                    in_class = True
                elif src[j] == "]":
                    in_class = False
                elif src[j] == "\n":
                    break
                j += 1
            j += 1
            while j < n and src[j].isalpha():
                j += 1
            toks.append(("str", src[i:j], line))
            i = j
            prev_sig = "str"
            continue
        if c.isalpha() or c in "_$":
            j = i
            while j < n and (src[j].isalnum() or src[j] in "_$"):
                j += 1
            toks.append(("id", src[i:j], line))
            prev_sig = src[i:j]
            i = j
            continue
        if c.isdigit():
            j = i
            while j < n and (src[j].isalnum() or src[j] == "."):
                j += 1
            toks.append(("num", src[i:j], line))
            prev_sig = "num"
            i = j
            continue
        for op in ("===", "!==", "=>", "==", "!=", "&&", "||", "<=", ">=", "?.", "++", "--", "+=", "-="):
            if src.startswith(op, i):
                toks.append(("punct", op, line))
                prev_sig = op[-1]
                i += len(op)
                break
        else:
            toks.append(("punct", c, line))
            prev_sig = c
            i += 1
    return toks


def match_close(toks, i, open_, close):
    depth = 0
    j = i
    while j < len(toks):
        t = toks[j][1]
        if toks[j][0] == "punct":
            if t == open_:
                depth += 1
            elif t == close:
                depth -= 1
                if depth == 0:
                    return j
        j += 1
    return None


class Call:
    def __init__(self, method, line, fn, guards, branch_path, idx):
        self.method = method
        self.line = line
        self.fn = fn
        self.guards = guards          # list of condition texts / case labels (outermost first)
        self.branch_path = branch_path  # [(construct id, branch index)]
        self.idx = idx                # token index

    def __repr__(self):
        return "impl.%s @%s:%d guards=%s" % (self.method, self.fn, self.line, self.guards)


def text(toks, a, b):
    return " ".join(t[1] for t in toks[a:b])


def scan_block(toks, a, b, fn, guards, bpath, out, state_binds, counter):
    """Walk tokens[a:b] (a statement list), recording this.impl.X( calls with their guard context."""
    i = a
    while i < b:
        k, t, line = toks[i]
        if k == "id" and t == "if" and i + 1 < b and toks[i + 1][1] == "(":
            cid = counter[0]
            counter[0] += 1
            branch = 0
            prior = []
            while True:
                pc = match_close(toks, i + 1, "(", ")")
                if pc is None:
                    return False
                cond = text(toks, i + 2, pc)
                # calls inside the condition itself
                scan_block(toks, i + 2, pc, fn, guards, bpath, out, state_binds, counter)
                j = pc + 1
                if j < b and toks[j][1] == "{":
                    bc = match_close(toks, j, "{", "}")
                    if bc is None:
                        return False
                    scan_block(toks, j + 1, bc, fn, guards + [("if", cond)], bpath + [(cid, branch)], out, state_binds, counter)
                    j = bc + 1
                else:
                    # single statement up to ';'
                    e = j
                    while e < b and toks[e][1] != ";":
                        e += 1
                    scan_block(toks, j, e, fn, guards + [("if", cond)], bpath + [(cid, branch)], out, state_binds, counter)
                    j = e + 1
                prior.append(cond)
                branch += 1
                if j < b and toks[j][1] == "else":
                    if j + 1 < b and toks[j + 1][1] == "if":
                        i = j + 1
                        continue
                    if j + 1 < b and toks[j + 1][1] == "{":
                        bc = match_close(toks, j + 1, "{", "}")
                        if bc is None:
                            return False
                        scan_block(toks, j + 2, bc, fn, guards + [("else", " ; ".join(prior))], bpath + [(cid, branch)], out,
                                   state_binds, counter)
                        j = bc + 1
                i = j
                break
            continue
        if k == "id" and t == "switch" and i + 1 < b and toks[i + 1][1] == "(":
            pc = match_close(toks, i + 1, "(", ")")
            if pc is None or toks[pc + 1][1] != "{":
                return False
            subject = text(toks, i + 2, pc)
            bc = match_close(toks, pc + 1, "{", "}")
            if bc is None:
                return False
            cid = counter[0]
            counter[0] += 1
            # split into case groups
            j = pc + 2
            labels = []
            seg_start = None
            case_no = 0
            depth = 0
            while j <= bc:
                tk = toks[j]
                at_end = j == bc
                if not at_end and tk[0] == "punct" and tk[1] in "{([":
                    depth += 1
                elif not at_end and tk[0] == "punct" and tk[1] in "})]":
                    depth -= 1
                if at_end or (depth == 0 and tk[0] == "id" and tk[1] in ("case", "default")):
                    if seg_start is not None and labels:
                        # statements of the previous group: seg_start..j
                        has_stmts = any(x[1] not in (":",) for x in toks[seg_start:j])
                        if has_stmts:
                            scan_block(toks, seg_start, j, fn, guards + [("case", subject, tuple(labels))],
                                       bpath + [(cid, case_no)], out, state_binds, counter)
                            # fallthrough ends at break/return; be conservative: a group without break keeps labels
                            txt = [x[1] for x in toks[seg_start:j]]
                            if "break" in txt or "return" in txt or "throw" in txt:
                                labels = []
                            case_no += 1
                    if at_end:
                        break
                    # read the label up to ':'
                    e = j + 1
                    while e < bc and toks[e][1] != ":":
                        e += 1
                    lab = text(toks, j + 1, e) if tk[1] == "case" else "default"
                    labels.append(lab)
                    seg_start = e + 1
                    j = e + 1
                    continue
                j += 1
            i = bc + 1
            continue
        if k == "id" and t in ("for", "while") and i + 1 < b and toks[i + 1][1] == "(":
            pc = match_close(toks, i + 1, "(", ")")
            if pc is None:
                return False
            j = pc + 1
            if j < b and toks[j][1] == "{":
                bc = match_close(toks, j, "{", "}")
                if bc is None:
                    return False
                scan_block(toks, j + 1, bc, fn, guards + [("loop", text(toks, i + 2, pc))], bpath, out, state_binds, counter)
                i = bc + 1
                continue
        # const state = this.impl.get_state();
        if k == "id" and t in ("const", "let", "var") and i + 6 < b and toks[i + 2][1] == "=" and \
                text(toks, i + 3, i + 8) == "this . impl . get_state":
            state_binds.append((toks[i + 1][1], i, tuple(bpath)))
        # this.impl.X(
        if k == "id" and t == "this" and i + 5 < len(toks) and toks[i + 1][1] == "." and toks[i + 2][1] == "impl" and \
                toks[i + 3][1] == "." and toks[i + 4][0] == "id" and toks[i + 5][1] == "(":
            out.append(Call(toks[i + 4][1], line, fn, list(guards), list(bpath), i))
        i += 1
    return True


def scan(path):
    """-> (calls, methods, problems)"""
    with open(path) as f:
        src = f.read()
    toks = tokenize(src)
    problems = []
    # class Interpreter { ... }
    ci = None
    for i in range(len(toks) - 2):
        if toks[i][1] == "class" and toks[i + 1][1] == "Interpreter" and toks[i + 2][1] == "{":
            ci = i + 2
            break
    if ci is None:
        return [], {}, ["class Interpreter not found"]
    ce = match_close(toks, ci, "{", "}")
    if ce is None:
        return [], {}, ["class Interpreter body does not close"]
    calls = []
    methods = {}
    i = ci + 1
    counter = [0]
    while i < ce:
        # member: [modifiers] name ( params ) [: type] { body }   |   name = ( params ) => { body }   | field
        j = i
        while j < ce and toks[j][0] == "id" and toks[j][1] in ("private", "public", "protected", "readonly", "static", "async"):
            j += 1
        if j < ce and toks[j][0] == "id":
            name = toks[j][1]
            k = j + 1
            body = None
            if k < ce and toks[k][1] == "(":
                pc = match_close(toks, k, "(", ")")
                if pc is None:
                    problems.append("unbalanced parameter list of %s" % name)
                    break
                # constructor params may declare `private readonly impl`
                k2 = pc + 1
                while k2 < ce and toks[k2][1] != "{" and toks[k2][1] != ";":
                    k2 += 1
                if k2 < ce and toks[k2][1] == "{":
                    be = match_close(toks, k2, "{", "}")
                    body = (k2 + 1, be)
            elif k < ce and toks[k][1] == "=":
                # arrow function property or plain field
                k2 = k + 1
                if toks[k2][1] == "(":
                    pc = match_close(toks, k2, "(", ")")
                    if pc is not None and toks[pc + 1][1] == "=>" and toks[pc + 2][1] == "{":
                        be = match_close(toks, pc + 2, "{", "}")
                        body = (pc + 3, be)
                if body is None:
                    while k2 < ce and toks[k2][1] != ";":
                        k2 += 1
                    i = k2 + 1
                    continue
            if body is not None and body[1] is not None:
                binds = []
                ok = scan_block(toks, body[0], body[1], name, [], [], calls, binds, counter)
                if not ok:
                    problems.append("could not parse the body of %s" % name)
                methods[name] = {"binds": binds, "range": body}
                i = body[1] + 1
                # optional trailing ';'
                if i < ce and toks[i][1] == ";":
                    i += 1
                continue
        i += 1
    return calls, methods, problems


REQUIRES = {
    "start_evaluating": ("Idle",),
    "continue_evaluating": ("Running",),
    "provide_input": ("AwaitingInput",),
    "take_latest_error": ("Errored",),
}


def exclusive(a, b):
    da = dict(a)
    for cid, br in b:
        if cid in da and da[cid] != br:
            return True
    return False


def guard_ok(call, methods, all_calls, enum="JsInterpreterState"):
    """Is `call` under a state guard implying its precondition, with state bound from get_state() in the
    same method and no other adapter call between binding and use (outside exclusive branches)?"""
    need = REQUIRES.get(call.method)
    if need is None:
        return True, "no precondition"
    m = methods.get(call.fn)
    if m is None:
        return False, "enclosing method not parsed"
    binds = [b for b in m["binds"] if b[1] < call.idx]
    if not binds:
        return False, "no `const state = this.impl.get_state()` before the call in %s" % call.fn
    var, bidx, bpath = binds[-1]
    found = None
    for g in call.guards:
        if g[0] == "if":
            cond = g[1]
            for st in need:
                if re.search(r"\b%s\s*===\s*%s\s*\.\s*%s\b" % (re.escape(var), enum, st), cond) and "||" not in cond:
                    found = "if (%s)" % cond
        elif g[0] == "case":
            subj, labels = g[1], g[2]
            if subj.strip() == var and labels and all(any(re.fullmatch(r"%s\s*\.\s*%s" % (enum, st), lab.strip()) for st in need)
                                                       for lab in labels):
                found = "switch (%s) case %s" % (subj, ", ".join(labels))
    if found is None:
        return False, "not under a `%s === %s.%s` guard (guards: %s)" % (var, enum, "|".join(need), call.guards or "none")
    # no adapter call that can change state between the binding and this call, unless in an exclusive branch
    for other in all_calls:
        if other is call or other.fn != call.fn:
            continue
        if bidx < other.idx < call.idx and other.method not in ("get_state", "take_latest_output") and \
                not exclusive(other.branch_path, call.branch_path):
            return False, "adapter call impl.%s (line %d) lies between get_state() and this call" % (other.method, other.line)
    return True, found
