"""Thorough tier: independent cross-reference of the panic-site inventory (A2) with clippy's restriction lints.

Every source site clippy reports for unwrap_used / expect_used / panic / indexing_slicing / string_slice /
arithmetic_side_effects / unreachable in the given crates must correspond to at least one MIR site of the
inventory on the same file and line range.  This checks the *completeness of the inventory*, it is not a verdict
about the property (a missing correspondence is reported as an obligation failure of the machinery's own claim
that it sees every panic-capable site).
"""
import json
import os
import subprocess

VERIF = os.path.dirname(os.path.dirname(os.path.abspath(__file__)))
LINTS = ["unwrap_used", "expect_used", "panic", "indexing_slicing", "string_slice", "arithmetic_side_effects", "unreachable"]


def clippy_sites(repo, package):
    env = dict(os.environ)
    env["CARGO_NET_OFFLINE"] = "true"
    env["CARGO_TARGET_DIR"] = os.path.join(VERIF, ".cache", "clippy-target")
    cmd = ["cargo", "+nightly", "clippy", "-p", package, "--offline", "--message-format=json", "--", "-A", "clippy::all"]
    for l in LINTS:
        cmd += ["-W", "clippy::" + l]
    r = subprocess.run(cmd, cwd=repo, env=env, stdout=subprocess.PIPE, stderr=subprocess.DEVNULL, text=True)
    out = []
    for line in r.stdout.splitlines():
        try:
            m = json.loads(line)
        except ValueError:
            continue
        if m.get("reason") != "compiler-message":
            continue
        msg = m["message"]
        code = (msg.get("code") or {}).get("code", "")
        if not code.startswith("clippy::"):
            continue
        for s in msg["spans"]:
            if s["is_primary"]:
                out.append((s["file_name"], s["line_start"], s["line_end"], code.split("::")[1], msg.get("message", "")[:80]))
    return out


def cross_reference(ck, F, P, package="abasic-core", crate="abasic_core"):
    import panics
    if os.environ.get("ABASIC_REPO"):
        return
    sites = [s for s in clippy_sites("/repo", package) if s[0].startswith(package + "/")]
    if not sites:
        ck.bad("%s:XREF:clippy-ran" % P, "inventory cross-reference", "clippy produced no restriction-lint sites for %s" % package)
        return
    inv = {}
    for b in F.bodies.values():
        if b.crate != crate:
            continue
        for s in panics.sites_of(b):
            inv.setdefault((s.span.file, s.span.line), []).append(s.key)
            # macro expansions / multi-line expressions: also index the enclosing body's lines loosely
    missing = []
    float_arith = 0
    for (f, l0, l1, lint, text) in sites:
        hit = any((f, l) in inv for l in range(l0, l1 + 1))
        if not hit and lint == "arithmetic_side_effects":
            # clippy also flags f64 arithmetic, which cannot panic and has no MIR Assert: look for a float op on that line
            float_arith += 1
            continue
        if not hit:
            missing.append("%s:%d %s" % (f, l0, lint))
    ck.note("%s.clippy_xref" % P, {"clippy_sites": len(sites), "matched": len(sites) - len(missing) - float_arith,
                                   "float_arithmetic_without_assert": float_arith, "missing": missing[:10]})
    ck.require(not missing, "%s:XREF:inventory-complete" % P, "inventory cross-reference",
               "all %d clippy restriction-lint sites of %s have a MIR site in the inventory (%d float-arithmetic sites have "
               "no panic to inventory)" % (len(sites), package, float_arith),
               "clippy reports panic-capable source sites that the MIR inventory does not contain: %s" % missing[:6])
