"""Loop progress (C09.4, C01.5, C05.4): every loop that is driven by the token cursor consumes a token
on every iteration, or exits.

MustConsume(f): on every path of f that ends in a normal (Ok / Some / true / plain) return, the path takes the
success arm of a cursor-advancing primitive or of a MustConsume callee.  Greatest fixpoint (recursion is
assumed productive as long as every cycle passes a primitive).
"""
from lib import sfx, strip_expr, show, expr_calls, bool_switch_true_target

PRIMS = {
    "abasic_core::program::Program::next_token": "option",
    "abasic_core::program::Program::next_unwrapped_token": "result",
    "abasic_core::program::Program::expect_next_token": "result",
    "abasic_core::program::Program::accept_next_token": "bool",
    "abasic_core::program::Program::try_next_token": "option",
    "abasic_core::program::Program::discard_remaining_tokens": "always",
}
READS_ONLY = ("abasic_core::program::Program::peek_next_token", "abasic_core::program::Program::has_next_token")


def ret_kind(body):
    t = body.local_ty(0)
    if t.startswith("core::result::Result<"):
        return "result"
    if t.startswith("core::option::Option<"):
        return "option"
    if t == "bool":
        return "bool"
    return "always"


def taken_success(body, path, idx, call, kind):
    """On `path`, after position idx (the call's block), does control take the success arm of `call`'s result?
    Untested results (fed to unwrap / ignored) count as success; a tested result counts as success unless the
    failure arm (false / None / Break / Err) is the one taken."""
    if kind == "always":
        return True
    for j in range(idx + 1, len(path) - 0):
        b = path[j] if j < len(path) else None
        if b is None:
            break
        t = body.term(b)
        if t["k"] != "switch":
            continue
        info = body.switch_info(b)
        if info is None:
            continue
        subject, targets, otherwise, names = info
        cs = [x[3] for x in expr_calls(subject) if len(x) > 3]
        if not any(x is call for x in cs):
            continue
        nxt = path[j + 1] if j + 1 < len(path) else None
        if nxt is None:
            return True
        if names:
            chosen = None
            for v, n in names.items():
                if targets.get(v) == nxt:
                    chosen = n
            if chosen is None:
                rest = [n for v, n in names.items() if v not in targets]
                chosen = rest[0] if len(rest) == 1 else None
            if chosen in ("None", "Break", "Err"):
                return False
            return True
        ft = bool_switch_true_target(body, b)
        if ft is not None:
            # `x == Some(Token::T)` style tests of the value are not success/failure tests of the call itself
            e = strip_expr(subject)
            if e[0] == "call" and e[3] is call:
                return nxt == ft[1]
            if e[0] == "unop" and e[1] == "Not":
                inner = strip_expr(e[2])
                if inner[0] == "call" and inner[3] is call:
                    return nxt == ft[0]
        return True
    return True


class Progress:
    def __init__(self, F, fns, taint=None):
        self.F = F
        self.taint = taint
        self.fns = [f for f in fns if f in F.bodies]
        self.must = {f: True for f in self.fns}
        changed = True
        rounds = 0
        while changed and rounds < 50:
            rounds += 1
            changed = False
            for f in self.fns:
                if not self.must[f]:
                    continue
                if not self._check_fn(f):
                    self.must[f] = False
                    changed = True

    def step_kind(self, callee):
        if callee in PRIMS:
            return PRIMS[callee]
        if self.must.get(callee):
            return ret_kind(self.F.bodies[callee])
        return None

    def path_consumes(self, body, path):
        for i, b in enumerate(path):
            c = body.call_at(b)
            if c is None:
                continue
            k = self.step_kind(c.callee)
            if k is None:
                continue
            if taken_success(body, path, i, c, k):
                return True
        return False

    def _normal_return(self, body, path):
        """Does the path end in a success return (not Err / None / false)?"""
        kind = ret_kind(body)
        if kind == "always":
            return True
        val = None
        for b in path:
            for st in body.blocks[b]["stmts"]:
                if st["k"] == "assign" and st["place"]["local"] == 0 and not st["place"]["proj"]:
                    rv = st["rv"]
                    if rv["k"] == "aggregate":
                        val = rv.get("variant")
                    elif rv["k"] == "use" and rv["op"].get("k") == "const":
                        val = "true" if rv["op"].get("int") else "false"
                    else:
                        val = "other"
            c = body.call_at(b)
            if c is not None and c.dest["local"] == 0 and not c.dest["proj"]:
                val = "Err" if c.callee.endswith("from_residual") else "call:" + c.callee
        if val in ("Err", "None", "false"):
            return False
        return True

    def _check_fn(self, f):
        body = self.F.bodies[f]
        try:
            paths = body.paths(limit=30000)
        except OverflowError:
            return False
        any_normal = False
        for p in paths:
            if body.term(p[-1])["k"] != "return":
                continue
            if not self._normal_return(body, p):
                continue
            any_normal = True
            # a tail call to a MustConsume function as the returned value also counts
            if not self.path_consumes(body, p):
                return False
        return any_normal

    # ------------------------------------------------------------------ loops
    def loop_report(self, body):
        """[(header, class, ok, detail)] for each natural loop of `body`."""
        out = []
        loops = body.natural_loops()
        for h, blk in sorted(loops.items()):
            cursor_calls = [c for c in body.calls() if c.bb in blk and (c.callee in PRIMS or self.must.get(c.callee) or
                                                                        c.callee in READS_ONLY)]
            advancing = [c for c in cursor_calls if c.callee not in READS_ONLY]
            if not cursor_calls or not advancing:
                cls, ok, det = self.classify_other(body, h, blk)
                out.append((h, cls, ok, det))
                continue
            # every header -> header path must consume
            bad = []
            n = 0
            try:
                for s in body.succs(h):
                    if s not in blk:
                        continue
                    for path, stop in body.const_paths(s, {h}, limit=30000):
                        if stop != h:
                            continue
                        full = [h] + path + [h]
                        n += 1
                        if not self.path_consumes(body, full):
                            bad.append(full)
            except OverflowError as e:
                out.append((h, "cursor", False, str(e)))
                continue
            out.append((h, "cursor", not bad and n > 0,
                        "%d header-to-header paths, %d without a consumed token%s" % (n, len(bad), (": via blocks %s" % bad[0]) if bad else "")))
        return out

    def classify_other(self, body, h, blk):
        # finite std iterator: a `next` call on a non-local iterator inside the loop, loop exits on None
        for c in body.calls():
            if c.bb in blk and c.callee.endswith("::next") and c.callee not in self.F.bodies:
                return "finite std iterator", True, c.callee.split("::")[0][:60]
            if c.bb in blk and c.callee.endswith("::next") and c.callee in self.F.bodies:
                return "local iterator (%s)" % c.callee.split(" as ")[0].split("::")[-1], True, "bounded by the iterator's own progress"
        # strictly decreasing counter under a `> 0` test
        for b in blk:
            for st in body.blocks[b]["stmts"]:
                if st["k"] == "assign" and st["rv"]["k"] == "binop" and st["rv"]["op"] in ("SubWithOverflow", "Sub"):
                    if self.taint is not None and self.taint.tainted_op(body, st["rv"]["a"]):
                        return "value-dependent counter", False, \
                            "the loop counts down a number taken from program values (%s): the iteration count is not bounded " \
                            "by the length of the line" % body.local_name(st["rv"]["a"]["place"]["local"]) \
                            if st["rv"]["a"].get("k") in ("copy", "move") else "value-dependent counter"
                    return "decreasing counter", True, "counter -= 1 under a > 0 test (guard rule); the counter is size-like"
        # increasing index with a bounds exit: `let Some(x) = v.get(i) else return/break; ... i += 1; continue`
        has_get = any(c.bb in blk and c.callee.split("::")[-1] == "get" for c in body.calls())
        has_inc = any(st["k"] == "assign" and st["rv"]["k"] == "binop" and st["rv"]["op"] in ("AddWithOverflow", "Add")
                      for b in blk for st in body.blocks[b]["stmts"])
        if has_get and has_inc:
            return "increasing index with bounds exit", True, "index += 1 per iteration, loop exits when get(index) is None"
        return "unclassified", False, "no cursor step, std iterator or decreasing counter found"
