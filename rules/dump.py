"""Debug aid: pretty-print the extracted MIR of a function.  python3 rules/dump.py <suffix>"""
import sys, os
sys.path.insert(0, os.path.dirname(os.path.abspath(__file__)))
import extract, mir
from lib import show


def pl(p):
    s = "_%d" % p["local"]
    for pr in p["proj"]:
        k = pr["k"]
        if k == "deref":
            s = "(*%s)" % s
        elif k == "field":
            s = "%s.%s" % (s, pr.get("name", pr["i"]))
        elif k == "downcast":
            s = "(%s as %s)" % (s, pr["variant"])
        elif k == "index":
            s = "%s[_%d]" % (s, pr["local"])
        else:
            s = "%s{%s}" % (s, k)
    return s


def op(o):
    if o["k"] == "const":
        if "str" in o: return "const %r" % o["str"]
        if "int" in o: return "const %s" % o["int"]
        if "float" in o: return "const %s" % o["float"]
        if "fn" in o: return "fn " + mir.norm(o["fn"])
        return "const " + o.get("text", "?")
    if o["k"] in ("copy", "move"):
        return "%s %s" % (o["k"], pl(o["place"]))
    return str(o)


def rv(r):
    k = r["k"]
    if k == "use": return op(r["op"])
    if k == "ref": return ("&mut " if r["mut"] else "&") + pl(r["place"])
    if k == "rawptr": return "&raw " + pl(r["place"])
    if k == "binop": return "%s(%s, %s)" % (r["op"], op(r["a"]), op(r["b"]))
    if k == "unop": return "%s(%s)" % (r["op"], op(r["a"]))
    if k == "cast": return "%s as %s (%s)" % (op(r["op"]), r["to"], r["cast"])
    if k == "discr": return "discriminant(%s)" % pl(r["place"])
    if k == "aggregate":
        nm = r.get("adt") or r.get("closure") or r.get("agg")
        return "%s::%s{%s}" % (mir.norm(nm), r.get("variant", ""), ", ".join(op(o) for o in r["ops"]))
    if k == "repeat": return "[%s; %s]" % (op(r["op"]), r["n"])
    return str(r)[:100]


def dump(b):
    print("fn %s  (%s)  args=%d  %s" % (b.path, b.crate, b.arg_count, b.span))
    for n, l in enumerate(b.locals):
        print("   let _%d: %s  %s" % (n, l["ty"], b.names.get(n, "")))
    for blk in b.blocks:
        if blk["cleanup"]:
            continue
        print(" bb%d:" % blk["bb"])
        for st in blk["stmts"]:
            if st["k"] == "assign":
                print("    %s = %s    // L%d" % (pl(st["place"]), rv(st["rv"]), st["span"]["line"]))
            else:
                print("    %s" % st["k"])
        t = blk["term"]
        k = t["k"]
        if k == "call":
            c = mir.Call(b, blk["bb"], t, blk["tspan"])
            print("    %s = %s(%s) -> bb%s   // L%d %s" % (pl(t["dest"]), c.callee, ", ".join(op(a) for a in t["args"]), t["target"], c.span.line, "[exp:%s]" % c.span.macro if c.span.exp else ""))
        elif k == "switch":
            print("    switch %s [%s, otherwise bb%d]" % (op(t["discr"]), ", ".join("%s:bb%s" % (v, x) for v, x in t["targets"]), t["otherwise"]))
        elif k == "assert":
            print("    assert(%s == %s, %s(%s)) -> bb%d  // L%d" % (op(t["cond"]), t["expected"], t["kind"], ", ".join(op(o) for o in t["ops"]), t["target"], blk["tspan"]["line"]))
        elif k in ("goto", "drop"):
            print("    %s -> bb%d" % (k, t["target"]))
        else:
            print("    %s" % k)


if __name__ == "__main__":
    d, _ = extract.facts_dir()
    F = mir.Facts(d)
    for s in sys.argv[1:]:
        for b in F.find(s):
            dump(b)
