"""Run the fact extractor over /repo's current working tree (cached by tree hash)."""
import fcntl
import glob
import hashlib
import json
import os
import shutil
import subprocess
import sys
import time
import uuid

VERIF = os.path.dirname(os.path.dirname(os.path.abspath(__file__)))
CACHE = os.environ.get("ABASIC_VERIF_CACHE", os.path.join(VERIF, ".cache"))
DRIVER_DIR = os.path.join(VERIF, "driver")
DRIVER = os.path.join(CACHE, "driver-target", "debug", "abasic-facts-driver")
EXTS = (".rs", ".toml", ".lock", ".ts")
CRATE_FILES = ["abasic_core.lib.json", "abasic.bin.json", "abasic_web.lib.json", "abasic_lsp.bin.json"]


def repo_dir():
    return os.environ.get("ABASIC_REPO", "/repo")


def tree_hash(repo):
    h = hashlib.sha256()
    files = []
    for root, dirs, fnames in os.walk(repo):
        dirs[:] = sorted(d for d in dirs if d not in ("target", ".git", "node_modules", "pkg", "dist"))
        for fn in sorted(fnames):
            if fn.endswith(EXTS):
                files.append(os.path.join(root, fn))
    for p in files:
        rel = os.path.relpath(p, repo)
        h.update(rel.encode())
        h.update(b"\0")
        with open(p, "rb") as f:
            h.update(f.read())
        h.update(b"\0")
    # the extractor itself is part of the key
    with open(os.path.join(DRIVER_DIR, "src", "main.rs"), "rb") as f:
        h.update(f.read())
    return h.hexdigest()[:24], len(files)


def nightly_sysroot():
    return subprocess.check_output(["rustc", "+nightly", "--print", "sysroot"], text=True).strip()


def base_env():
    env = dict(os.environ)
    env["CARGO_NET_OFFLINE"] = "true"
    env.pop("RUSTC_WRAPPER", None)
    return env


def build_driver(log=sys.stderr):
    env = base_env()
    env["CARGO_TARGET_DIR"] = os.path.join(CACHE, "driver-target")
    r = subprocess.run(
        ["cargo", "+nightly", "build", "--offline", "--quiet"],
        cwd=DRIVER_DIR, env=env, stdout=subprocess.PIPE, stderr=subprocess.STDOUT, text=True,
    )
    if r.returncode != 0 or not os.path.exists(DRIVER):
        log.write(r.stdout)
        raise RuntimeError("fact extractor failed to build")


def run_extraction(repo, outdir, features_flag=None, log=sys.stderr):
    """One `cargo +nightly check --workspace` through the wrapper; facts land in outdir."""
    if not os.path.exists(DRIVER):
        build_driver(log)
    target = os.path.join(CACHE, "deps-target")
    os.makedirs(target, exist_ok=True)
    # force the workspace members (and only them) back through the wrapper
    for d in glob.glob(os.path.join(target, "debug", ".fingerprint", "abasic*")):
        shutil.rmtree(d, ignore_errors=True)
    os.makedirs(outdir, exist_ok=True)
    nonce = uuid.uuid4().hex
    env = base_env()
    env["LD_LIBRARY_PATH"] = os.path.join(nightly_sysroot(), "lib") + ":" + env.get("LD_LIBRARY_PATH", "")
    env["RUSTFLAGS"] = "-Zmir-opt-level=0 -Awarnings"
    env["RUSTC_WORKSPACE_WRAPPER"] = DRIVER
    env["CARGO_TARGET_DIR"] = target
    env["ABASIC_FACTS_DIR"] = outdir
    env["ABASIC_FACTS_NONCE"] = nonce
    cmd = ["cargo", "+nightly", "check", "--workspace", "--offline"]
    if features_flag:
        cmd += features_flag
    t0 = time.time()
    r = subprocess.run(cmd, cwd=repo, env=env, stdout=subprocess.PIPE, stderr=subprocess.STDOUT, text=True)
    if r.returncode != 0:
        log.write(r.stdout[-6000:])
        raise RuntimeError("cargo check of %s failed (the tree does not compile?)" % repo)
    for fn in CRATE_FILES:
        p = os.path.join(outdir, fn)
        if not os.path.exists(p):
            raise RuntimeError("fact file %s was not written (wrapper skipped?)" % fn)
        with open(p) as f:
            head = f.read(400)
        if nonce not in head:
            raise RuntimeError("fact file %s is stale (nonce mismatch): wrapper skipped" % fn)
    return time.time() - t0


def facts_dir(repo=None, log=sys.stderr):
    """Directory holding fresh facts for the repo's current working tree."""
    repo = repo or repo_dir()
    os.makedirs(CACHE, exist_ok=True)
    th, nfiles = tree_hash(repo)
    final = os.path.join(CACHE, "facts", th)
    marker = os.path.join(final, "OK")
    if os.path.exists(marker):
        return final, {"tree_hash": th, "files_hashed": nfiles, "cached": True}
    lock_path = os.path.join(CACHE, "extract.lock")
    with open(lock_path, "w") as lk:
        fcntl.flock(lk, fcntl.LOCK_EX)
        try:
            if os.path.exists(marker):
                return final, {"tree_hash": th, "files_hashed": nfiles, "cached": True}
            tmp = final + ".tmp.%d" % os.getpid()
            shutil.rmtree(tmp, ignore_errors=True)
            secs = run_extraction(repo, tmp, log=log)
            # tree must not have changed while we were extracting
            th2, _ = tree_hash(repo)
            if th2 != th:
                shutil.rmtree(tmp, ignore_errors=True)
                raise RuntimeError("repository changed during extraction")
            shutil.rmtree(final, ignore_errors=True)
            os.makedirs(os.path.dirname(final), exist_ok=True)
            os.rename(tmp, final)
            with open(marker, "w") as f:
                f.write(json.dumps({"seconds": secs, "repo": repo}))
            _prune(os.path.join(CACHE, "facts"), keep=6)
            return final, {"tree_hash": th, "files_hashed": nfiles, "cached": False, "extract_s": round(secs, 2)}
        finally:
            fcntl.flock(lk, fcntl.LOCK_UN)


def _prune(d, keep):
    try:
        ents = [os.path.join(d, e) for e in os.listdir(d)]
        ents = [e for e in ents if os.path.isdir(e)]
        ents.sort(key=lambda p: os.path.getmtime(p), reverse=True)
        for e in ents[keep:]:
            shutil.rmtree(e, ignore_errors=True)
    except OSError:
        pass


if __name__ == "__main__":
    d, info = facts_dir()
    print(d, info)
