"""Obligations, known findings, evidence, and the check runner."""
import json
import os
import sys
import time

VERIF = os.path.dirname(os.path.dirname(os.path.abspath(__file__)))
EVIDENCE_DIR = os.environ.get("ABASIC_EVIDENCE_DIR") or os.path.join(VERIF, "evidence")
KNOWN = os.path.join(VERIF, "known_findings.json")


class Obligation:
    __slots__ = ("key", "rule", "status", "detail", "where", "how", "nontrivial")

    def __init__(self, key, rule, status, detail, where, how, nontrivial):
        self.key = key
        self.rule = rule
        self.status = status  # discharged | violation | known
        self.detail = detail
        # a Span object, a string or None: always kept as text (the records are written as JSON)
        self.where = where if (where is None or isinstance(where, str)) else str(where)
        self.how = how
        self.nontrivial = nontrivial

    def to_json(self):
        return {
            "key": self.key,
            "rule": self.rule,
            "status": self.status,
            "how": self.how,
            "detail": self.detail,
            "where": self.where,
        }


class Check:
    """Collects obligations for one property run."""

    def __init__(self, pid, tier, seed, level, facts, facts_info):
        self.pid = pid
        self.tier = tier
        self.seed = seed
        self.level = level
        self.facts = facts
        self.facts_info = facts_info
        self.obs = []
        self.notes = {}
        self.t0 = time.time()
        self.explanation = ""
        self.trusted = []
        self.assumptions = []
        self._keys = set()

    # ---------------------------------------------------------------- recording
    def ok(self, key, rule, how, detail="", where=None, nontrivial=True):
        self._add(key, rule, "discharged", detail, where, how, nontrivial)

    def bad(self, key, rule, detail, where=None):
        self._add(key, rule, "violation", detail, where, "", True)

    def require(self, cond, key, rule, how, detail="", where=None, nontrivial=True):
        if cond:
            self.ok(key, rule, how, detail, where, nontrivial)
        else:
            self.bad(key, rule, detail or how, where)
        return cond

    def missing(self, key, what):
        """Fail closed: an anchor the argument needs can no longer be found."""
        self.bad(key, "anchor", "anchor missing: %s -- the argument can no longer be made" % what)

    def floor(self, name, actual, minimum):
        """Instance-count floor (counted by hand on the pinned tree)."""
        self.notes.setdefault("floors", {})[name] = {"actual": actual, "floor": minimum}
        self.require(
            actual >= minimum,
            "FLOOR:%s" % name,
            "instance floor",
            "%d instances >= floor %d" % (actual, minimum),
            "only %d instances of %s found, below the floor of %d confirmed by hand: the rule would pass vacuously"
            % (actual, name, minimum),
            nontrivial=False,
        )

    def _add(self, key, rule, status, detail, where, how, nontrivial):
        if key in self._keys:
            # same obligation reached twice: keep the worst status
            for o in self.obs:
                if o.key == key:
                    if status == "violation" and o.status != "violation":
                        o.status, o.detail, o.where = status, detail, where
                    return
        self._keys.add(key)
        w = str(where) if where is not None else None
        self.obs.append(Obligation(key, rule, status, detail, w, how, nontrivial))

    def note(self, k, v):
        self.notes[k] = v

    # ---------------------------------------------------------------- finishing
    def finish(self):
        known = load_known()
        mine = [k for k in known if k.get("property") == self.pid or self.pid in k.get("properties", [])]
        def keys_of(k):
            ks = {k["key"], "%s:%s" % (self.pid, k["key"])}
            for kk in k.get("keys", []):
                ks.add(kk)
                ks.add("%s:%s" % (self.pid, kk))
            return ks

        open_keys = {}
        fixed_keys = {}
        for k in mine:
            for kk in keys_of(k):
                if k.get("status", "open") == "open":
                    open_keys[kk] = k
                elif str(k.get("status", "")).startswith("fixed"):
                    fixed_keys[kk] = k
        lines = []
        violations = []
        matched = []
        for o in self.obs:
            if o.status == "violation":
                if o.key in open_keys:
                    o.status = "known"
                    matched.append(o.key)
                    lines.append("KNOWN-FINDING: property=%s %s [%s]" % (self.pid, open_keys[o.key]["what_fails"], o.key))
                else:
                    violations.append(o)
        matched_ids = {id(open_keys[m]) for m in matched}
        stale = sorted({k["key"] for k in open_keys.values() if id(k) not in matched_ids})
        vdir = os.path.join(EVIDENCE_DIR, "violations")
        replay_paths = []
        if violations:
            os.makedirs(vdir, exist_ok=True)
            for i, o in enumerate(violations):
                p = os.path.join(vdir, "%s-%d.json" % (self.pid, i))
                with open(p, "w") as f:
                    json.dump(
                        {
                            "property": self.pid,
                            "key": o.key,
                            "rule": o.rule,
                            "detail": o.detail,
                            "where": o.where,
                            "previously_fixed": o.key in fixed_keys,
                            "tree_hash": self.facts_info.get("tree_hash"),
                        },
                        f,
                        indent=1,
                        default=str,
                    )
                replay_paths.append(p)
                lines.append("VIOLATION property=%s replay=%s" % (self.pid, p))
                lines.append("  rule: %s\n  key: %s\n  at: %s\n  %s" % (o.rule, o.key, o.where or "-", o.detail))
        else:
            # remove stale violation files of this property
            if os.path.isdir(vdir):
                for fn in os.listdir(vdir):
                    if fn.startswith(self.pid + "-"):
                        try:
                            os.remove(os.path.join(vdir, fn))
                        except OSError:
                            pass
        n = len(self.obs)
        discharged = sum(1 for o in self.obs if o.status == "discharged")
        nontrivial = len({o.key for o in self.obs if o.nontrivial and o.status != "violation"})
        samples = [o.to_json() for o in self.obs if o.nontrivial][:14]
        by_rule = {}
        for o in self.obs:
            r = by_rule.setdefault(o.rule, {"discharged": 0, "known": 0, "violation": 0})
            r[o.status] += 1
        cov = {
            "evaluations": n,
            "distinct_nontrivial": nontrivial,
            "rule": "one evaluation = one obligation instance of a static rule evaluated on the MIR/ADT facts of "
            "/repo's current tree; non-trivial = needed a real discharge (guard found, effect set computed, "
            "table row compared, interval bounded), not a bare absence; distinct = distinct obligation keys",
            "samples": samples,
            "obligations": n,
            "discharged": discharged,
            "checker_cmd": "bin/check %s --tier %s" % (self.pid, self.tier),
            "trusted_base": self.trusted
            + [
                "rustc nightly front end: type checking, trait resolution, MIR construction at -Zmir-opt-level=0",
                "driver/ fact extractor serialises MIR faithfully",
                "std library semantics of the resolved callees named in the rules",
            ],
            "explanation": self.explanation,
            "exhaustive": False,
            "by_rule": by_rule,
            "known_findings_matched": matched,
            "stale_known_findings": stale,
            "facts": self.facts_info,
            "functions_analysed": len(self.facts.bodies) if self.facts else 0,
            "notes": self.notes,
            "all_obligations": [o.to_json() for o in self.obs],
        }
        ev = {
            "property_id": self.pid,
            "tier": self.tier,
            "seed": self.seed,
            "level": self.level,
            "coverage": cov,
            "assumptions": self.assumptions,
            "wall_s": round(time.time() - self.t0, 3),
            "violations": len(violations),
        }
        os.makedirs(EVIDENCE_DIR, exist_ok=True)
        with open(os.path.join(EVIDENCE_DIR, "%s.json" % self.pid), "w") as f:
            json.dump(ev, f, indent=1, default=str)
        for ln in lines:
            print(ln)
        print(
            "%s tier=%s obligations=%d discharged=%d known=%d violations=%d (%.1fs)"
            % (self.pid, self.tier, n, discharged, len(matched), len(violations), time.time() - self.t0)
        )
        return 1 if violations else 0


def load_known():
    if not os.path.exists(KNOWN):
        return []
    with open(KNOWN) as f:
        return json.load(f).get("findings", [])


class Rekeyed:
    """A view of a Check that files another property's rules under this property's keys: C15 ("loading with the static check
    equals typing in") depends on the analyzer not refusing what runs, which C06's operand-kind tables decide; the same rule
    instances are necessary conditions of both properties."""

    def __init__(self, ck, old, new):
        self._ck, self._old, self._new = ck, old, new

    def _k(self, x):
        if isinstance(x, str) and (x.startswith(self._old + ":") or x.startswith(self._old + ".")):
            return self._new + x[len(self._old):]
        return x

    def ok(self, key, *a, **kw):
        return self._ck.ok(self._k(key), *a, **kw)

    def bad(self, key, *a, **kw):
        return self._ck.bad(self._k(key), *a, **kw)

    def require(self, cond, key, *a, **kw):
        return self._ck.require(cond, self._k(key), *a, **kw)

    def missing(self, key, *a, **kw):
        return self._ck.missing(self._k(key), *a, **kw)

    def floor(self, name, *a, **kw):
        return self._ck.floor(self._k(name), *a, **kw)

    def __getattr__(self, n):
        return getattr(self._ck, n)
