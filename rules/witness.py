"""Thorough tier: compile_fail witnesses for the crate-boundary part of the who-may-write arguments.

`cargo +nightly test --doc --offline` on /verif/witnesses (path-depends on /repo/abasic-core).  A witness is a doctest
marked compile_fail with an error code (E0616 private field, E0603 private module, E0451 private field in a struct
literal) plus a compiling twin (no_run) that differs only in the offending line.  Nothing is executed.
"""
import os
import re
import shutil
import subprocess

VERIF = os.path.dirname(os.path.dirname(os.path.abspath(__file__)))

USES = {
    "StateIsPrivate": ("C01", "C10", "C19"),
    "InputIsPrivate": ("C08", "C10"),
    "ProgramIsPrivate": ("C04", "C10", "C11", "C07", "C01", "C05"),   # C01/C05: the depth counter has no writer outside the crate
    "RngIsPrivate": ("C18",),
    "VariablesArePrivate": ("C10", "C16"),
    "LineStoreIsPrivate": ("C04", "C11"),
    "ProgramTypeIsPrivate": ("C04", "C11"),
    "ErrorsOriginateInside": ("C01",),
}


def run_witnesses():
    wdir = os.path.join(VERIF, "witnesses")
    lock = os.path.join("/repo", "Cargo.lock")
    if os.path.exists(lock):
        shutil.copy(lock, os.path.join(wdir, "Cargo.lock"))
    env = dict(os.environ)
    env["CARGO_NET_OFFLINE"] = "true"
    env["CARGO_TARGET_DIR"] = os.path.join(VERIF, ".cache", "witness-target")
    r = subprocess.run(["cargo", "+nightly", "test", "--doc", "--offline"], cwd=wdir, env=env,
                       stdout=subprocess.PIPE, stderr=subprocess.STDOUT, text=True)
    res = {}
    for m in re.finditer(r"^test src/lib.rs - (\w+) \(line \d+\)( - compile fail| - compile)? \.\.\. (\w+)", r.stdout, re.M):
        name, kind, status = m.group(1), (m.group(2) or ""), m.group(3)
        res.setdefault(name, {})["compile_fail" if "fail" in kind else "twin"] = status
    return res, r.returncode, r.stdout[-2000:]


def obligations(ck, pid):
    if os.environ.get("ABASIC_REPO"):
        return  # witnesses always look at /repo itself
    mine = [w for w, props in USES.items() if pid in props]
    if not mine:
        return
    res, rc, tail = run_witnesses()
    if not res:
        ck.bad("%s:WITNESS:build" % pid, "compile_fail witness", "the witness crate did not run: %s" % tail[-600:])
        return
    for w in mine:
        st = res.get(w, {})
        ok = st.get("compile_fail") == "ok" and st.get("twin") == "ok"
        ck.require(ok, "%s:WITNESS:%s" % (pid, w), "compile_fail witness",
                   "an external crate cannot write it: the offending line fails with the expected error code, its twin compiles",
                   "witness %s no longer holds (%s): state the static argument treats as crate-private has become reachable "
                   "from a host crate, or the witness no longer names a valid item" % (w, st))
