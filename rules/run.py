"""bin/check entry point: extract facts for /repo's current tree, run one property's rules."""
import argparse
import importlib
import json
import os
import sys
import time
import traceback

HERE = os.path.dirname(os.path.abspath(__file__))
sys.path.insert(0, HERE)

import extract  # noqa: E402
import mir  # noqa: E402
import effects  # noqa: E402
import framework  # noqa: E402

LEVELS = {}


def selftest(pid):
    """Thorough tier: how sharp is this property's rule set?  Every seeded break of this property (seeded/<pid>-*,
    selftest/mutants/c<nn>-*) is applied to a scratch copy of the current tree and must be reported; the
    behaviour-preserving twin (selftest/benign/all-benign.diff) must be silent.  Results go to the evidence only."""
    import glob
    import re
    import subprocess
    verif = os.path.dirname(HERE)
    pats = sorted(glob.glob(os.path.join(verif, "seeded", pid + "-*", "patch.diff")))
    pats += sorted(glob.glob(os.path.join(verif, "selftest", "mutants", pid.lower() + "-*.diff")))
    out = {"mutants": [], "killed": 0, "total": 0}
    seed = int(os.environ.get("VERIF_SEED", "0") or 0)
    if seed:
        import random
        random.Random(seed).shuffle(pats)
    for p in pats:
        mp = os.path.join(os.path.dirname(p), "meta.json")
        if os.path.exists(mp):
            m = json.load(open(mp))
            if m.get("superseded") or m.get("not_caught_reason"):
                # no longer (or never) a break of this property on the current tree, with the reason recorded by hand
                out["mutants"].append({"patch": os.path.relpath(p, verif), "applied": False, "skipped": m.get("superseded") or m.get("not_caught_reason")})
                continue
        r = subprocess.run([os.path.join(verif, "bin", "try-mutant"), p, pid], stdout=subprocess.PIPE, stderr=subprocess.STDOUT, text=True)
        keys = re.findall(r"key: (.*)", r.stdout)
        applied = "FAILED" not in r.stdout and "malformed" not in r.stdout
        name = os.path.relpath(p, verif)
        out["mutants"].append({"patch": name, "applied": applied, "reported": keys[:6]})
        if applied:
            out["total"] += 1
            if keys:
                out["killed"] += 1
    twins = [os.path.join(verif, "selftest", "benign", "all-benign.diff")]
    twins += sorted(glob.glob(os.path.join(verif, "selftest", "benign", "agents-bundle-*.diff")))
    res = []
    for b in twins:
        if not os.path.exists(b):
            continue
        r = subprocess.run([os.path.join(verif, "bin", "try-mutant"), b, pid], stdout=subprocess.PIPE, stderr=subprocess.STDOUT, text=True)
        keys = re.findall(r"key: (.*)", r.stdout)
        res.append({"patch": os.path.relpath(b, verif), "applied": "FAILED" not in r.stdout and "ERROR" not in r.stdout,
                    "silent": not keys, "reported": keys[:6]})
    if res:
        # one verdict over all behaviour-preserving twins (own refactorings + the sub-agents' 40, bundled)
        out["benign_twin"] = {"applied": all(x["applied"] for x in res), "silent": all(x["silent"] for x in res),
                              "reported": [k for x in res for k in x["reported"]][:6], "twins": res}
    return out


def main():
    ap = argparse.ArgumentParser()
    ap.add_argument("pid")
    ap.add_argument("--tier", default=os.environ.get("VERIF_TIER", "quick"))
    ap.add_argument("--replay", default=None)
    args = ap.parse_args()
    pid = args.pid.upper()
    tier = args.tier if args.tier in ("quick", "thorough") else "quick"
    seed = int(os.environ.get("VERIF_SEED", "0") or 0)
    try:
        mod = importlib.import_module("props.%s" % pid)
    except ImportError as e:
        print("no rules for %s: %s" % (pid, e))
        return 2
    t0 = time.time()
    try:
        fdir, info = extract.facts_dir()
    except Exception as e:  # the tree does not build: nothing can be decided
        print("ERROR: fact extraction failed: %s" % e)
        return 2
    F = mir.Facts(fdir)
    info["load_s"] = round(time.time() - t0, 2)
    ck = framework.Check(pid, tier, seed, getattr(mod, "LEVEL", "other"), F, info)
    ck.explanation = getattr(mod, "EXPLANATION", "")
    ck.trusted = list(getattr(mod, "TRUSTED", []))
    ck.assumptions = list(getattr(mod, "ASSUMPTIONS", []))
    only = None
    if args.replay:
        with open(args.replay) as f:
            only = json.load(f).get("key")
    try:
        E = effects.Effects(F) if getattr(mod, "NEEDS_EFFECTS", True) else None
        mod.run(ck, F, E)
        if tier == "thorough" and hasattr(mod, "run_thorough"):
            mod.run_thorough(ck, F, E)
        if tier == "thorough":
            import witness
            witness.obligations(ck, pid)
    except Exception:
        tb = traceback.format_exc()
        ck.bad("ENGINE:%s" % pid, "engine", "rule engine crashed (fails closed):\n" + tb)
    if tier == "thorough" and only is None and os.environ.get("ABASIC_REPO") is None:
        try:
            ck.note("selftest", selftest(pid))
        except Exception as ex:  # the self-test measures the checker, it never decides the property
            ck.note("selftest", {"error": repr(ex)})
    if only is not None:
        ck.obs = [o for o in ck.obs if o.key == only]
        if not ck.obs:
            print("replayed obligation %s is no longer produced (holds or anchor changed)" % only)
    return ck.finish()


if __name__ == "__main__":
    sys.exit(main())
