"""bin/check entry point: extract facts for /repo's current tree, run one property's rules."""
import argparse
import importlib
import json
import os
import sys
import time
import traceback

HERE = os.path.dirname(os.path.abspath(__file__))
sys.path.insert(0, HERE)

import extract  # noqa: E402
import mir  # noqa: E402
import effects  # noqa: E402
import framework  # noqa: E402

LEVELS = {}


def main():
    ap = argparse.ArgumentParser()
    ap.add_argument("pid")
    ap.add_argument("--tier", default=os.environ.get("VERIF_TIER", "quick"))
    ap.add_argument("--replay", default=None)
    args = ap.parse_args()
    pid = args.pid.upper()
    tier = args.tier if args.tier in ("quick", "thorough") else "quick"
    seed = int(os.environ.get("VERIF_SEED", "0") or 0)
    try:
        mod = importlib.import_module("props.%s" % pid)
    except ImportError as e:
        print("no rules for %s: %s" % (pid, e))
        return 2
    t0 = time.time()
    try:
        fdir, info = extract.facts_dir()
    except Exception as e:  # the tree does not build: nothing can be decided
        print("ERROR: fact extraction failed: %s" % e)
        return 2
    F = mir.Facts(fdir)
    info["load_s"] = round(time.time() - t0, 2)
    ck = framework.Check(pid, tier, seed, getattr(mod, "LEVEL", "other"), F, info)
    ck.explanation = getattr(mod, "EXPLANATION", "")
    ck.trusted = list(getattr(mod, "TRUSTED", []))
    ck.assumptions = list(getattr(mod, "ASSUMPTIONS", []))
    only = None
    if args.replay:
        with open(args.replay) as f:
            only = json.load(f).get("key")
    try:
        E = effects.Effects(F) if getattr(mod, "NEEDS_EFFECTS", True) else None
        mod.run(ck, F, E)
        if tier == "thorough" and hasattr(mod, "run_thorough"):
            mod.run_thorough(ck, F, E)
    except Exception:
        tb = traceback.format_exc()
        ck.bad("ENGINE:%s" % pid, "engine", "rule engine crashed (fails closed):\n" + tb)
    if only is not None:
        ck.obs = [o for o in ck.obs if o.key == only]
        if not ck.obs:
            print("replayed obligation %s is no longer produced (holds or anchor changed)" % only)
    return ck.finish()


if __name__ == "__main__":
    sys.exit(main())
