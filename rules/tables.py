"""A8 table extraction from SwitchInt / if-chains over enums, bytes and string constants."""
from lib import (sfx, strip_expr, strip_refs, show, aggregates, expr_calls, expr_const_str, bool_switch_true_target,
                 exclusive_region, region_aggregates)

TOKEN = "abasic_core::tokenizer::Token"


def const_keyword_table(F):
    """keywords kept as data: a named constant `[(&str, Token); N]` of the tokenizer module -> {'DIM': 'Dim', ...}"""
    out = {}
    for p, cb in F.bodies.items():
        if not (str(cb.kind).startswith("Const") and p.startswith("abasic_core::tokenizer::")):
            continue
        if "abasic_core::tokenizer::Token)" not in cb.local_ty(0) or "&" not in cb.local_ty(0):
            continue
        for blk in cb.blocks:
            for st in blk["stmts"]:
                if st["k"] == "assign" and st["rv"]["k"] == "aggregate" and st["rv"].get("agg") == "tuple" and len(st["rv"]["ops"]) == 2:
                    kw = expr_const_str(cb.expr(st["rv"]["ops"][0]))
                    e1 = strip_expr(cb.expr(st["rv"]["ops"][1]))
                    if kw is not None and e1[0] == "agg" and str(e1[1]).endswith("tokenizer::Token"):
                        out[kw] = e1[2]
    return out


def keyword_table(F):
    """{'DIM': 'Dim', ...} from the if-chain of chomp_keyword("K") calls in chomp_any_keyword (+ span)."""
    b = F.one("Tokenizer::chomp_any_keyword")
    if b is None:
        return None
    out = {}
    for c in b.calls_to("Tokenizer::chomp_keyword"):
        kw = expr_const_str(b.expr(c.args[1]))
        if kw is None and any(c.bb in blk for blk in b.natural_loops().values()):
            # `for (keyword, token) in KEYWORDS { if self.chomp_keyword(keyword) { return Some(token.clone()) } }`
            tab = const_keyword_table(F)
            if tab:
                out.update(tab)
                continue
        if kw is None or c.target is None:
            out["?%d" % c.bb] = None
            continue
        ft = bool_switch_true_target(b, c.target)
        if ft is None:
            out[kw] = None
            continue
        # the true arm's own blocks (up to the join): aggregates of Token
        aggs = [a for a in region_aggregates(b, exclusive_region(b, ft[1])) if a[0] == TOKEN]
        out[kw] = aggs[0][1] if len(aggs) == 1 else None
    return out


def special_keywords(F):
    """keywords passed to chomp_keyword outside chomp_any_keyword: {'REM': fn, 'DATA': fn}"""
    out = {}
    for fn in ("Tokenizer::chomp_remark", "Tokenizer::chomp_data"):
        b = F.one(fn)
        if b is None:
            continue
        for c in b.calls_to("Tokenizer::chomp_keyword"):
            kw = expr_const_str(b.expr(c.args[1]))
            out[kw] = fn
    return out


def all_keyword_constants(F):
    out = []
    for body in F.bodies.values():
        if body.crate != "abasic_core":
            continue
        for c in body.calls_to("Tokenizer::chomp_keyword"):
            kw = expr_const_str(body.expr(c.args[1]))
            if kw is None and any(c.bb in blk for blk in body.natural_loops().values()) and const_keyword_table(F):
                for k2 in sorted(const_keyword_table(F)):
                    out.append((k2, body.path, c.span))
                continue
            out.append((kw, body.path, c.span))
    return out


def _all_ops(rv):
    out = list(rv.get("ops", []))
    for k in ("op", "a", "b"):
        if isinstance(rv.get(k), dict):
            out.append(rv[k])
    if isinstance(rv.get("place"), dict):
        pass
    return out


def punct_table(F):
    """one/two character operators: {'<': 'LessThan', '<>': 'NotEquals', ...}"""
    b = F.one("Tokenizer::chomp_one_or_two_characters")
    if b is None:
        return None
    out = {}
    # first switch: on the byte
    first = None
    for bb in sorted(b.reachable()):
        t = b.term(bb)
        if t["k"] == "switch" and len(t["targets"]) >= 8 and t.get("dty") == "u8":
            first = bb
            break
    if first is None:
        # the single-character table may be data instead of a `match`: a named constant `[(u8, Token); N]` of the tokenizer
        # module that the matcher searches (`TABLE.iter().find(|(c, _)| *c == byte)`)
        used = set()
        for blk in b.blocks + [bl for cb in F.bodies.values() if cb.path.startswith(b.path + "::{closure") for bl in cb.blocks]:
            for st in blk["stmts"]:
                if st["k"] == "assign":
                    for o in _all_ops(st["rv"]):
                        if o.get("k") == "const":
                            used.add(o.get("item", "") or "")
                            used.add(o.get("text", "") or "")
        for p, cb in F.bodies.items():
            if not (str(cb.kind).startswith("Const") and p.startswith("abasic_core::tokenizer::")):
                continue
            if "(u8, abasic_core::tokenizer::Token)" not in cb.local_ty(0):
                continue        # (references reach the matcher through a promoted constant, so usage is not traced here)
            for blk in cb.blocks:
                for st in blk["stmts"]:
                    if st["k"] == "assign" and st["rv"]["k"] == "aggregate" and st["rv"].get("agg") == "tuple" and len(st["rv"]["ops"]) == 2:
                        o0 = st["rv"]["ops"][0]
                        e1 = strip_expr(cb.expr(st["rv"]["ops"][1]))
                        if o0.get("k") == "const" and o0.get("ty") == "u8" and e1[0] == "agg" and str(e1[1]).endswith("tokenizer::Token"):
                            out[chr(int(o0["int"]))] = e1[2]
        if not out:
            return None
    else:
        t = b.term(first)
        for v, tgt in t["targets"]:
            aggs = [st["rv"]["variant"] for st in b.blocks[tgt]["stmts"]
                    if st["k"] == "assign" and st["rv"]["k"] == "aggregate" and st["rv"].get("adt", "").endswith("tokenizer::Token")]
            out[chr(int(v))] = aggs[0] if len(aggs) == 1 else None
    # second characters: `next_char == b'x'` comparisons followed by Some(Ok(Token::V))
    for bb in sorted(b.reachable()):
        tt = b.term(bb)
        if tt["k"] != "switch":
            continue
        e = strip_expr(b.expr(tt["discr"]))
        if e[0] == "binop" and e[1] == "Eq":
            c = strip_expr(e[3])
            if c[0] == "const" and c[1].get("ty") == "u8":
                ft = bool_switch_true_target(b, bb)
                aggs = [a for a in region_aggregates(b, exclusive_region(b, ft[1])) if a[0] == TOKEN]
                if len(aggs) == 1:
                    second = chr(c[1]["int"])
                    # which first token guards this? find dominating `token == Token::X` test
                    firsttok = None
                    for gb in sorted(b.reachable()):
                        if not b.dominates(gb, bb) or gb == bb:
                            continue
                        gt = b.term(gb)
                        if gt["k"] == "switch":
                            # `match token { Token::LessThan => .., Token::GreaterThan => .., _ => {} }`
                            ginfo = b.switch_info(gb)
                            if ginfo and ginfo[3]:
                                for v_, n_ in ginfo[3].items():
                                    tg_ = ginfo[1].get(v_)
                                    if tg_ is not None and tg_ != ginfo[2] and b.dominates(tg_, bb) and n_ in out.values():
                                        firsttok = n_
                            ge = strip_expr(b.expr(gt["discr"]))
                            if ge[0] == "call" and ge[1].endswith("PartialEq>::eq"):
                                txt = " ".join(show(a) for a in ge[2])
                                for cand in ("LessThan", "GreaterThan"):
                                    if "Token::%s{" % cand in txt or "::%s{}" % cand in txt:
                                        gft = bool_switch_true_target(b, gb)
                                        if gft and b.dominates(gft[1], bb):
                                            firsttok = cand
                    fc = [k for k, v in out.items() if v == firsttok and len(k) == 1]
                    if fc:
                        out[fc[0] + second] = aggs[0][1]
                    else:
                        out["?" + second + str(bb)] = aggs[0][1]
    return out


def parse_bytes_literal(text):
    """b"\\x03REM\\xc0\\x00" -> bytes"""
    if not (text.startswith('b"') and text.endswith('"')):
        return None
    body = text[2:-1]
    out = bytearray()
    i = 0
    while i < len(body):
        c = body[i]
        if c == "\\":
            n = body[i + 1]
            if n == "x":
                out.append(int(body[i + 2:i + 4], 16))
                i += 4
                continue
            m = {"n": 10, "r": 13, "t": 9, "0": 0, "\\": 92, '"': 34, "'": 39}
            out.append(m.get(n, ord(n)))
            i += 2
            continue
        out.extend(c.encode())
        i += 1
    return bytes(out)


def fmt_template(text):
    """Decode rustc's compact format_args template: [len][literal bytes] | 0xC0 (placeholder) ... 0x00.
    -> list of str pieces with None for each `{}`; None if not decodable."""
    b = parse_bytes_literal(text)
    if b is None:
        return None
    out = []
    i = 0
    while i < len(b):
        x = b[i]
        if x == 0:
            break
        if x < 0x80:
            out.append(b[i + 1:i + 1 + x].decode("utf-8", "replace"))
            i += 1 + x
        elif x == 0xC0:
            out.append(None)
            i += 1
        else:
            # placeholder with options: not used by this code base; give up
            return None
    return out


def display_table(F):
    """Token variant -> list of string pieces written by <Token as Display>::fmt in that arm."""
    b = F.one("<abasic_core::tokenizer::Token as core::fmt::Display>::fmt")
    if b is None:
        return None
    out = {}
    for bb in sorted(b.reachable()):
        info = b.switch_info(bb)
        if not info or not info[3] or len(info[3]) < 20:
            continue
        subject, targets, otherwise, names = info
        for v, n in names.items():
            t = targets.get(v, otherwise)
            reg = exclusive_region(b, t)
            pieces = []
            calls = []
            for x in sorted(reg):
                c = b.call_at(x)
                if c is None:
                    continue
                calls.append(c.callee.split("::")[-1])
                for a in c.args:
                    s = expr_const_str(b.expr(a))
                    if s is not None:
                        pieces.append(s)
                    ee = strip_refs(b.expr(a))
                    if ee[0] == "const" and ee[1].get("text", "").startswith('b"') and c.callee.endswith("Arguments::new"):
                        tpl = fmt_template(ee[1]["text"])
                        if tpl is not None:
                            pieces.extend(tpl)
                # format pieces arrays: aggregate of consts
            for x in sorted(reg):
                for st in b.blocks[x]["stmts"]:
                    if st["k"] == "assign" and st["rv"]["k"] == "aggregate" and st["rv"].get("agg") == "array":
                        for o in st["rv"]["ops"]:
                            if o.get("k") == "const" and "str" in o:
                                pieces.append(o["str"])
                    if st["k"] == "assign" and st["rv"]["k"] == "use" and st["rv"]["op"].get("k") == "const" and \
                            "str" in st["rv"]["op"]:
                        if st["rv"]["op"]["str"] not in pieces:
                            pieces.append(st["rv"]["op"]["str"])
            out[n] = {"pieces": pieces, "calls": calls}
    return out


def from_token_table(F, enum_suffix):
    """Token variant -> operator variant for `X::from_token`."""
    b = F.one("%s::from_token" % enum_suffix)
    if b is None:
        return None
    out = {}
    for bb in sorted(b.reachable()):
        info = b.switch_info(bb)
        if not info or not info[3] or len(info[3]) < 20:
            continue
        subject, targets, otherwise, names = info
        for v, n in names.items():
            if v not in targets:
                continue
            t = targets[v]
            aggs = [a for a in region_aggregates(b, exclusive_region(b, t)) if a[0].endswith(enum_suffix)]
            if aggs:
                out[n] = aggs[0][1]
    return out


def dispatch_table(F, fn_suffix):
    """Statement dispatch: Token variant -> first local callee (or 'Ok' / 'Err:<variant>') in its arm."""
    b = F.one(fn_suffix)
    if b is None:
        return None
    out = {}
    best = None
    for bb in sorted(b.reachable()):
        info = b.switch_info(bb)
        if info and info[3] and len(info[3]) >= 20 and len(info[1]) >= 10:
            best = (bb, info)
            break
    if best is None:
        return None
    bb, (subject, targets, otherwise, names) = best
    for v, n in names.items():
        explicit = v in targets
        t = targets.get(v, otherwise)
        reg = exclusive_region(b, t) if explicit else exclusive_region(b, otherwise)
        callee = None
        for x in sorted(reg):
            c = b.call_at(x)
            if c is not None and c.is_local and not c.callee.endswith("::program") and "convert::From" not in c.callee:
                callee = c.callee.split("::")[-1]
                break
        if callee is None:
            errs = [a for a in region_aggregates(b, reg) if a[0].endswith("SyntaxError") or a[0].endswith("InterpreterError")]
            callee = "Err:" + errs[0][1] if errs else "Ok"
        out[n] = {"explicit": explicit, "effect": callee}
    return out
