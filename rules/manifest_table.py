"""Source of MANIFEST.json (bin/gen-manifest writes it)."""

COMMON_NOTE = (
    "Trusted base: rustc nightly front end (type check, trait resolution, MIR at -Zmir-opt-level=0), the fact "
    "extractor in driver/, std semantics of the resolved callees named by the rules.  Static: no ABASIC code is run. "
)

CHECKS = {
    "C04": dict(level="proof", technique="MIR effect analysis + path enumeration (single writer, paired update, ordered consumers, store conditions by control dependence)",
                text="Inductive proof of the two-index invariant of the line store and of ascending order for every ordered "
                     "consumer, on the MIR of the current tree: single writer (effect analysis), paired insert/remove on all "
                     "paths of ProgramLines::set (path enumeration), no iteration of the HashMap, strict and total successor, "
                     "store only the Ok payload of tokenisation.",
                note="Decides the store/ordering structure. Numeral parsing of the line-number prefix is str::parse::<u64> (trusted). "
                     "LIST/RUN transcripts are not produced.", ref="4/C04"),
    "C10": dict(level="proof", technique="inter-procedural effect analysis: may-write vs must-kill inclusion (W - E subset-of K)",
                text="Every field of Interpreter/Program that any host-callable method may write is either exempt by name with a "
                     "reason or must-killed on the RUN arm before the first statement runs; new fields are picked up from the ADT tables.",
                note="Exemptions (output, state, rng, string_manager, options, program text, immediate line) are stated in the rule "
                     "and repeated in the evidence. Equality of RUN transcripts is not computed.", ref="4/C10"),
    "C11": dict(level="proof", technique="MIR effect analysis: must-kill on edit, validated construction of locations (dominance), who-may-call",
                text="Inductive invariant INV-LOC (every stored program location names an existing line): location holders found "
                     "by type, all must-killed by set_numbered_line, single writer/caller of the store, raw u64 -> location only "
                     "under a dominating membership test or from the sorted set, failed tokenisation cannot reach the store.",
                note="Decides the invariant and the error each consumer reports on the emptied state; the probe transcript itself "
                     "is not produced.", ref="4/C11"),
    "C16": dict(level="proof", technique="MIR dominance (cap guards), single-constructor / single-writer rules, truth tables by path enumeration",
                text="Inductive cap and typing invariants over all writers: guarded pushes on both stacks with STACK_LIMIT == 32, "
                     "loop uniqueness and truncating removal, INV-DIM (one guarded constructor, no wrapping arithmetic), suffix "
                     "typing of Variables / ValueArray with the validation truth table extracted from the MIR.",
                note="Vec::push grows by one and vec![x; n] has n cells (std, trusted).", ref="4/C16"),
    "C17": dict(level="proof", technique="non-interference by effect containment over control-dependent regions (MIR CFG + effect analysis)",
                text="Every read of enable_tracing / enable_warnings is a branch condition whose control-dependent region writes "
                     "only Interpreter.output; trace only for numbered lines and before dispatch; warn before implicit array "
                     "creation; the output queue is write-only inside the core.",
                note="That the trace sequence equals a reference execution trace is not decided (C03 residue).", ref="4/C17"),
    "C18": dict(level="proof", technique="const-eval + MIR expression-tree match of the LCG step + interval argument on Rng.seed, no whole-struct overwrite of the generator's owner",
                text="Constants, step formula and argument dispatch read off the MIR; every store into Rng.seed is reduced modulo "
                     "2^33, so the step cannot overflow and seed/2^33 lies in [0,1); purity by callee enumeration; seeding API "
                     "forwards the 64-bit seed unchanged on every front end.",
                note="f64 exactness facts (u64->f64 below 2^53, division by a power of two) are stated, not machine-checked. "
                     "Replaces the 2^33-state sweep by the interval argument.", ref="4/C18"),
}

CHECKS.update({
    "C01": dict(level="other", technique="call-graph reachability + panic-site inventory with discharge rules, value-like taint, recursion-guard SCC rule, must-pass-through on the error path",
                text="Static panic-freedom argument for everything reachable from the host API (every Assert terminator and panicking-std call "
                     "must be discharged by a protocol precondition, a size-like/constant argument, a dominating guard, or a vetted invariant row "
                     "whose invariant is another rule's obligation), arithmetic on host-controlled numerals via inter-procedural taint, bounded "
                     "native recursion via call-graph cycles, errors lead to Idle via post-dominance, stop / break leave the interpreter Idle on every path.",
                note="Not a proof: non-local callees outside the panicking-API table are assumed not to panic (listed in evidence); heap "
                     "exhaustion is out of scope. F12a/b (unbounded parser recursion) were repaired in /repo (depth counter); the recursion rule stays armed.", ref="4/C01"),
    "C02": dict(level="other", technique="grammar / operator / typing table extraction from MIR (skeletons, path enumeration over discriminants) vs the stated rules",
                text="The evaluator is shown to be the specified precedence-climbing left fold with the specified token->operator, "
                     "operator->operation (operand order) and operand-kind tables, truthiness, boolean encoding, ABS/INT and PRINT formatting.",
                note="IEEE-754 results, str ordering and f64 Display are std semantics (trusted); no expression is evaluated.", ref="4/C02"),
    "C03": dict(level="other", technique="structural necessary conditions on MIR (iteration order, immutability by effect analysis, comparison shapes, resume rule)",
                text="Necessary conditions only for the mechanisms the property names: DATA scan order and cursor monotonicity, FOR limit/step "
                     "immutability, FOR body runs once, NEXT exit comparison and forgetting, defaults, sequencing, GOSUB return location, resume rule, READ target by "
                     "target, last DEF wins, PRINT separator flag, colon ends a skipped THEN clause, errors located before they reach the host, and C02's "
                     "operator-semantics rules as shared necessary conditions.",
                note="Differential equality with a reference interpreter is not decidable by this family and is NOT claimed; only the listed "
                     "structural clauses are decided.", ref="4/C03"),
    "C05": dict(level="other", technique="panic-site inventory on analyzer roots + constant-propagating path enumeration of the per-line loop (INV-MAP)",
                text="Every panic-capable site reachable from SourceFileAnalyzer/SourceFileMap is discharged; a BASIC line is mapped iff stored "
                     "and every file line pushes exactly one range entry and token list (all paths of one loop iteration); successor strictness; "
                     "range-construction rule.",
                note="Open finding: F9 (1-byte range for a multi-byte illegal character). F8, F12c/d were repaired in /repo.", ref="4/C05"),
    "C06": dict(level="other", technique="sibling cross-check: dispatch tables, parsing skeletons, kind-transfer truth tables of evaluator vs analyzer",
                text="The two hand-maintained forks are compared function by function on the MIR: same explicit dispatch arms, same token-consumption "
                     "skeletons for 24+ function pairs, same outcome per operator tier and operand-kind pair, paired statement-level kind checks, "
                     "same jump-target test, resume rule.",
                note="Side conditions of the property (unique definitions executed before use) are taken as given. Known: F10 (ELSE resume), F19 (DEF body kind).",
                ref="4/C06"),
    "C07": dict(level="other", technique="frame argument: data-flow of capture/restore, effect sets (immediate mode, error path, PRINT), push/pop pairing counted per path, write sets on the paths that construct NEXT WITHOUT FOR / RETURN WITHOUT GOSUB / CAN'T CONTINUE",
                text="Breakpoint capture/restore, who may write `breakpoint`, what immediate mode and the error path can modify, the write set of "
                     "the canonical inspecting statement, and the pairing of function-call frames on every exit.",
                note="Transcript equality over all schedules is not decided. Open findings: F10 (ELSE resume), F13 (implicit array on read). F11 and F21 were repaired in /repo.",
                ref="4/C07"),
    "C08": dict(level="other", technique="who-may-call + per-arm effect sets of evaluate_input_statement + single-consumption rule",
                text="Only INPUT rewinds (to its own token), the awaiting arm executes nothing, the reply is consumed once through Option::take, the "
                     "store is dominated by the Ok arm of the coercion, REENTER/EXTRA IGNORED arms have exactly the specified effects, reply parsing "
                     "is the DATA parser and yields at least one item, the coercion is the 2x2 table (text to a numeric variable is DataTypeMismatch "
                     "on every path), the hosts hand provide_input the reader's result unchanged.",
                note="Known: F10 (INPUT inside THEN..ELSE), F20 (target re-evaluated on REENTER).", ref="4/C08"),
    "C09": dict(level="other", technique="path counting over loop-free entry points + MustConsume greatest fixpoint for loop progress",
                text="At most one run_next_statement per path of every entry point, at most one dispatch per run_next_statement, chain nesting through IF "
                     "only, no run loop in the core, and every cursor-driven loop consumes a token per iteration.",
                note="Wall-clock bounds are not decided; whole-program loops (DATA scan, string GC) are listed in the evidence, not bounded.", ref="4/C09"),
    "C12": dict(level="other", technique="information-flow over the tokenizer's MIR: raw-byte reader set, cruncher filter, case folding, keyword constant table, cruncher positions never reach a branch (taint)",
                text="Outside the protected regions every matcher obtains bytes only through LineCruncher (which never yields space/tab), keywords are "
                     "compared upper-cased against upper-case ASCII constants, advances are cruncher positions, DATA emptiness tests are consistent.",
                note="Equal crunched views giving equal numeral values relies on str::parse::<f64> (trusted).", ref="4/C12"),
    "C13": dict(level="other", technique="cursor discipline: all writes to Tokenizer.index enumerated and classified (monotone, provenance), range construction and text provenance by data-flow, blank-skipping confined to the token boundary",
                text="Every write to the cursor is `+= classified non-negative amount` or a restore of a saved copy; token ranges are (saved start after "
                     "blank-chomp)..(cursor at return); error positions are cursor values; the two collectors are the same iteration; the tokenizer "
                     "writes no state besides the cursor and the error latch (context freedom, a necessary condition of the re-tokenisation clause).",
                note="The re-tokenisation round trip of a range is behavioural and not decided. Known: F9.", ref="4/C13"),
    "C14": dict(level="other", technique="inverse-table cross-check of the lexer (keyword chain, byte switch) and Token's Display (format templates decoded), finiteness and DATA rules",
                text="For all fixed-spelling tokens Display(lex(s)) == s and every printed variant has a lexer row; REM/DATA/string/symbol/numeral "
                     "rendering rules; a string literal's text is the source up to the first quote; numerals stored in tokens are finite; DATA renderer "
                     "vs parser; the DATA cursor is a function of the stored lines alone.",
                note="Identical behaviour under RUN of the reloaded program is not decided. F6, F14, F15 were repaired in /repo.", ref="4/C14"),
    "C15": dict(level="other", technique="sibling data-flow comparison of the two loading paths (store conditions by control dependence, analysis write set vs reset kill set), post-dominance configuration rule and forward may-analysis of the line buffer over the CLI crate",
                text="Both loading paths parse, tokenize and store with the same calls and data flow; every site that installs the CLI's interpreter "
                     "is followed by the application of the options; the page loads through the prompt path (TS scan).",
                note="Byte equality of the binary's stdout/stderr in the two modes is process behaviour and not decided.", ref="4/C15"),
    "C19": dict(level="other", technique="adapter typestate on MIR (latch writers, must-pass-through, enum mapping tables, sibling error arms) + syntactic scan of ts/main.ts",
                text="Trap sites reachable from the adapter are discharged; latest_error is latched exactly on Err arms and cleared only by take; the "
                     "transient NEW state is swapped on every Ok path; mappings are identities; both error arms build the same text; every "
                     "precondition-bearing adapter call in main.ts sits under the state guard implying it.",
                note="The TS scan is structural, not type-checked (no TypeScript front end installed). Open finding: F16 (unguarded loader calls in ts/main.ts). F12a/b, F17 were repaired in /repo.",
                ref="4/C19"),
    "C20": dict(level="other", technique="panic-site inventory from main_loop + units provenance rule on Position/SemanticToken operands, totality of the byte-to-column converters, document table overwritten never consulted, legend table extraction",
                text="Liveness as panic-freedom of the server and the analyzer it calls, UTF-16 units rule on every column/length operand, legend "
                     "total/injective/in-range, no diagnostic filtered, handlers analyse the text they received.",
                note="JSON-RPC framing and the lsp-server crate are outside the claim. F8, F12c/d, F18 were repaired in /repo.", ref="4/C20"),
})

NOT_APPLICABLE = {}
