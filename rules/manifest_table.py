"""Source of MANIFEST.json (bin/gen-manifest writes it)."""

COMMON_NOTE = (
    "Trusted base: rustc nightly front end (type check, trait resolution, MIR at -Zmir-opt-level=0), the fact "
    "extractor in driver/, std semantics of the resolved callees named by the rules.  Static: no ABASIC code is run. "
)

CHECKS = {
    "C04": dict(level="proof", technique="MIR effect analysis + path enumeration (single writer, paired update, ordered consumers)",
                text="Inductive proof of the two-index invariant of the line store and of ascending order for every ordered "
                     "consumer, on the MIR of the current tree: single writer (effect analysis), paired insert/remove on all "
                     "paths of ProgramLines::set (path enumeration), no iteration of the HashMap, strict and total successor, "
                     "store only the Ok payload of tokenisation.",
                note="Decides the store/ordering structure. Numeral parsing of the line-number prefix is str::parse::<u64> (trusted). "
                     "LIST/RUN transcripts are not produced.", ref="4/C04"),
    "C10": dict(level="proof", technique="inter-procedural effect analysis: may-write vs must-kill inclusion (W - E subset-of K)",
                text="Every field of Interpreter/Program that any host-callable method may write is either exempt by name with a "
                     "reason or must-killed on the RUN arm before the first statement runs; new fields are picked up from the ADT tables.",
                note="Exemptions (output, state, rng, string_manager, options, program text, immediate line) are stated in the rule "
                     "and repeated in the evidence. Equality of RUN transcripts is not computed.", ref="4/C10"),
    "C11": dict(level="proof", technique="MIR effect analysis: must-kill on edit, validated construction of locations (dominance), who-may-call",
                text="Inductive invariant INV-LOC (every stored program location names an existing line): location holders found "
                     "by type, all must-killed by set_numbered_line, single writer/caller of the store, raw u64 -> location only "
                     "under a dominating membership test or from the sorted set, failed tokenisation cannot reach the store.",
                note="Decides the invariant and the error each consumer reports on the emptied state; the probe transcript itself "
                     "is not produced.", ref="4/C11"),
    "C16": dict(level="proof", technique="MIR dominance (cap guards), single-constructor / single-writer rules, truth tables by path enumeration",
                text="Inductive cap and typing invariants over all writers: guarded pushes on both stacks with STACK_LIMIT == 32, "
                     "loop uniqueness and truncating removal, INV-DIM (one guarded constructor, no wrapping arithmetic), suffix "
                     "typing of Variables / ValueArray with the validation truth table extracted from the MIR.",
                note="Vec::push grows by one and vec![x; n] has n cells (std, trusted).", ref="4/C16"),
    "C17": dict(level="proof", technique="non-interference by effect containment over control-dependent regions (MIR CFG + effect analysis)",
                text="Every read of enable_tracing / enable_warnings is a branch condition whose control-dependent region writes "
                     "only Interpreter.output; trace only for numbered lines and before dispatch; warn before implicit array "
                     "creation; the output queue is write-only inside the core.",
                note="That the trace sequence equals a reference execution trace is not decided (C03 residue).", ref="4/C17"),
    "C18": dict(level="proof", technique="const-eval + MIR expression-tree match of the LCG step + interval argument on Rng.seed",
                text="Constants, step formula and argument dispatch read off the MIR; every store into Rng.seed is reduced modulo "
                     "2^33, so the step cannot overflow and seed/2^33 lies in [0,1); purity by callee enumeration; seeding API "
                     "forwards the 64-bit seed unchanged on every front end.",
                note="f64 exactness facts (u64->f64 below 2^53, division by a power of two) are stated, not machine-checked. "
                     "Replaces the 2^33-state sweep by the interval argument.", ref="4/C18"),
}

NOT_APPLICABLE = {}
