"""Rules shared by several properties (each instance is keyed with the calling property's prefix)."""
from lib import (sfx, get_fn, callers_of, strip_expr, expr_calls, show)
from mir import norm


def single_writer_store(ck, F, E, P):
    """The two indexes of the line store are written only in ProgramLines::set; set has one caller chain."""
    for field in ("numbered_lines", "sorted_line_numbers"):
        ws = E.writers_of_field("program_lines::ProgramLines", field)
        names = sorted(ws)
        ok = bool(names) and all(sfx(n, "ProgramLines::set") for n in names)
        ck.require(
            ok, "%s:WRITER:ProgramLines.%s" % (P, field), "single writer",
            "only ProgramLines::set writes ProgramLines.%s" % field,
            "ProgramLines.%s is written outside ProgramLines::set: %s" % (field, names),
        )
    callers = callers_of(F, "ProgramLines::set")
    cn = sorted({b.path for b, _ in callers})
    ck.require(
        bool(cn) and all(sfx(n, "Program::set_numbered_line") for n in cn),
        "%s:CALLER:ProgramLines::set" % P, "who-may-call",
        "ProgramLines::set is called only by Program::set_numbered_line",
        "ProgramLines::set has callers other than Program::set_numbered_line: %s" % cn,
    )
    edit_callers = sorted({b.path for b, _ in callers_of(F, "Program::set_numbered_line")})
    allowed = ("Interpreter::evaluate_impl", "SourceFileAnalyzer::run")
    ck.require(
        bool(edit_callers) and all(any(sfx(n, a) for a in allowed) for n in edit_callers),
        "%s:CALLER:Program::set_numbered_line" % P, "who-may-call",
        "set_numbered_line is called from %s" % edit_callers,
        "set_numbered_line gained an unexpected caller: %s" % edit_callers,
    )


def show_calls(e):
    return " ".join(c[1] for c in expr_calls(e))


def _from_parse(body, op):
    """line-number operand assigned (possibly through Option wrappers / user variables) from parse_line_number."""
    seen = set()

    def go(e, depth):
        if depth > 6:
            return False
        if "parse_line_number" in show_calls(e):
            return True
        if e[0] == "agg" and e[3]:
            return any(go(x, depth + 1) for x in e[3])
        loc = None
        if e[0] == "local":
            loc = e[1]
        elif e[0] == "place" and e[1][0] == "local":
            loc = e[1][1]
        elif e[0] == "place":
            return go(e[1], depth + 1)
        if loc is None or loc in seen:
            return False
        seen.add(loc)
        for d in body.defs().get(loc, []):
            if d[0] in ("assign", "partial") and go(body.rv_expr(d[3]), depth + 1):
                return True
        return False

    return go(body.expr(op), 0)


def is_tokenize_ok_payload(e, collector="Tokenizer::remaining_tokens"):
    if e[0] != "place":
        return False
    if not any(p[0] == "field" and p[2] == "Continue" for p in e[4]):
        return False
    base = e[1]
    if base[0] != "call" or not base[1].endswith("::branch"):
        return False
    inner = base[2][0]
    return inner[0] == "call" and sfx(inner[1], collector)


def edit_path_rules(ck, F, E, P):
    """Interpreter::evaluate_impl stores a numbered line only with the success payload of tokenisation,
    under the number parsed from the same text.  Returns the store Call (or None)."""
    ev = get_fn(ck, F, "Interpreter::evaluate_impl")
    if ev is None:
        return None, None
    cs = ev.calls_to("Program::set_numbered_line")
    ck.require(len(cs) == 1, "%s:EDITPATH:one-call" % P, "edit path", "one store call in evaluate_impl",
               "expected exactly one set_numbered_line call in evaluate_impl, found %d" % len(cs), ev.span)
    for c in cs:
        e = ev.expr(c.args[2])
        ck.require(is_tokenize_ok_payload(e), "%s:EDITPATH:tokens-from-ok-arm" % P, "edit path",
                   "tokens argument = Continue payload of Try::branch(Tokenizer::remaining_tokens(..))",
                   "the tokens stored by an edit are not the success payload of tokenisation (%s): a line that "
                   "fails to tokenize could reach the store" % show(e), c.span)
        ck.require(_from_parse(ev, c.args[1]), "%s:EDITPATH:number-from-parse" % P, "edit path",
                   "line number argument comes from parse_line_number(line)",
                   "the stored line number does not come from parse_line_number: %s" % show(ev.expr(c.args[1])),
                   c.span)
        # the tokenizer skipped exactly the parsed prefix of the same text
        tk = [x for x in ev.calls() if sfx(x.callee, "Tokenizer::skip_bytes")]
        ok = False
        for x in tk:
            if _from_parse(ev, x.args[1]):
                ok = True
        ck.require(ok, "%s:EDITPATH:skip-parsed-prefix" % P, "edit path",
                   "Tokenizer::skip_bytes receives the end index returned by parse_line_number",
                   "the tokenizer no longer skips exactly the parsed line-number prefix", ev.span)
    return ev, (cs[0] if cs else None)


def successor_rule(ck, F, P):
    """ProgramLines::after(line) is total on u64 and returns a line strictly greater than `line`."""
    b = get_fn(ck, F, "ProgramLines::after")
    if b is None:
        return
    rcalls = [c for c in b.calls() if c.callee.endswith("BTreeSet::range") or c.callee.endswith("BTreeMap::range")]
    if not rcalls:
        ck.missing("%s:SUCC:range" % P, "a range() query on the sorted set inside ProgramLines::after")
        return
    c = rcalls[0]
    ck.require("sorted_line_numbers" in show(b.expr(c.args[0])), "%s:SUCC:ordered-source" % P, "successor",
               "after() queries sorted_line_numbers", "after() does not query the sorted line set", c.span)
    bound = b.expr(c.args[1])
    kind, strict, total = classify_lower_bound(b, bound)
    ck.note("after_lower_bound", {"expr": show(bound), "kind": kind})
    ck.require(strict, "%s:SUCC:strict" % P, "successor",
               "lower bound of the range excludes `line` (%s)" % kind,
               "ProgramLines::after(line) may return `line` itself or an earlier line (lower bound: %s): "
               "next_line can cycle and execution order is no longer ascending" % show(bound), c.span)
    ck.require(total, "%s:OVF:program_lines::ProgramLines::after:Add" % P, "successor",
               "lower bound computed without overflow (%s)" % kind,
               "`line + 1` overflows for line 18446744073709551615: panic in debug builds, wrap-around to the "
               "first line in release builds", c.span)
    # the result is the first element of that range
    ret_ok = False
    for r in b.return_blocks():
        pass
    e0 = None
    for bb, i, pl, rv, sp in b.assigns():
        if not pl["proj"] and pl["local"] == 0:
            e0 = b.rv_expr(rv)
    d = b.unique_def(0)
    if d is not None and d[0] == "call":
        e0 = ("call", d[2].callee, [b.expr(a) for a in d[2].args], d[2])
    if e0 is not None:
        txt = show(e0)
        ret_ok = "next(" in txt and "range(" in txt and "next_back" not in txt and "last(" not in txt
    ck.require(ret_ok, "%s:SUCC:first-of-range" % P, "successor",
               "after() returns the first element of the range", "after() does not return range(..).next(): %s"
               % (show(e0) if e0 else "?"), b.span)


def classify_lower_bound(body, e):
    s = e
    # RangeFrom { start }
    if s[0] == "agg" and str(s[1]).endswith("RangeFrom"):
        st = s[3][0]
        return _classify_plus_one(body, st)
    # (Bound::Excluded(line), Bound::Unbounded)
    if s[0] == "agg" and s[1] in ("tuple",) and len(s[3]) == 2:
        lo, hi = s[3]
        if lo[0] == "agg" and str(lo[1]).endswith("Bound") and lo[2] == "Excluded":
            inner = strip_expr(lo[3][0])
            if inner == ("param", 1) or (inner[0] == "ref" and strip_expr(inner[1]) == ("param", 1)):
                if hi[0] == "agg" and hi[2] == "Unbounded":
                    return "(Excluded(line), Unbounded)", True, True
        if lo[0] == "agg" and str(lo[1]).endswith("Bound") and lo[2] == "Included":
            k, strict, total = _classify_plus_one(body, lo[3][0])
            return "(Included(%s), ..)" % k, strict, total
    return "unrecognised: " + show(s), False, True


def _classify_plus_one(body, st):
    st = strip_expr(st)
    # checked MIR form: (AddWithOverflow(line, 1)).0 guarded by assert
    if st[0] == "place" and st[1][0] == "binop" and st[1][1] == "AddWithOverflow":
        a, b_ = strip_expr(st[1][2]), strip_expr(st[1][3])
        if a == ("param", 1) and b_[0] == "const" and b_[1].get("int") == 1:
            return "line + 1 (overflow-checked arithmetic, panics/wraps at u64::MAX)", True, False
    if st[0] == "binop" and st[1] in ("Add", "AddUnchecked"):
        a, b_ = strip_expr(st[2]), strip_expr(st[3])
        if a == ("param", 1) and b_[0] == "const" and b_[1].get("int") == 1:
            return "line + 1 (unchecked)", True, False
    if st[0] == "place" and st[1][0] == "call" and st[1][1].endswith("checked_add"):
        args = st[1][2]
        if strip_expr(args[0]) == ("param", 1) and strip_expr(args[1])[0] == "const" and \
                strip_expr(args[1])[1].get("int") == 1 and any(p[0] == "field" and p[2] == "Some" for p in st[4]):
            return "line.checked_add(1)? (None at u64::MAX)", True, True
    if st[0] == "call" and (st[1].endswith("saturating_add") or st[1].endswith("wrapping_add")):
        return st[1].split("::")[-1] + " (not strict at u64::MAX)", False, True
    if st == ("param", 1):
        return "line (inclusive)", False, True
    return "unrecognised start: " + show(st), False, True
