"""Rules shared by several properties (each instance is keyed with the calling property's prefix)."""
from lib import (sfx, get_fn, callers_of, strip_expr, expr_calls, show, calls_through, forwarders_of)
from mir import norm


def single_writer_store(ck, F, E, P):
    """The two indexes of the line store are written only in ProgramLines::set; set has one caller chain."""
    for field in ("numbered_lines", "sorted_line_numbers"):
        ws = E.writers_of_field("program_lines::ProgramLines", field)
        names = sorted(ws)
        ok = bool(names) and all(sfx(n, "ProgramLines::set") for n in names)
        ck.require(
            ok, "%s:WRITER:ProgramLines.%s" % (P, field), "single writer",
            "only ProgramLines::set writes ProgramLines.%s" % field,
            "ProgramLines.%s is written outside ProgramLines::set: %s" % (field, names),
        )
    callers = callers_of(F, "ProgramLines::set")
    cn = sorted({b.path for b, _ in callers})
    ck.require(
        bool(cn) and all(sfx(n, "Program::set_numbered_line") for n in cn),
        "%s:CALLER:ProgramLines::set" % P, "who-may-call",
        "ProgramLines::set is called only by Program::set_numbered_line",
        "ProgramLines::set has callers other than Program::set_numbered_line: %s" % cn,
    )
    edit_callers = sorted({b.path for b, _ in callers_of(F, "Program::set_numbered_line")})
    allowed = ("Interpreter::evaluate_impl", "SourceFileAnalyzer::run")
    # a private helper that only forwards its parameters to set_numbered_line stands for its own callers
    fw = forwarders_of(F, "Program::set_numbered_line")
    resolved = set()
    for n in edit_callers:
        if n in fw and not any(sfx(n, a) for a in allowed):
            resolved |= {b.path for b in F.bodies.values() for c in b.calls() if c.callee == n}
        else:
            resolved.add(n)
    edit_callers = sorted(resolved)
    ck.require(
        bool(edit_callers) and all(any(sfx(n, a) for a in allowed) for n in edit_callers),
        "%s:CALLER:Program::set_numbered_line" % P, "who-may-call",
        "set_numbered_line is called from %s" % edit_callers,
        "set_numbered_line gained an unexpected caller: %s" % edit_callers,
    )


def show_calls(e):
    return " ".join(c[1] for c in expr_calls(e))


def _from_parse(body, op):
    """line-number operand assigned (possibly through Option wrappers / user variables) from parse_line_number."""
    seen = set()

    def go(e, depth):
        if depth > 6:
            return False
        if "parse_line_number" in show_calls(e):
            return True
        if e[0] == "agg" and e[3]:
            return any(go(x, depth + 1) for x in e[3])
        loc = None
        if e[0] == "local":
            loc = e[1]
        elif e[0] == "place" and e[1][0] == "local":
            loc = e[1][1]
        elif e[0] == "place":
            return go(e[1], depth + 1)
        if loc is None or loc in seen:
            return False
        seen.add(loc)
        for d in body.defs().get(loc, []):
            if d[0] in ("assign", "partial") and go(body.rv_expr(d[3]), depth + 1):
                return True
        return False

    return go(body.expr(op), 0)


def is_tokenize_ok_payload(e, collector="Tokenizer::remaining_tokens"):
    if e[0] != "place":
        return False
    if not any(p[0] == "field" and p[2] == "Continue" for p in e[4]):
        return False
    base = e[1]
    if base[0] != "call" or not base[1].endswith("::branch"):
        return False
    inner = base[2][0]
    return inner[0] == "call" and sfx(inner[1], collector)


def edit_path_rules(ck, F, E, P, strict=True):
    """Interpreter::evaluate_impl stores a numbered line only with the success payload of tokenisation,
    under the number parsed from the same text.  Returns the store Call (or None)."""
    ev = get_fn(ck, F, "Interpreter::evaluate_impl")
    if ev is None:
        return None, None
    cs = calls_through(F, ev, "Program::set_numbered_line")
    if strict:
        ck.require(len(cs) == 1, "%s:EDITPATH:one-call" % P, "edit path", "one store call in evaluate_impl",
                   "expected exactly one set_numbered_line call in evaluate_impl, found %d" % len(cs), ev.span)
    else:
        # only the success path matters here: look at the call that stores the tokenised text
        good = [c for c in cs if is_tokenize_ok_payload(ev.expr(c.args[2]))]
        ck.require(len(good) >= 1, "%s:EDITPATH:stores-tokens" % P, "edit path", "evaluate_impl stores the tokenised line",
                   "evaluate_impl no longer stores the tokens it produced", ev.span)
        cs = good
    for c in cs:
        e = ev.expr(c.args[2])
        ck.require(is_tokenize_ok_payload(e), "%s:EDITPATH:tokens-from-ok-arm" % P, "edit path",
                   "tokens argument = Continue payload of Try::branch(Tokenizer::remaining_tokens(..))",
                   "the tokens stored by an edit are not the success payload of tokenisation (%s): a line that "
                   "fails to tokenize could reach the store" % show(e), c.span)
        ck.require(_from_parse(ev, c.args[1]), "%s:EDITPATH:number-from-parse" % P, "edit path",
                   "line number argument comes from parse_line_number(line)",
                   "the stored line number does not come from parse_line_number: %s" % show(ev.expr(c.args[1])),
                   c.span)
        # the tokenizer skipped exactly the parsed prefix of the same text
        tk = [x for x in ev.calls() if sfx(x.callee, "Tokenizer::skip_bytes")]
        ok = False
        for x in tk:
            if _from_parse(ev, x.args[1]):
                ok = True
        ck.require(ok, "%s:EDITPATH:skip-parsed-prefix" % P, "edit path",
                   "Tokenizer::skip_bytes receives the end index returned by parse_line_number",
                   "the tokenizer no longer skips exactly the parsed line-number prefix", ev.span)
    return ev, (cs[0] if cs else None)


def successor_rule(ck, F, P):
    """ProgramLines::after(line) is total on u64 and returns a line strictly greater than `line`."""
    b = get_fn(ck, F, "ProgramLines::after")
    if b is None:
        return
    rcalls = [c for c in b.calls() if c.callee.endswith("BTreeSet::range") or c.callee.endswith("BTreeMap::range")]
    if not rcalls:
        ck.missing("%s:SUCC:range" % P, "a range() query on the sorted set inside ProgramLines::after")
        return
    c = rcalls[0]
    ck.require("sorted_line_numbers" in show(b.expr(c.args[0])), "%s:SUCC:ordered-source" % P, "successor",
               "after() queries sorted_line_numbers", "after() does not query the sorted line set", c.span)
    bound = b.expr(c.args[1])
    kind, strict, total = classify_lower_bound(b, bound)
    ck.note("after_lower_bound", {"expr": show(bound), "kind": kind})
    ck.require(strict, "%s:SUCC:strict" % P, "successor",
               "lower bound of the range excludes `line` (%s)" % kind,
               "ProgramLines::after(line) may return `line` itself or an earlier line (lower bound: %s): "
               "next_line can cycle and execution order is no longer ascending" % show(bound), c.span)
    ck.require(total, "%s:OVF:program_lines::ProgramLines::after:Add" % P, "successor",
               "lower bound computed without overflow (%s)" % kind,
               "`line + 1` overflows for line 18446744073709551615: panic in debug builds, wrap-around to the "
               "first line in release builds", c.span)
    # the result is the first element of that range
    ret_ok = False
    for r in b.return_blocks():
        pass
    e0 = None
    for bb, i, pl, rv, sp in b.assigns():
        if not pl["proj"] and pl["local"] == 0:
            e0 = b.rv_expr(rv)
    d = b.unique_def(0)
    if d is not None and d[0] == "call":
        e0 = ("call", d[2].callee, [b.expr(a) for a in d[2].args], d[2])
    if e0 is not None:
        txt = show(e0)
        ret_ok = "next(" in txt and "range(" in txt and "next_back" not in txt and "last(" not in txt
    if not ret_ok:
        # several definitions of the result (`let start = line.checked_add(1)?; range(start..).next().copied()`): every value
        # returned, other than the propagated None, is the first element of the range
        from lib import call_names_deep
        vals = []
        for d in b.defs().get(0, []):
            if d[0] in ("call", "partial-call"):
                c = d[2]
                if c.callee.endswith("from_residual"):
                    continue
                vals.append(call_names_deep(b, ("call", c.callee, [b.expr(a) for a in c.args], c)) | {c.callee.split("::")[-1]})
            elif d[0] in ("assign", "partial"):
                e_ = b.rv_expr(d[3])
                if e_[0] == "agg" and e_[2] == "None":
                    continue
                vals.append(call_names_deep(b, e_))
        ret_ok = bool(vals) and all("next" in v and "range" in v and not (v & {"next_back", "last", "rev", "max"}) for v in vals)
    ck.require(ret_ok, "%s:SUCC:first-of-range" % P, "successor",
               "after() returns the first element of the range", "after() does not return range(..).next(): %s"
               % (show(e0) if e0 else "?"), b.span)


def classify_lower_bound(body, e):
    s = e
    # RangeFrom { start }
    if s[0] == "agg" and str(s[1]).endswith("RangeFrom"):
        st = s[3][0]
        return _classify_plus_one(body, st)
    # (Bound::Excluded(line), Bound::Unbounded)
    if s[0] == "agg" and s[1] in ("tuple",) and len(s[3]) == 2:
        lo, hi = s[3]
        if lo[0] == "agg" and str(lo[1]).endswith("Bound") and lo[2] == "Excluded":
            inner = strip_expr(lo[3][0])
            if inner == ("param", 1) or (inner[0] == "ref" and strip_expr(inner[1]) == ("param", 1)):
                if hi[0] == "agg" and hi[2] == "Unbounded":
                    return "(Excluded(line), Unbounded)", True, True
        if lo[0] == "agg" and str(lo[1]).endswith("Bound") and lo[2] == "Included":
            k, strict, total = _classify_plus_one(body, lo[3][0])
            return "(Included(%s), ..)" % k, strict, total
    return "unrecognised: " + show(s), False, True


def _classify_plus_one(body, st):
    st = strip_expr(st)
    # checked MIR form: (AddWithOverflow(line, 1)).0 guarded by assert
    if st[0] == "place" and st[1][0] == "binop" and st[1][1] == "AddWithOverflow":
        a, b_ = strip_expr(st[1][2]), strip_expr(st[1][3])
        if a == ("param", 1) and b_[0] == "const" and b_[1].get("int") == 1:
            return "line + 1 (overflow-checked arithmetic, panics/wraps at u64::MAX)", True, False
    if st[0] == "binop" and st[1] in ("Add", "AddUnchecked"):
        a, b_ = strip_expr(st[2]), strip_expr(st[3])
        if a == ("param", 1) and b_[0] == "const" and b_[1].get("int") == 1:
            return "line + 1 (unchecked)", True, False
    if st[0] == "place" and st[1][0] == "call" and st[1][1].endswith("::branch") and st[1][2] and \
            any(p[0] == "field" and p[2] == "Continue" for p in st[4]):
        # `line.checked_add(1)?`: the Continue payload of the Option's Try::branch is the Some payload
        inner = strip_expr(st[1][2][0])
        if inner[0] == "call" and inner[1].endswith("checked_add"):
            args = inner[2]
            if strip_expr(args[0]) == ("param", 1) and strip_expr(args[1])[0] == "const" and strip_expr(args[1])[1].get("int") == 1:
                return "line.checked_add(1)? (None at u64::MAX)", True, True
    if st[0] == "place" and st[1][0] == "call" and st[1][1].endswith("checked_add"):
        args = st[1][2]
        if strip_expr(args[0]) == ("param", 1) and strip_expr(args[1])[0] == "const" and \
                strip_expr(args[1])[1].get("int") == 1 and any(p[0] == "field" and p[2] == "Some" for p in st[4]):
            return "line.checked_add(1)? (None at u64::MAX)", True, True
    if st[0] == "call" and (st[1].endswith("saturating_add") or st[1].endswith("wrapping_add")):
        return st[1].split("::")[-1] + " (not strict at u64::MAX)", False, True
    if st == ("param", 1):
        return "line (inclusive)", False, True
    return "unrecognised start: " + show(st), False, True


def map_rule(ck, F, E, P):
    """INV-MAP: per file line of SourceFileAnalyzer::run, the BASIC line is registered in the source map
    iff its tokens were stored in the program; every file line pushes exactly one range entry and one
    token list (so file-line indices are always in range)."""
    from lib import strip_refs
    run = get_fn(ck, F, "SourceFileAnalyzer::run")
    if run is None:
        return
    # the per-line loop: header = block calling Enumerate::next over `lines`
    hdr = None
    for c in run.calls():
        if c.callee.endswith("Enumerate as core::iter::traits::iterator::Iterator>::next") and \
                any(c.bb in blk for blk in run.natural_loops().values()):
            hdr = c.bb
            break
    loops = run.natural_loops()
    if hdr is None or hdr not in loops:
        # header may be the goto block before the call
        for h, blk in loops.items():
            if hdr in blk and any(cc.bb == hdr for cc in run.calls()):
                if hdr in run.succs(h) or h == hdr:
                    hdr_loop = h
                    break
        else:
            hdr_loop = None
    else:
        hdr_loop = hdr
    if hdr is None or hdr_loop is None:
        ck.missing("%s:MAP:loop" % P, "the per-file-line loop of SourceFileAnalyzer::run")
        return
    try:
        paths = run.const_paths(hdr, {hdr_loop, hdr})
    except OverflowError as e:
        ck.bad("%s:MAP:paths" % P, "INV-MAP", str(e), run.span)
        return
    n = 0
    bad_iff = []
    bad_one = []
    bad_ranges = []

    def direct_counts(body, calls):
        stored = sum(1 for c in calls if sfx(c.callee, "Program::set_numbered_line"))
        mapped = sum(1 for c in calls if sfx(c.callee, "SourceFileMap::add"))
        other = sum(1 for c in calls if sfx(c.callee, "SourceFileMap::add_empty") or sfx(c.callee, "SourceFileMap::add_unstored"))
        pushes = 0
        for c in calls:
            if c.callee.endswith("Vec::push"):
                e = strip_refs(body.expr(c.args[0]))
                if e[0] == "place" and e[2] and e[2][-1][1] == "line_tokens" and e[2][-1][0].endswith("SourceFileAnalyzer"):
                    pushes += 1
        return (stored, mapped, other, pushes)

    summaries = {}

    def helper_summary(path_):
        """what a private helper of the analyzer (`add_ignored_line`) contributes, when all its paths contribute the same"""
        if path_ in summaries:
            return summaries[path_]
        summaries[path_] = (0, 0, 0, 0)
        hb = F.bodies.get(path_)
        if hb is None or hb.path == run.path or "SourceFileAnalyzer::" not in path_ or hb.natural_loops():
            return summaries[path_]
        seen = set()
        try:
            for p2 in hb.paths(limit=2000):
                if hb.term(p2[-1])["k"] != "return":
                    continue
                cs = [hb.call_at(b) for b in p2]
                seen.add(direct_counts(hb, [c for c in cs if c is not None]))
        except OverflowError:
            return summaries[path_]
        if len(seen) == 1:
            summaries[path_] = seen.pop()
        return summaries[path_]
    for path, stop in paths:
        if stop is None:
            continue  # loop exit
        n += 1
        calls = [run.call_at(b) for b in path]
        calls = [c for c in calls if c is not None]
        stored, mapped, other, pushes = direct_counts(run, calls)
        for c in calls:
            hs = helper_summary(c.callee)
            stored, mapped, other, pushes = stored + hs[0], mapped + hs[1], other + hs[2], pushes + hs[3]
        entries = mapped + other
        if (stored > 0) != (mapped > 0) or stored > 1 or mapped > 1:
            bad_iff.append((stored, mapped, path))
        if entries != 1 or pushes != 1:
            bad_one.append((entries, pushes, path))
        if mapped:
            has_some = False
            for b in path:
                for st in run.blocks[b]["stmts"]:
                    if st["k"] == "assign":
                        fs = [p for p in st["place"]["proj"] if p["k"] == "field"]
                        if fs and fs[-1].get("name") == "token_ranges":
                            ee = run.rv_expr(st["rv"])
                            if ee[0] == "agg" and ee[2] == "Some":
                                has_some = True
            if not has_some:
                bad_ranges.append(path)
    ck.note("%s.run_loop_paths" % P, n)
    ck.require(n >= 4, "%s:MAP:run:paths-found" % P, "INV-MAP", "%d feasible paths through one loop iteration" % n,
               "only %d paths through the per-line loop were found: the rule would be vacuous" % n, run.span, nontrivial=False)
    ck.require(not bad_iff, "%s:MAP:run:mapped-iff-stored" % P, "INV-MAP",
               "on all %d paths: SourceFileMap::add(basic_line, ..) is called iff Program::set_numbered_line(..) is" % n,
               "a file line can register its BASIC line number in the source map without its tokens being stored in the "
               "program (or vice versa): %s -- diagnostics for the definition still in effect can then not be mapped "
               "(unwrap on None / explicit panic in the analyzer; `10 X = 1` then `10`)"
               % ["stored=%d mapped=%d" % (a, b) for a, b, _p in bad_iff[:3]], run.span)
    ck.require(not bad_one, "%s:MAP:run:one-entry-per-file-line" % P, "INV-MAP",
               "every path pushes exactly one range entry and one token list",
               "a file line pushes %s (range entries, token lists): file-line indices of diagnostics / token_types() "
               "go out of step with the file" % [(a, b) for a, b, _p in bad_one[:3]], run.span)
    ck.require(not bad_ranges, "%s:MAP:run:ranges-when-mapped" % P, "INV-MAP",
               "token_ranges = Some(..) on every path that registers the line",
               "a stored line is registered without token ranges", run.span)
    # the ranges and the tokens come from the same tokenisation
    setc = run.calls_to("Program::set_numbered_line")
    ok = False
    for c in setc:
        e = run.expr(c.args[2])
        if "remaining_tokens_and_ranges" in show_calls(e):
            ok = True
    ck.require(ok, "%s:MAP:run:tokens-from-same-tokenisation" % P, "INV-MAP",
               "stored tokens are component .0 of remaining_tokens_and_ranges()",
               "the analyzer stores tokens that do not come from remaining_tokens_and_ranges()", run.span)
    # SourceFileMap::add records the index of the entry it pushes
    ad = get_fn(ck, F, "SourceFileMap::add")
    if ad is not None:
        ins = [c for c in ad.calls() if c.callee.endswith("HashMap::insert")]
        psh = [c for c in ad.calls() if c.callee.endswith("Vec::push")]
        # the push may be delegated to a sibling method that does nothing but push its argument onto file_line_ranges
        for c in ad.calls():
            hb = F.bodies.get(c.callee)
            if hb is not None and hb.self_adt == ad.self_adt and c.callee != ad.path:
                hp = [x for x in hb.calls() if x.callee.endswith("Vec::push") and "file_line_ranges" in show(hb.expr(x.args[0]))]
                if len(hp) == 1 and len([x for x in hb.calls() if not x.callee.endswith("Vec::push")]) == 0:
                    psh.append(c)
        ok = False
        for i in ins:
            v = strip_expr(ad.expr(i.args[2]))
            if v[0] == "call" and v[1].endswith("Vec::len") and "file_line_ranges" in show(v) and psh and \
                    all(ad.dominates(v[3].bb, p.bb) for p in psh) and len(psh) == 1:
                ok = True
        ck.require(ok, "%s:MAP:add:index-of-pushed-entry" % P, "INV-MAP",
                   "add() maps the BASIC line to file_line_ranges.len() taken before its single push",
                   "SourceFileMap::add no longer maps the BASIC line to the index of the entry it pushes", ad.span)
