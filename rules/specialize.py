"""Partial evaluation of forwarding wrappers over function-pointer-parameterised helpers.

    fn evaluate_logical_and_expression(&mut self) -> R {
        self.evaluate_keyword_operator_expression(Token::And, Self::evaluate_equality_expression, evaluate_logical_and)
    }

When a local function W consists of nothing but one call of a local helper H whose extra arguments are constants (unit
enum variants, literals, function items), W's body is replaced -- for the analysis only -- by a copy of H in which those
parameters are bound to the constants and calls through the function-pointer parameters are resolved to the functions
passed.  Every rule that looks at W then sees the code W executes, however the maintainers chose to share it.
"""
import copy
import json


def _strip_reborrow(blocks, op):
    """local that `op` (move/copy of a temp) ultimately reborrows / copies: follow `_t = &mut *_p`, `_t = copy _p`"""
    seen = 0
    while op.get("k") in ("copy", "move") and not op["place"]["proj"] and seen < 6:
        l = op["place"]["local"]
        d = None
        n = 0
        for blk in blocks:
            for st in blk["stmts"]:
                if st["k"] == "assign" and st["place"]["local"] == l and not st["place"]["proj"]:
                    d = st["rv"]
                    n += 1
        if n != 1:
            return l
        if d["k"] == "use" and d["op"].get("k") in ("copy", "move"):
            op = d["op"]
        elif d["k"] == "ref" and [p["k"] for p in d["place"]["proj"]] in ([], ["deref"]):
            return d["place"]["local"]
        elif d["k"] == "cast" and d["op"].get("k") in ("copy", "move", "const"):
            op = d["op"]
        else:
            return l
        seen += 1
    return op["place"]["local"] if op.get("k") in ("copy", "move") else None


def _const_rv(blocks, op):
    """the constant rvalue a call argument stands for: ('fn', path) | ('rv', rvalue dict) | None"""
    for _ in range(6):
        if op.get("k") == "const":
            if "fn" in op:
                return ("fn", op["fn"], op)
            return ("rv", {"k": "use", "op": op})
        if op.get("k") not in ("copy", "move") or op["place"]["proj"]:
            return None
        l = op["place"]["local"]
        defs = [st["rv"] for blk in blocks for st in blk["stmts"]
                if st["k"] == "assign" and st["place"]["local"] == l and not st["place"]["proj"]]
        if len(defs) != 1:
            return None
        d = defs[0]
        if d["k"] == "aggregate" and not d.get("ops"):
            return ("rv", d)
        if d["k"] in ("use", "cast") and isinstance(d.get("op"), dict):
            op = d["op"]
            continue
        return None
    return None


def _rename(obj, mapping):
    """rename locals in places (dicts with 'local')"""
    if isinstance(obj, dict):
        if "local" in obj and isinstance(obj["local"], int) and "proj" in obj and obj["local"] in mapping:
            obj["local"] = mapping[obj["local"]]
        for v in obj.values():
            _rename(v, mapping)
    elif isinstance(obj, list):
        for v in obj:
            _rename(v, mapping)


def specialize(raw_bodies, norm):
    by_path = {norm(b["path"]): b for b in raw_bodies}
    done = 0
    for w in raw_bodies:
        if w.get("kind") not in ("Fn", "AssocFn") or w["crate"] not in ("abasic_core", "abasic_web", "abasic_lsp", "abasic"):
            continue
        blocks = [b for b in w["blocks"] if not b.get("cleanup")]
        calls = [b["term"] for b in blocks if b["term"]["k"] == "call"]
        if len(calls) != 1:
            continue
        c = calls[0]
        h = by_path.get(norm(c.get("callee", "")))
        if h is None or h is w or h["crate"] != w["crate"] or h.get("kind") not in ("Fn", "AssocFn"):
            continue
        if not (c["dest"]["local"] == 0 and not c["dest"]["proj"]):
            continue
        # every other block just returns / jumps; no switches (the wrapper decides nothing)
        if any(b["term"]["k"] in ("switch", "assert") for b in blocks):
            continue
        if len(c["args"]) != h["arg_count"]:
            continue
        binds = {}
        passthrough = {}
        ok = True
        for i, a in enumerate(c["args"]):
            cv = _const_rv(w["blocks"], a)
            if cv is not None:
                binds[i + 1] = cv
                continue
            src = _strip_reborrow(w["blocks"], a)
            if src is None or not (1 <= src <= w["arg_count"]):
                ok = False
                break
            passthrough[i + 1] = src
        if not ok or not any(v[0] == "fn" for v in binds.values()):
            continue
        # pass-through parameters must keep their positions (self stays self)
        if any(k != v for k, v in passthrough.items()):
            continue
        hh = copy.deepcopy(h)
        n0 = len(hh["locals"])
        mapping = {}
        prologue = []
        for p, cv in sorted(binds.items()):
            new = n0 + len(mapping)
            mapping[p] = new
            hh["locals"].append(dict(hh["locals"][p], i=new))
            if cv[0] == "rv":
                prologue.append({"k": "assign", "place": {"local": new, "proj": [], "ty": hh["locals"][p]["ty"]}, "rv": cv[1],
                                 "span": w["span"]})
            else:
                prologue.append({"k": "assign", "place": {"local": new, "proj": [], "ty": hh["locals"][p]["ty"]},
                                 "rv": {"k": "use", "op": cv[2]}, "span": w["span"]})
        _rename(hh["blocks"], mapping)
        _rename(hh.get("debug", []), mapping)
        # resolve calls through the bound function pointers
        fnbind = {mapping[p]: cv for p, cv in binds.items() if cv[0] == "fn"}
        for blk in hh["blocks"]:
            t = blk["term"]
            if t["k"] == "call" and t.get("callee") == "(indirect)" and isinstance(t.get("func"), dict):
                src = _strip_reborrow(hh["blocks"], t["func"])
                if src in fnbind:
                    op = fnbind[src][2]
                    t["callee"] = op["fn"]
                    for k in ("fn_full", "fn_crate"):
                        if k in op:
                            t[k.replace("fn_", "callee_") if False else k] = op[k]
                    t["callee_crate"] = op.get("fn_crate", w["crate"])
                    t["resolved_by"] = "specialisation of %s for %s" % (norm(h["path"]), norm(w["path"]))
            # `step: impl FnOnce(..)` called as `step(a, b)`: `<F as FnOnce<(A, B)>>::call_once(step, (a, b))`
            elif t["k"] == "call" and str(t.get("callee", "")).split("::")[-1] in ("call_once", "call_mut", "call") and \
                    "ops::function::Fn" in str(t.get("callee", "")) and len(t.get("args", [])) == 2:
                src = _strip_reborrow(hh["blocks"], t["args"][0])
                if src in fnbind:
                    tup = t["args"][1]
                    ops = None
                    if tup.get("k") in ("copy", "move") and not tup["place"]["proj"]:
                        ds = [st["rv"] for b2 in hh["blocks"] for st in b2["stmts"]
                              if st["k"] == "assign" and st["place"]["local"] == tup["place"]["local"] and not st["place"]["proj"]]
                        if len(ds) == 1 and ds[0]["k"] == "aggregate" and ds[0].get("agg") == "tuple":
                            ops = ds[0]["ops"]
                    if ops is not None:
                        op = fnbind[src][2]
                        t["callee"] = op["fn"]
                        t["callee_crate"] = op.get("fn_crate", w["crate"])
                        t["args"] = ops
                        t["resolved_by"] = "specialisation of %s for %s" % (norm(h["path"]), norm(w["path"]))
        hh["blocks"][0]["stmts"] = prologue + hh["blocks"][0]["stmts"]
        # the wrapper keeps its identity
        for k in ("path", "span", "is_pub", "vis", "self_adt", "impl_trait", "parent", "kind", "crate"):
            if k in w:
                hh[k] = w[k]
        hh["arg_count"] = w["arg_count"]
        hh["specialised_from"] = norm(h["path"])
        w.clear()
        w.update(hh)
        done += 1
    return done
