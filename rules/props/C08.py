"""C08 -- INPUT suspends and resumes without disturbing the rest of the program.

 1. only INPUT rewinds, and there is an INPUT token to rewind to
 2. the awaiting path executes nothing
 3. the reply is consumed once
 4. the value is stored only on the good arm; REENTER / EXTRA IGNORED arms have the specified effects
 5. reply parsing is the DATA parser and yields at least one item
 6. R-RESUME for INPUT inside THEN..ELSE
 7. what is re-evaluated on REENTER
"""
from lib import (sfx, get_fn, callers_of, strip_expr, strip_refs, show, expr_calls, aggregates, exclusive_region,
                 region_aggregates, bool_switch_true_target)
from props import C06
from props.C17 import region_effects
import tables
import vetted

LEVEL = "other"
EXPLANATION = (
    "Structural argument on the MIR of evaluate_input_statement and its helpers: who may call the rewind helper and "
    "with which token, the effect set of each arm of the statement (effect analysis restricted to the arm's blocks), "
    "single consumption of the pending reply through Option::take, and dominance of the store by the Ok arm of the "
    "coercion.  That a stored reply continues exactly as an assignment would is not decided beyond that."
)
TRUSTED = []

INTERP = "abasic_core::interpreter::Interpreter"
PROGRAM = "abasic_core::program::Program"
SE = "abasic_core::statement::StatementEvaluator"


def tops(paths):
    out = set()
    for (k, p) in paths:
        els = [x for x in p if x[0] in (INTERP, PROGRAM)]
        if not els:
            continue
        if els[0] == (INTERP, "program") and len(els) > 1:
            out.add("Program." + els[1][1])
        else:
            out.add("%s.%s" % (els[0][0].split("::")[-1], els[0][1]))
    return out


def await_rule(ck, F, E, P):
    """INPUT decides whether a reply is pending before doing anything else: every parsing / evaluating call of
    evaluate_input_statement lies on the Some arm of take_input() (shared with C07: breaking at the prompt and
    CONTinuing re-executes this statement, which must then be a no-op until a reply exists)."""
    ei = F.one("StatementEvaluator::evaluate_input_statement")
    if ei is None:
        ck.missing("%s:AWAIT:fn" % P, "StatementEvaluator::evaluate_input_statement")
        return
    ti = ei.calls_to("Interpreter::take_input")
    if len(ti) != 1:
        ck.bad("%s:AWAIT:nothing-before-reply-check" % P, "awaiting path", "take_input is called %d times" % len(ti), ei.span)
        return
    some_t = None
    for b in sorted(ei.reachable()):
        info = ei.switch_info(b)
        if info and info[3] and set(info[3].values()) == {"None", "Some"} and any(len(x) > 3 and x[3] is ti[0] for x in expr_calls(info[0])):
            for v, n in info[3].items():
                if n == "Some":
                    some_t = info[1].get(v, info[2])
            break
    early = []
    for c in ei.calls():
        if not c.is_local or c is ti[0]:
            continue
        nm = c.callee.split("::")[-1]
        if nm in ("program", "rewind_program_and_await_input", "output"):
            continue
        if some_t is None or not ei.dominates(some_t, c.bb):
            early.append(nm)
    ck.require(some_t is not None and not early, "%s:AWAIT:nothing-before-reply-check" % P, "awaiting path",
               "every parsing / evaluating call of INPUT lies on the Some arm of take_input()",
               "evaluate_input_statement runs %s before (or regardless of) checking for a pending reply: the target's subscript "
               "expressions are evaluated when the interpreter merely starts awaiting input, and again on every re-execution "
               "(after the reply, after REENTER, after break + CONT at the prompt)" % sorted(set(early)), ei.span)


def coercion_table(ck, F):
    """Value::coerce_from_data_element is the 2x2 table the statement relies on: a reply item that is text (which includes the
    empty reply) offered to a numeric variable is DataTypeMismatch -- the REENTER trigger -- and every other cell is Ok with
    the variable's kind.  Decided per path: the `$` test on the name, the DataElement variant, the outcome."""
    from lib import path_records, dollar_predicates
    b = get_fn(ck, F, "Value::coerce_from_data_element")
    if b is None:
        return
    preds = {p.split("::")[-1] for p in dollar_predicates(F)}
    cells = {}
    bad = []
    for r in path_records(b):
        sv = el = None
        for d in r["decisions"]:
            cn = [x[1].split("::")[-1] for x in expr_calls(d[3])]
            if d[2] in (True, False) and ("ends_with" in cn or preds & set(cn)):
                sv = d[2]
            elif d[2] in ("String", "Number"):
                el = d[2]
        if r["outcome"] is None and not r["aggs"]:
            continue      # unwinding / bookkeeping path
        if sv is None or el is None:
            bad.append("a path decides without testing both the name's `$` and the item's kind (%s)" % [(d[0][:40], d[2]) for d in r["decisions"]])
            continue
        out = r["outcome"] or "?"
        vals = [a[1] for a in r["aggs"] if a[0].endswith("value::Value")]
        want = "Err:DataTypeMismatch" if (not sv and el == "String") else "Ok"
        got = out if out.startswith("Err") else ("Ok" if out == "Ok" else out)
        kind_ok = True
        if want == "Ok" and vals:
            kind_ok = vals[-1] == ("String" if sv else "Number")
        cells[(sv, el)] = got
        if got != want or not kind_ok:
            bad.append("%s variable, %s item: %s%s (expected %s)" % ("string" if sv else "numeric", el, got,
                                                                      "" if kind_ok else " of the wrong kind", want))
    ck.floor("C08.cells of the coercion table", len(cells), 4)
    ck.require(not bad, "C08:COERCE:table", "coercion of a reply item",
               "text -> numeric variable is DataTypeMismatch on every path; the other three cells give a value of the variable's kind",
               "coerce_from_data_element no longer implements the reply table: %s -- a reply that is text (e.g. an empty one) is "
               "stored into a numeric variable instead of giving REENTER" % "; ".join(sorted(set(bad))), b.span)


def host_reply_rule(ck, F):
    """"all reply texts (.. empty ..)": whatever the user answers at the `?` prompt is what INPUT sees.  In the hosts of this
    repository the text handed to Interpreter::provide_input is a parameter (web adapter) or the payload of the line reader's
    result (CLI) -- not something a local helper has filtered, trimmed or retried (a helper that re-prompts on a blank line keeps
    an empty reply from ever reaching a waiting INPUT)."""
    n = 0
    for p, body in sorted(F.bodies.items()):
        if body.crate == "abasic_core" or "__wasm_bindgen_generated" in p:
            continue
        for c in body.calls():
            if not c.callee.endswith("Interpreter::provide_input"):
                continue
            n += 1

            def verdict(b, e, depth=0):
                e = strip_expr(e)
                while e[0] in ("place", "ref", "cast") and isinstance(e[1] if e[0] != "cast" else e[2], tuple):
                    e = strip_expr(e[1] if e[0] != "cast" else e[2])
                if e[0] == "param":
                    return None
                if e[0] != "call":
                    return "is computed (%s)" % show(e)[:60]
                nm = e[1].split("::")[-1]
                hb = F.bodies.get(e[1])
                if hb is None:
                    if nm in ("readline", "read_line", "readline_with_initial"):
                        return None
                    if nm in ("to_string", "to_owned", "into", "from", "clone", "unwrap", "expect", "unwrap_or_default"):
                        return verdict(b, e[2][0], depth) if e[2] else "is computed"
                    return "passes through %s" % nm
                if depth >= 2:
                    return "passes through nested helpers"
                if hb.natural_loops():
                    return "comes from %s, which loops (a reply can be read and discarded)" % nm
                if any(x.callee.split("::")[-1] in ("trim", "trim_start", "trim_end", "is_empty", "to_uppercase", "to_lowercase",
                                                     "replace", "split", "filter") for x in hb.calls()):
                    return "comes from %s, which inspects or rewrites the text" % nm
                return verdict(hb, hb.binding_expr(0, 12), depth + 1)
            why = verdict(body, body.expr(c.args[1]))
            ck.require(why is None, "C08:HOST:reply-verbatim:%s" % p.split("::")[-1], "hosts forward the reply",
                       "%s hands provide_input its parameter / the line reader's result unchanged" % p,
                       "in %s the reply given to provide_input %s: some replies (an empty one) never reach the waiting INPUT, or "
                       "reach it altered" % (p, why), c.span)
    ck.floor("C08.host call sites of provide_input", n, 2)


def run(ck, F, E):
    coercion_table(ck, F)
    # reply parsing shares the DATA item parser: a quoted reply is one item whatever it contains (rule shared with C14)
    import framework
    from props import C14
    C14.quoted_items_are_opaque(framework.Rekeyed(ck, "C14", "C08:REPLY"), F)
    C14.quoted_items_stay_text(framework.Rekeyed(ck, "C14", "C08:REPLY"), F)
    host_reply_rule(ck, F)
    # ---- (1)
    cs = sorted({b.path for b, _ in callers_of(F, "Interpreter::rewind_program_and_await_input")})
    ck.require(cs == [SE + "::evaluate_input_statement"], "C08:REWIND:callers", "only INPUT rewinds",
               "rewind_program_and_await_input is called only from evaluate_input_statement",
               "rewind_program_and_await_input is called from %s" % cs)
    cs2 = sorted({b.path for b, _ in callers_of(F, "Program::rewind_before_token")})
    ck.require(cs2 == [INTERP + "::rewind_program_and_await_input"], "C08:REWIND:primitive-callers", "only INPUT rewinds",
               "rewind_before_token is called only from rewind_program_and_await_input", "rewind_before_token is called from %s" % cs2)
    rw = get_fn(ck, F, "Interpreter::rewind_program_and_await_input")
    if rw is not None:
        c = rw.calls_to("Program::rewind_before_token")
        ok = len(c) == 1 and strip_expr(rw.expr(c[0].args[1]))[0] == "agg" and strip_expr(rw.expr(c[0].args[1]))[2] == "Input"
        ck.require(ok, "C08:REWIND:token", "only INPUT rewinds", "the cursor is rewound to Token::Input",
                   "the rewind no longer targets the INPUT token", rw.span)
        st = False
        from lib import field_stores
        for (b, e, sp) in field_stores(F, rw, "state"):
            e = strip_expr(e)
            st = e[0] == "agg" and e[2] == "AwaitingInput"
        ck.require(st, "C08:REWIND:state", "only INPUT rewinds", "state := AwaitingInput", "the rewind no longer reports AwaitingInput", rw.span)
    rb = get_fn(ck, F, "Program::rewind_before_token")
    if rb is not None:
        loops = rb.natural_loops()
        dec = False
        for h, blk in loops.items():
            subs = [st for b in blk for st in rb.blocks[b]["stmts"] if st["k"] == "assign" and st["rv"]["k"] == "binop"
                    and st["rv"]["op"] == "SubWithOverflow" and "token_index" in show(rb.rv_expr(st["rv"]))]
            cmpc = [c for c in rb.calls() if c.bb in blk and (c.callee.endswith("::eq") or c.callee.endswith("::ne"))
                    and "peek_next_token" in " ".join(show(rb.expr(a)) for a in c.args)]
            if subs and cmpc:
                dec = True
        backward_api = [c.callee.split("::")[-1] for c in rb.calls() if c.callee.split("::")[-1] in ("rposition", "rfind", "rev", "next_back")]
        forward_api = [c.callee.split("::")[-1] for c in rb.calls() if c.callee.split("::")[-1] in ("position", "find", "find_map", "iter")
                       and not backward_api]
        ck.require((dec or backward_api) and not forward_api, "C08:REWIND:nearest-before-cursor", "only INPUT rewinds",
                   "the search walks back from the cursor (token_index -= 1 per step) to the nearest matching token",
                   "rewind_before_token no longer searches backwards from the cursor (%s): with two INPUTs on a line the second one "
                   "resumes at the first" % (forward_api or "no decreasing loop"), rb.span)
    disp = tables.dispatch_table(F, "StatementEvaluator::evaluate_statement")
    cs3 = sorted({b.path for b, _ in callers_of(F, "StatementEvaluator::evaluate_input_statement")})
    ck.require(disp is not None and disp.get("Input", {}).get("effect") == "evaluate_input_statement" and
               cs3 == [SE + "::evaluate_statement"], "C08:REWIND:after-own-token", "only INPUT rewinds",
               "evaluate_input_statement runs only from the Token::Input arm, after that token was consumed on the same line",
               "evaluate_input_statement is reachable from %s / arm %s" % (cs3, disp.get("Input") if disp else None))

    # ---- arms of evaluate_input_statement
    ei = get_fn(ck, F, "StatementEvaluator::evaluate_input_statement")
    if ei is None:
        return
    ti = ei.calls_to("Interpreter::take_input")
    ck.require(len(ti) == 1, "C08:ARMS:take_input", "reply consumption", "one take_input() call", "take_input is called %d times" % len(ti), ei.span)
    if not ti:
        return
    none_t = some_t = None
    for b in sorted(ei.reachable()):
        info = ei.switch_info(b)
        if info and info[3] and set(info[3].values()) == {"None", "Some"} and any(len(x) > 3 and x[3] is ti[0] for x in expr_calls(info[0])):
            for v, n in info[3].items():
                t = info[1].get(v, info[2])
                if n == "None":
                    none_t = t
                else:
                    some_t = t
            break  # the first test is the match; later ones are drop-flag bookkeeping
    if none_t is None or some_t is None:
        ck.missing("C08:ARMS:switch", "the Some/None test of take_input()")
        return
    # (2a) nothing is evaluated before the reply check
    await_rule(ck, F, E, "C08")
    # (2) awaiting path
    nreg = exclusive_region(ei, none_t)
    eff = tops(region_effects(E, ei, nreg))
    calls = [c.callee.split("::")[-1] for c in ei.calls() if c.bb in nreg and c.is_local]
    ck.require(eff <= {"Program.location", "Interpreter.state"} and "evaluate_expression" not in calls and "parse_lvalue" not in calls,
               "C08:AWAIT:effects", "awaiting path", "no reply pending: only the rewind (location) and the state change happen",
               "with no reply pending INPUT also does %s / writes %s before awaiting input" % (calls, sorted(eff)), ei.span)
    # (4) store only on the Ok arm of the coercion
    co = ei.calls_to("Value::coerce_from_data_element")
    av = ei.calls_to("StatementEvaluator::assign_value")
    ok_t = None
    if len(co) == 1:
        for b in sorted(ei.reachable()):
            info = ei.switch_info(b)
            if info and info[3] and set(info[3].values()) == {"Ok", "Err"} and any(len(x) > 3 and x[3] is co[0] for x in expr_calls(info[0])):
                for v, n in info[3].items():
                    if n == "Ok":
                        ok_t = info[1].get(v, info[2])
                    else:
                        err_t = info[1].get(v, info[2])
                break
    good = ok_t is not None and len(av) == 1 and ei.dominates(ok_t, av[0].bb)
    ck.require(good, "C08:STORE:ok-arm-only", "store on the good arm", "assign_value is dominated by the Ok arm of coerce_from_data_element",
               "the reply can be stored without a successful coercion to the variable's kind", ei.span)
    if ok_t is not None:
        # REENTER arm: effects = output + rewind + state
        re_aggs = [(bb, sp) for bb, i, pl, rv, sp in aggregates(ei, "interpreter_output::InterpreterOutput", "Reenter")]
        ok = False
        for (bb, sp) in re_aggs:
            reg = ei.blocks_reachable_from(bb)
            reg = {x for x in reg if ei.dominates(bb, x)}
            eff = tops(region_effects(E, ei, reg))
            has_rw = any(sfx(c.callee, "Interpreter::rewind_program_and_await_input") and c.bb in reg for c in ei.calls())
            if eff <= {"Interpreter.output", "Program.location", "Interpreter.state"} and has_rw and not ei.dominates(ok_t, bb):
                ok = True
        ck.require(ok, "C08:REENTER:effects", "REENTER arm", "DataTypeMismatch: output += Reenter, rewind, state -- nothing else",
                   "the REENTER arm no longer consists of exactly the notice and the rewind", ei.span)
        ex = [(bb, sp) for bb, i, pl, rv, sp in aggregates(ei, "interpreter_output::InterpreterOutput", "ExtraIgnored")]
        ok = bool(ex) and all(ei.dominates(av[0].bb, bb) for bb, sp in ex) if av else False
        ck.require(ok, "C08:EXTRA:after-store", "EXTRA IGNORED", "ExtraIgnored is emitted only after the store",
                   "EXTRA IGNORED can be emitted without (or before) storing the first item", ei.span)
        # condition: data.len() > 1 || has_leftover_input
        txt = ""
        for b in sorted(ei.reachable()):
            t = ei.term(b)
            if t["k"] == "switch" and ex and ei.dominates(b, ex[0][0]):
                txt += " " + show(ei.expr(t["discr"]))
        ck.require("len(" in txt and "Gt" in txt or "len" in txt, "C08:EXTRA:condition", "EXTRA IGNORED",
                   "guarded by data.len() > 1 || has_leftover_input", "the EXTRA IGNORED condition changed: %s" % txt[:200], ei.span,
                   nontrivial=False)
    # EXTRA IGNORED: "leftover" means the DATA parser did not consume the whole reply
    tkb = F.one("Interpreter::take_input")
    if tkb is not None:
        ok = False
        for b, i, pl, rv, sp in tkb.assigns():
            if rv["k"] == "binop" and rv["op"] in ("Lt", "Gt", "Ne"):
                l, r = show(tkb.expr(rv["a"])), show(tkb.expr(rv["b"]))
                if rv["op"] == "Gt":
                    l, r = r, l
                if "parse_data_until_colon" in l and ".1" in l and "len(" in r and "input" in r:
                    ok = True
        ck.require(ok, "C08:EXTRA:leftover-by-bytes-read", "EXTRA IGNORED",
                   "has_leftover_input = bytes consumed by the DATA parser < reply length",
                   "take_input no longer derives `leftover input` from the number of bytes the DATA parser consumed: a quoted reply "
                   "containing a colon (\"12:30\") is reported as EXTRA IGNORED", tkb.span)
    # (3) reply consumed once
    ws = E.writers_of_field("interpreter::Interpreter", "input")
    from lib import allowed_via_callers
    ok_w = ("Interpreter::take_input", "Interpreter::provide_input", "Interpreter::maybe_process_command")
    names = sorted(n.split("::")[-1] for n in ws)
    ck.require(all(allowed_via_callers(F, n, ok_w) for n in ws), "C08:REPLY:writers", "reply consumption",
               "Interpreter.input is written by %s" % names, "Interpreter.input is also written by %s" % names)
    tk = get_fn(ck, F, "Interpreter::take_input")
    if tk is not None:
        reads = [c for c in tk.calls() if c.args and "input" in show(tk.expr(c.args[0])) and c.callee.startswith("core::option::Option::")]
        ck.require(len(reads) == 1 and reads[0].callee.endswith("Option::take"), "C08:REPLY:take-once", "reply consumption",
                   "the pending reply is read through Option::take (consumed)", "take_input reads the pending reply without consuming it", tk.span)
        ck.require(bool(tk.calls_to("data::parse_data_until_colon")), "C08:PARSE:data-parser", "reply parsing",
                   "the reply is parsed by parse_data_until_colon (the DATA item parser)", "the reply is no longer parsed by the DATA parser", tk.span)
    others = []
    for b in F.bodies.values():
        if b.crate == "abasic_core" and not b.path.endswith("Debug>::fmt") and not sfx(b.path, "Interpreter::take_input"):
            for bb, i, pl, rv, sp in b.assigns():
                e = show(b.rv_expr(rv))
                if ".input" in e and "Interpreter" in b.path and "arg0.input" in e:
                    others.append(b.path)
    ck.require(not others, "C08:REPLY:no-other-reader", "reply consumption", "nobody else reads Interpreter.input",
               "Interpreter.input is also read in %s" % sorted(set(others)))
    # (5) data[0]
    sites = [s for s in __import__("panics").sites_of(ei) if s.kind == "index"]
    ok = bool(sites) and all(vetted.chk_data_nonempty(F, E, ei, s) for s in sites)
    ck.require(ok, "C08:PARSE:first-item-exists", "reply parsing", "parse_data_until_colon never returns an empty list (finish() pushes)",
               "data[0] is no longer guaranteed to exist: an empty reply could panic", ei.span)
    # (6)
    C06.resume_rule(ck, F, "C08")
    # (7) what is re-evaluated on REENTER: everything between taking the reply and the coercion
    pl = ei.calls_to("StatementEvaluator::parse_lvalue")
    if pl and co and ei.dominates(pl[0].bb, co[0].bb):
        w = tops((k, p) for (k, p) in E.info[pl[0].callee].writes if k == 0) - {"Program.location"}
        if w:
            ck.bad("C08:EFFECT:input-reenter:parse_lvalue", "re-evaluation on REENTER",
                   "the target (parse_lvalue, which evaluates subscript expressions) is evaluated before the reply is checked, so on "
                   "REENTER its effects (%s) are repeated: INPUT A(INT(RND(1)*10)) re-draws RND after a rejected reply" % sorted(w),
                   pl[0].span)
        else:
            ck.ok("C08:EFFECT:input-reenter:parse_lvalue", "re-evaluation on REENTER", "the target has no effects beyond the cursor")

    # ---- a reply item "suits" a numeric target exactly when str::parse::<f64> accepts it (the same classifier the DATA
    # parser uses; replies go through DataParser): no extra condition may turn `+5`, `.5` or `1E3` into text
    from props import C14
    C14.data_number_classifier(ck, F, "C08")
