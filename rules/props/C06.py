"""C06 -- the static checker and the interpreter agree on what is an error (sibling cross-check).

 1. dispatch agreement: both statement dispatchers have explicit arms for the same token variants
 2. skeleton agreement: each analyzer function consumes tokens exactly like its evaluator twin
    (outside the property's exclusions: IF/ELSE handling, control transfer, INPUT, DEF bodies, FN calls)
 3. kind-transfer agreement: per operator tier and operand-kind pair the analyzer's outcome equals the
    evaluator's; statement-level kind checks are paired
 4. user functions: the analyzer types a call by the function name's suffix -- sound only if DEF checks the body
 5. jump targets: same literal -> u64 conversion, same membership test
 6. R-RESUME: every token at which a statement handler stops while tokens remain has a dispatch arm
"""
from lib import (sfx, get_fn, strip_expr, strip_refs, show, aggregates, expr_calls, expr_params, path_records,
                 bool_switch_true_target, exclusive_region, region_aggregates)
import grammar
import tables
import framework

LEVEL = "other"
EXPLANATION = (
    "The analyzer is a hand-maintained fork of the evaluator; agreement of siblings is checked function by function on "
    "the MIR: dispatch tables (variant -> handler) are extracted from both SwitchInts and compared; parsing skeletons "
    "(token-cursor calls with their constant token arguments, calls to sibling parsing functions, loop membership, in "
    "reverse post-order) must be equal; the analyzer's kind checks per tier (which operands are check_number'ed or "
    "check'ed against each other, and whether the result is the accumulator's kind or Number) are extracted and the "
    "resulting truth table over {N,S}^2 is compared with the evaluator's (whose table is C02's obligation).  The "
    "property's side conditions (unique definitions executed before use) are taken as given; agreement on which line "
    "carries the error is not decided."
)
TRUSTED = []

EV_E = "abasic_core::expression::ExpressionEvaluator"
EV_S = "abasic_core::statement::StatementEvaluator"
AN_E = "abasic_core::analyzer::expression_analyzer::ExpressionAnalyzer"
AN_S = "abasic_core::analyzer::statement_analyzer::StatementAnalyzer"

EXPR_PAIRS = [
    "evaluate_expression", "evaluate_logical_or_expression", "evaluate_logical_and_expression",
    "evaluate_equality_expression", "evaluate_plus_or_minus_expression", "evaluate_multiply_or_divide_expression",
    "evaluate_exponent_expression", "evaluate_unary_operator", "evaluate_parenthesized_expression",
    "evaluate_expression_term", "evaluate_array_index", "evaluate_unary_number_function_arg",
]
STMT_PAIRS = [
    ("evaluate_let_statement", "evaluate_let_statement"), ("evaluate_assignment_statement", "evaluate_assignment_statement"),
    ("parse_lvalue", "parse_lvalue"), ("parse_optional_array_index", "parse_optional_array_index"),
    ("evaluate_print_statement", "evaluate_print_statement"), ("evaluate_dim_statement", "evaluate_dim_statement"),
    ("evaluate_read_statement", "evaluate_read_statement"), ("evaluate_for_statement", "evaluate_for_statement"),
    ("evaluate_next_statement", "evaluate_next_statement"),
    ("evaluate_goto_statement", "evaluate_goto_or_gosub_statement"), ("evaluate_gosub_statement", "evaluate_goto_or_gosub_statement"),
]
RENAME = {"evaluate_goto_statement": "evaluate_goto_or_gosub_statement", "evaluate_gosub_statement": "evaluate_goto_or_gosub_statement"}

# evaluator outcomes per tier (C02's obligations establish them on the MIR; re-checked below as a dependency)
N, S, X = "N", "S", "X"
SPEC = {
    "arith": {(N, N): N, (N, S): X, (S, N): X, (S, S): X},
    "compare": {(N, N): N, (S, S): N, (N, S): X, (S, N): X},
    "logical": {(N, N): N, (N, S): N, (S, N): N, (S, S): N},
}
TIER_CLASS = {
    "evaluate_logical_or_expression": "logical", "evaluate_logical_and_expression": "logical",
    "evaluate_equality_expression": "compare", "evaluate_plus_or_minus_expression": "arith",
    "evaluate_multiply_or_divide_expression": "arith", "evaluate_exponent_expression": "arith",
}


def run(ck, F, E):
    dispatch(ck, F)
    skeletons(ck, F)
    kinds(ck, F, E)
    statement_checks(ck, F)
    user_functions(ck, F)
    fn_syntax_agreement(ck, F)
    def_before_body(ck, F)
    runtime_kind_checks(ck, F, E)
    def_recorded(ck, F)
    resolution_order(ck, F)
    jump_targets(ck, F)
    resume_rule(ck, F, "C06")
    analyzer_depth(ck, F)


def analyzer_depth(ck, F):
    """The analyzer keeps ONE Program for the whole file and carries on after a line's error.  Its nesting-depth counter (the
    guard against deep recursion) must therefore be given back on every path of every analyzer function that takes it --
    error paths included: a leak per erroneous line adds up until every later, valid line is reported as OUT OF MEMORY,
    an error the analyzer raises for a program that runs fine."""
    import panics
    n = 0
    for g, (field, limit, leaves) in sorted(panics.counter_guard_fns(F).items()):
        for body in sorted(F.bodies.values(), key=lambda b: b.path):
            if not (body.path.startswith(AN_E + "::") or body.path.startswith(AN_S + "::")):
                continue
            if not any(c.callee == g or c.callee in leaves for c in body.calls()):
                continue
            n += 1
            ck.require(panics._balanced(body, g, leaves, exact=True), "C06:DEPTH:%s" % body.path.split("::")[-1], "no error for what runs",
                       "every successful %s is matched by one leave on every path (errors included)" % g.split("::")[-1],
                       "%s can return (e.g. with the line's error) without giving Program.%s back: the count leaks from line to "
                       "line of the analysed file until valid lines are reported as OUT OF MEMORY" % (body.path, field), body.span)
    ck.floor("C06.analyzer users of the depth guard", n, 2)


# ------------------------------------------------------------------------------------- 1
def dispatch(ck, F):
    ev = tables.dispatch_table(F, "StatementEvaluator::evaluate_statement")
    an = tables.dispatch_table(F, "StatementAnalyzer::evaluate_statement")
    if ev is None or an is None:
        ck.missing("C06:DISPATCH", "the two statement dispatch tables")
        return
    ck.floor("C06.dispatch variants", len(ev), 44)
    n_explicit = 0
    for v in sorted(ev):
        a = an.get(v)
        e = ev[v]
        if e["explicit"]:
            n_explicit += 1
        ok = a is not None and a["explicit"] == e["explicit"]
        if ok and not e["explicit"]:
            ok = a["effect"] == e["effect"]
        ck.require(ok, "C06:DISPATCH:%s" % v, "dispatch agreement",
                   "both forks %s Token::%s" % ("handle" if e["explicit"] else "reject (%s)" % e["effect"], v),
                   "Token::%s: interpreter %s, analyzer %s -- a statement starting with it is accepted by one fork and "
                   "rejected by the other" % (v, e, a), nontrivial=e["explicit"])
    ck.floor("C06.explicit dispatch arms", n_explicit, 20)
    # an arm that hands over to a parsing handler does so in both forks to handlers that parse alike: same name (after the
    # goto/gosub merge), or -- when the names differ -- equal token-consumption skeletons.  The analyzer sending `LET` back into
    # its dispatcher accepts `LET PRINT A`, which the interpreter's LET handler (a symbol must follow) rejects.
    for v in sorted(ev):
        e, a = ev[v], an.get(v)
        if not (a and e["explicit"] and a["explicit"]) or not str(e["effect"]).startswith("evaluate_"):
            continue
        en, an_ = RENAME.get(e["effect"], e["effect"]), RENAME.get(a["effect"], a["effect"])
        if en == an_:
            continue
        eb, ab = F.bodies.get(EV_S + "::" + e["effect"]), F.bodies.get(AN_S + "::" + str(a["effect"]))
        same = False
        if eb is not None and ab is not None and str(a["effect"]) != "evaluate_statement":
            try:
                sa = norm_skel(grammar.skeleton(eb, F=F, distinct=True), e["effect"])
                sb = norm_skel(grammar.skeleton(ab, F=F, distinct=True), a["effect"])
                same = same_parse(eb, ab, (), F, lambda p: False, sa, sb)
            except Exception:
                same = False
        ck.require(same, "C06:DISPATCH-HANDLER:%s" % v, "dispatch agreement",
                   "both forks hand Token::%s to handlers that consume tokens alike" % v,
                   "Token::%s: the interpreter hands over to %s, the analyzer to %s, which does not parse the same statement -- "
                   "lines one fork accepts are syntax errors for the other" % (v, e["effect"], a["effect"]))
    # what each analyzer arm does to the token cursor directly must be something the interpreter's arm does too
    evb = F.one("StatementEvaluator::evaluate_statement")
    anb = F.one("StatementAnalyzer::evaluate_statement")
    if evb is not None and anb is not None:
        pe, pa = arm_cursor_prims(evb), arm_cursor_prims(anb)
        for v in sorted(pa):
            extra = pa[v] - pe.get(v, set())
            ck.require(not extra, "C06:DISPATCH-CURSOR:%s" % v, "dispatch agreement",
                       "the analyzer's %s arm moves the cursor no differently (%s)" % (v, sorted(pa[v]) or "not at all"),
                       "the analyzer's arm for Token::%s calls %s on the token cursor, which the interpreter's arm does not: "
                       "statements after it on the line (e.g. the ELSE clause of `IF c THEN %s ELSE ...`) are skipped by the "
                       "checker but executed by the interpreter" % (v, sorted(extra), v.upper()), anb.span, nontrivial=bool(pa[v]))
    ai = F.bodies.get(AN_S + "::evaluate_if_statement")
    if ai is not None:
        sk = grammar.skeleton(ai, F=F, distinct=False)
        want = [("call", "evaluate_expression", False), ("expect_next_token", "Then", False),
                ("call", "evaluate_statement_or_goto_line_number", False), ("accept_next_token", "Else", False),
                ("call", "evaluate_statement_or_goto_line_number", False)]
        ck.require(sk == want, "C06:IF:both-branches-analysed", "dispatch agreement",
                   "the analyzer checks the condition, the THEN statement and, if present, the ELSE statement",
                   "the analyzer's IF handler no longer analyses condition, THEN and ELSE in turn: %s" % sk, ai.span)


def arm_cursor_prims(body):
    """{variant: set of token-cursor primitives called directly inside that dispatch arm}"""
    out = {}
    best = None
    for bb in sorted(body.reachable()):
        info = body.switch_info(bb)
        if info and info[3] and len(info[3]) >= 20 and len(info[1]) >= 10:
            best = info
            break
    if best is None:
        return out
    subject, targets, otherwise, names = best
    for v, n in names.items():
        if v not in targets:
            continue
        reg = exclusive_region(body, targets[v])
        prims = set()
        for c in body.calls():
            if c.bb in reg and c.callee.startswith("abasic_core::program::Program::") and c.callee.split("::")[-1] in grammar.CURSOR:
                prims.add(c.callee.split("::")[-1])
        out[n] = prims
    return out


# ------------------------------------------------------------------------------------- 2
def norm_skel(sk, self_name=None):
    out = []
    for (k, d, inl) in sk:
        if k == "call":
            d = RENAME.get(d, d)
        out.append((k, d, inl))
    # `first (op self)?` (right recursion) accepts the same token sequences as `first (op first)*` (a loop):
    # normalise the former to the latter, so that association (C02's business) is not reported as a
    # disagreement between the forks
    if self_name and len(out) == 3 and out[2] == ("call", self_name, False) and out[1][0] in ("accept_next_token", "try_next_token") \
            and not out[1][2] and out[0][0] == "call":
        out = [out[0], (out[1][0], out[1][1], True), ("call", out[0][1], True)]
    return out


def _is_u64_cast_of_literal(F, e, helper, depth=0):
    """`x as u64` (FloatToInt), possibly wrapped in refs / Ok payloads / `?`, or returned by a helper private to the fork"""
    for _ in range(8):
        if e[0] == "ref":
            e = e[1]
        elif e[0] == "place":
            e = e[1]
        elif e[0] == "call" and e[1].endswith("::branch") and e[2]:
            e = e[2][0]
        else:
            break
    def plain(x):
        """the operand of the cast is the literal's value as parsed: no rounding / clamping / arithmetic in between (the
        interpreter truncates with a bare `as u64`; a fork that rounds first accepts `GOTO 29.6` for line 30)"""
        names = {y[1].split("::")[-1] for y in expr_calls(x)}
        if names & {"round", "floor", "ceil", "trunc", "clamp", "abs", "min", "max", "mul_add", "rem_euclid", "fract", "round_ties_even"}:
            return False
        x = strip_expr(x)
        return x[0] != "binop"
    if e[0] == "cast" and e[1] == "FloatToInt" and e[3] == "u64":
        return plain(e[2])
    if e[0] == "call" and e[1] in F.bodies and helper(e[1]) and depth < 2:
        hb = F.bodies[e[1]]
        for (bb, i, pl, rv, sp) in hb.assigns():
            x = hb.rv_expr(rv)
            if x[0] == "cast" and x[1] == "FloatToInt" and x[3] == "u64":
                return plain(x[2]) and all(plain(a) for a in e[2])
    return False


def one_fork_helper(F):
    """predicate: the function is a parsing/evaluation helper that exists in one of the two forks only"""
    ev_names = {RENAME.get(x, x) for x in fork_methods(F, EV_E) | fork_methods(F, EV_S)}
    an_names = {RENAME.get(x, x) for x in fork_methods(F, AN_E) | fork_methods(F, AN_S)}
    common = ev_names & an_names

    def pred(path):
        if not any(path.startswith(o + "::") for o in (EV_E, EV_S, AN_E, AN_S)):
            return False
        nm = path.rsplit("::", 1)[1]
        return RENAME.get(nm, nm) not in common
    return pred


def canon_lists(sk):
    """One spelling for a separated list: `X (sep X)*` written as a first element followed by a loop, or as a loop that parses an
    element and then looks for the separator, consume the same token sequences.  A non-loop step that is immediately followed by
    a run of loop steps containing the same step is folded into the run, and each run is put in a fixed order."""
    out = []
    sk = list(sk)
    i = 0
    while i < len(sk):
        st = sk[i]
        if len(st) > 2 and st[2] is True:
            j = i
            while j < len(sk) and len(sk[j]) > 2 and sk[j][2] is True:
                j += 1
            run_ = sk[i:j]
            if out and len(out[-1]) > 2 and out[-1][2] is False and (out[-1][0], out[-1][1], True) in run_ and \
                    any(x[0] in ("accept_next_token", "expect_next_token") for x in run_):
                out.pop()
            out += sorted(run_, key=repr)
            i = j
        else:
            out.append(st)
            i += 1
    return out


def same_parse(a, b, peers, F, inline, sa, sb):
    """ordered skeletons equal, or -- when only the layout of branch arms differs -- the sets of maximal step sequences"""
    if sa == sb:
        return True
    if canon_lists(sa) == canon_lists(sb):
        return True
    try:
        pa = grammar.skeleton_paths(a, peers, F, inline, RENAME)
        pb = grammar.skeleton_paths(b, peers, F, inline, RENAME)
    except OverflowError:
        return False
    return pa == pb


def fork_methods(F, owner):
    return {p.rsplit("::", 1)[1] for p in F.bodies if p.startswith(owner + "::") and "{closure" not in p and p.count("::") == owner.count("::") + 1}


def skeletons(ck, F):
    n = 0
    # a parsing function that exists in one fork only (a helper extracted there, or the counterpart of a function the other
    # fork has inlined) is expanded in place before the skeletons are compared: the forks must consume tokens identically,
    # however each of them is cut into functions
    ev_names = {RENAME.get(x, x) for x in fork_methods(F, EV_E) | fork_methods(F, EV_S)}
    an_names = {RENAME.get(x, x) for x in fork_methods(F, AN_E) | fork_methods(F, AN_S)}
    common = ev_names & an_names

    def inline(path):
        nm = path.rsplit("::", 1)[1]
        return RENAME.get(nm, nm) not in common
    for fn in EXPR_PAIRS:
        a = F.bodies.get(EV_E + "::" + fn)
        b = F.bodies.get(AN_E + "::" + fn)
        if a is None and b is None:
            ck.missing("C06:SKEL:%s" % fn, "%s in either fork" % fn)
            continue
        if a is None or b is None:
            continue    # inlined into its callers in one fork: compared through them
        n += 1
        sa, sb = norm_skel(grammar.skeleton(a, F=F, distinct=True, inline=inline), fn), \
            norm_skel(grammar.skeleton(b, F=F, distinct=True, inline=inline), fn)
        ck.require(same_parse(a, b, (), F, inline, sa, sb), "C06:SKEL:%s" % fn, "skeleton agreement", "%d cursor/parse steps, identical" % len(sa),
                   "the analyzer's %s consumes tokens differently from the interpreter's:\n    interpreter: %s\n    analyzer:    %s"
                   % (fn, sa, sb), b.span)
    peers = (EV_E, AN_E)
    for (fe, fa) in STMT_PAIRS:
        a = F.bodies.get(EV_S + "::" + fe)
        b = F.bodies.get(AN_S + "::" + fa)
        if a is None and b is None:
            ck.missing("C06:SKEL:%s" % fe, "%s / %s" % (fe, fa))
            continue
        if a is None or b is None:
            continue
        n += 1
        sa, sb = norm_skel(grammar.skeleton(a, peers, F=F, distinct=True, inline=inline)), \
            norm_skel(grammar.skeleton(b, peers, F=F, distinct=True, inline=inline))
        # `ExpressionEvaluator::new(..).evaluate_array_index()` vs `self.expression_analyser().evaluate_array_index()`
        ck.require(same_parse(a, b, peers, F, inline, sa, sb), "C06:SKEL:%s" % fe, "skeleton agreement", "%d cursor/parse steps, identical" % len(sa),
                   "the analyzer's %s consumes tokens differently from the interpreter's %s:\n    interpreter: %s\n    analyzer:    %s"
                   % (fa, fe, sa, sb), b.span)
    # the THEN/ELSE entry point parses its target the same way
    a = F.bodies.get(EV_S + "::evaluate_statement_or_goto_line_number")
    b = F.bodies.get(AN_S + "::evaluate_statement_or_goto_line_number")
    if a is not None and b is not None:
        n += 1
        sa, sb = norm_skel(grammar.skeleton(a, F=F, distinct=True, inline=inline)), norm_skel(grammar.skeleton(b, F=F, distinct=True, inline=inline))
        ck.require(same_parse(a, b, (), F, inline, sa, sb), "C06:SKEL:evaluate_statement_or_goto_line_number", "skeleton agreement", "identical",
                   "statement_or_goto_line_number differs: %s vs %s" % (sa, sb), b.span)
    ck.floor("C06.function pairs compared", n, 16)


# ------------------------------------------------------------------------------------- 3
def analyzer_tier(F, body):
    s = grammar.tier_summary(body)
    loops = body.natural_loops()
    lb = set()
    for blk in loops.values():
        lb |= blk
    first_call = None
    loop_call = None
    for c in body.calls():
        if c.callee.endswith("::" + (s["first"] or "?")) and c.bb not in lb and first_call is None:
            first_call = c
        if c.callee.endswith("::" + (s["loop_operand"] or "?")) and c.bb in lb and loop_call is None:
            loop_call = c

    def role(op):
        e = strip_refs(body.expr(op))
        if e == ("local", s["acc"]):
            return "acc"
        cs = [x[3] for x in expr_calls(e) if len(x) > 3]
        if loop_call is not None and any(x is loop_call for x in cs):
            return "rhs"
        if first_call is not None and any(x is first_call for x in cs):
            return "acc"
        return "?"

    checks = set()
    for c in body.calls():
        if c.bb not in lb:
            continue
        if sfx(c.callee, "ValueType::check_number"):
            checks.add("%s:number" % role(c.args[0]))
        elif sfx(c.callee, "ValueType::check"):
            checks.add("%s==%s" % (role(c.args[0]), role(c.args[1])))
        elif sfx(c.callee, "ValueType::check_variable_name"):
            checks.add("%s:name" % role(c.args[0]))
        elif c.callee in F.bodies and one_fork_helper(F)(c.callee):
            # the checks may have been given a name (`Self::check_numeric_operands(&value, &rhs)?`): the helper applies them
            # to its parameters, i.e. to the caller's operands
            hb = F.bodies[c.callee]

            def prole(op):
                pe = strip_expr(hb.expr(op))
                while pe[0] in ("ref", "place") and pe[0] != "param":
                    pe = strip_expr(pe[1])
                return role(c.args[pe[1]]) if pe[0] == "param" and pe[1] < len(c.args) else "?"
            for hc in hb.calls():
                if sfx(hc.callee, "ValueType::check_number"):
                    checks.add("%s:number" % prole(hc.args[0]))
                elif sfx(hc.callee, "ValueType::check"):
                    checks.add("%s==%s" % (prole(hc.args[0]), prole(hc.args[1])))
    result = "acc"
    for b, i, pl, rv, sp in body.assigns():
        if b in lb and not pl["proj"] and pl["local"] == s["acc"]:
            e = body.rv_expr(rv)
            if e[0] == "agg" and str(e[1]).endswith("ValueType") and e[2] == "Number":
                result = "Number"
            elif e[0] == "agg" and str(e[1]).endswith("ValueType"):
                result = e[2]
            else:
                result = "other:" + show(e)
    return checks, result


def analyzer_table(checks, result):
    tab = {}
    for l in (N, S):
        for r in (N, S):
            ok = True
            for c in checks:
                if c == "acc:number" and l != N:
                    ok = False
                elif c == "rhs:number" and r != N:
                    ok = False
                elif c in ("acc==rhs", "rhs==acc") and l != r:
                    ok = False
                elif c not in ("acc:number", "rhs:number", "acc==rhs", "rhs==acc"):
                    ok = None
            if ok is None:
                tab[(l, r)] = "?"
            elif not ok:
                tab[(l, r)] = X
            else:
                tab[(l, r)] = l if result == "acc" else (N if result == "Number" else ("S" if result == "String" else "?"))
    return tab


def kinds(ck, F, E):
    # dependency: the evaluator's own tables are what C02 says they are
    import importlib
    c02 = importlib.import_module("props.C02")
    sub = framework.Check("C02", "quick", 0, "other", F, {})
    c02.run(sub, F, E)
    broken = [o.key for o in sub.obs if o.status == "violation" and (":TYPING:" in o.key or ":OP:" in o.key or ":BOOL:" in o.key)]
    ck.require(not broken, "C06:KIND:evaluator-tables", "kind transfer", "the evaluator's typing tables are the specified ones (C02)",
               "the evaluator's own typing tables deviate from the specification (%s): nothing to compare against" % broken[:4])
    for fn, cls in TIER_CLASS.items():
        b = F.bodies.get(AN_E + "::" + fn)
        if b is None:
            ck.missing("C06:KIND:%s" % fn, "analyzer tier " + fn)
            continue
        checks, result = analyzer_tier(F, b)
        tab = analyzer_table(checks, result)
        spec = SPEC[cls]
        for cell in sorted(spec):
            nm = {"evaluate_equality_expression": "cmp", "evaluate_logical_and_expression": "and",
                  "evaluate_logical_or_expression": "or", "evaluate_plus_or_minus_expression": "addsub",
                  "evaluate_multiply_or_divide_expression": "muldiv", "evaluate_exponent_expression": "pow"}[fn]
            ck.require(tab.get(cell) == spec[cell], "C06:KIND:%s(%s,%s)" % (nm, cell[0], cell[1]), "kind transfer",
                       "analyzer %s = interpreter %s" % (tab.get(cell), spec[cell]),
                       "operand kinds (%s,%s) at the %s tier: the analyzer yields %s (checks %s, result kind %s), the "
                       "interpreter yields %s -- the checker accepts what fails, or rejects what runs"
                       % (cell[0], cell[1], nm, tab.get(cell), sorted(checks), result, spec[cell]), b.span)
    # unary operators
    un = F.bodies.get(AN_E + "::evaluate_unary_operator")
    if un is not None:
        got = {}
        for r in path_records(un):
            opv = None
            for (txt, ps, val, subj) in r["decisions"]:
                if isinstance(val, str) and val in ("Positive", "Negative", "Not"):
                    opv = val
            if opv is None or r["outcome"] != "Ok":
                continue
            chk = any(sfx(c.callee, "ValueType::check_number") for c in r["calls"])
            num = any(a[0].endswith("ValueType") and a[1] == "Number" for a in r["aggs"])
            got[opv] = ("check_number" if chk else "none", "Number" if num else "operand")
        want = {"Positive": ("none", "operand"), "Negative": ("check_number", "operand"), "Not": ("none", "Number")}
        for opv, w in want.items():
            ck.require(got.get(opv) == w, "C06:KIND:unary-%s" % opv.lower(), "kind transfer",
                       "%s: check=%s result=%s (as UnaryOp::evaluate)" % (opv, w[0], w[1]),
                       "unary %s: the analyzer does (check, result kind) = %s, the interpreter %s" % (opv, got.get(opv), w), un.span)


# ------------------------------------------------------------------------------------- statement-level checks
def statement_checks(ck, F):
    # every name -> kind decision in the crate is `ends_with('$')`
    sites = ("Value::coerce_from_data_element", "Value::default_for_variable", "Value::validate_type_matches_variable_name",
             "ValueArray::create", "ValueType::from_variable_name")
    for fn in sites:
        b = get_fn(ck, F, fn)
        if b is None:
            continue
        ok = False
        from lib import dollar_predicates
        dps = dollar_predicates(F)
        for c in b.calls():
            if c.callee.endswith("ends_with") and any(strip_expr(b.expr(a))[0] == "const" and strip_expr(b.expr(a))[1].get("int") == 36
                                                      for a in c.args):
                ok = True
            if c.callee in dps:           # the same test under a name (`is_string_variable_name(name)`)
                ok = True
        ck.require(ok, "C06:SUFFIX:%s" % fn, "name-suffix predicate", "%s decides by ends_with('$')" % fn,
                   "%s no longer derives the kind from the `$` suffix" % fn, b.span)
    from lib import deep_calls
    helper = one_fork_helper(F)
    pairs = [
        ("assignment", AN_S + "::assign_value", ("ValueType::check",), EV_S + "::assign_value", ("Variables::set", "Arrays::set_value_at_index")),
        ("FOR bounds", AN_S + "::evaluate_for_statement", ("ValueType::check_number",), EV_S + "::evaluate_for_statement", ("try_from",)),
        ("NEXT variable", AN_S + "::evaluate_next_statement", ("ValueType::check_number",), "abasic_core::program::Program::end_loop", ("try_from",)),
        ("subscripts", AN_E + "::evaluate_array_index", ("ValueType::check_number",), EV_E + "::evaluate_array_index", ("TypeMismatch",)),
        ("FN arguments", AN_E + "::evaluate_user_defined_function_call", ("ValueType::check_variable_name",),
         EV_E + "::evaluate_user_defined_function_call", ("Variables::set",)),
        ("builtin argument", AN_E + "::evaluate_unary_number_function_arg", ("ValueType::check_number",),
         EV_E + "::evaluate_unary_number_function_arg", ("try_from",)),
    ]
    for (what, af, achk, ef, echk) in pairs:
        a, e = F.bodies.get(af), F.bodies.get(ef)
        if a is None or e is None:
            ck.missing("C06:STMT:%s" % what, "%s / %s" % (af, ef))
            continue
        a_has = any(any(sfx(c.callee, x) for x in achk) for (_ob, c) in deep_calls(F, a, helper))
        e_calls = [c.callee for (_ob, c) in deep_calls(F, e, helper)]
        e_has = any(any(sfx(c, x) or c.endswith("::" + x) for x in echk) for c in e_calls) or \
            any(any(ag[1] == x for x in echk) for ag in region_aggregates(e, e.reachable()))
        ck.require(a_has == e_has and a_has, "C06:STMT:%s" % what, "paired kind checks",
                   "%s: analyzer check <=> interpreter check" % what,
                   "%s: analyzer checks=%s, interpreter checks=%s -- the two forks no longer enforce the same kind rule"
                   % (what, a_has, e_has), a.span)
    # FOR's 3 bounds: the analyzer checks from/to/step like the interpreter converts them
    a = F.bodies.get(AN_S + "::evaluate_for_statement")
    e = F.bodies.get(EV_S + "::evaluate_for_statement")
    if a is not None and e is not None:
        from lib import count_deep
        na = count_deep(F, a, lambda c: sfx(c.callee, "ValueType::check_number"), helper)
        ne = count_deep(F, e, lambda c: "TryFrom<abasic_core::value::Value> for f64" in c.callee, helper)
        ck.require(na == ne + 1 and ne == 3, "C06:STMT:FOR-count", "paired kind checks",
                   "3 numeric bounds on both sides (+ the variable's own kind in the analyzer)",
                   "FOR: analyzer performs %d numeric checks, interpreter %d conversions" % (na, ne), a.span)


# ------------------------------------------------------------------------------------- 4
def user_functions(ck, F):
    a = F.bodies.get(AN_S + "::evaluate_def_statement")
    c = F.bodies.get(AN_E + "::evaluate_user_defined_function_call")
    if a is None or c is None:
        ck.missing("C06:FN", "analyzer DEF / FN-call handlers")
        return
    by_name = any(sfx(x.callee, "ValueType::from_variable_name") for x in c.calls())
    body_checked = False
    for x in a.calls():
        if sfx(x.callee, "ValueType::check_variable_name") or sfx(x.callee, "ValueType::check"):
            if "evaluate_expression" in show(a.expr(x.args[0])):
                body_checked = True
    if by_name and not body_checked:
        ck.bad("C06:KIND:def-body-unchecked", "user functions",
               "the analyzer types a call `FN f(..)` by the suffix of f's name, but its DEF handler does not check the kind of "
               "the body against that name, while the interpreter returns the body's value: `10 DEF FN A(X) = \"S\"` / "
               "`20 Y = FN A(1)` is accepted and then fails with TYPE MISMATCH IN 20", a.span)
    else:
        ck.ok("C06:KIND:def-body-unchecked", "user functions",
              "call kind by name=%s, body checked against the name=%s" % (by_name, body_checked), "", a.span)


def fn_syntax_agreement(ck, F):
    """The two forks parse a user-function call and a DEF header alike.  They legitimately differ in one step each: the
    interpreter goes on to evaluate the function's body (at the DEF's location) after the argument list, the analyzer checks
    the body expression right after the DEF header.  Apart from that trailing step the token-consumption skeletons are equal --
    in particular the argument list is `expect(,)` between exactly as many expressions as the DEF has parameters in both."""
    body_step = [("call", "evaluate_expression", False)]
    for (oe, oa, fn, longer) in ((EV_E, AN_E, "evaluate_user_defined_function_call", "interpreter"),
                                 (EV_S, AN_S, "evaluate_def_statement", "analyzer")):
        a, b = F.bodies.get(oe + "::" + fn), F.bodies.get(oa + "::" + fn)
        if a is None or b is None:
            ck.missing("C06:SKEL:%s" % fn, fn + " in either fork")
            continue
        # private helpers of either fork are looked through (a `parse_def_argument_names` may contain the `(` in one fork and not
        # in the other); only the recursive entry points stay as steps
        def inline_all(path):
            nm = path.rsplit("::", 1)[-1]
            return any(path.startswith(o + "::") for o in (EV_E, EV_S, AN_E, AN_S)) and not nm.startswith("evaluate_expression") and \
                nm not in ("evaluate_statement", "evaluate_statement_or_goto_line_number", "evaluate_logical_or_expression")

        def loop_sorted(sk):
            # steps of one loop body in a canonical order: `expr (, expr)*` may be written comma-last or comma-first
            out, run_ = [], []
            for st in list(sk) + [None]:
                if st is not None and len(st) > 2 and st[2] is True:
                    run_.append(st)
                    continue
                out += sorted(run_, key=repr)
                run_ = []
                if st is not None:
                    out.append(st)
            return out
        try:
            sa = loop_sorted(norm_skel(grammar.skeleton(a, F=F, distinct=True, inline=inline_all), fn))
            sb = loop_sorted(norm_skel(grammar.skeleton(b, F=F, distinct=True, inline=inline_all), fn))
        except Exception:
            sa, sb = None, ()
        lo, sh = (sa, sb) if longer == "interpreter" else (sb, sa)
        ok = sa is not None and (sa == sb or (list(lo[:len(sh)]) == list(sh) and list(lo[len(sh):]) == body_step))
        ck.require(ok, "C06:SKEL:%s" % fn, "skeleton agreement",
                   "both forks consume the same tokens (the %s's extra step is the body evaluation)" % longer,
                   "the two forks parse %s differently:\n    interpreter: %s\n    analyzer:    %s\n  calls with a wrong number of "
                   "arguments (or malformed DEF headers) are accepted by one fork and rejected by the other" % (fn, sa, sb), b.span)


def runtime_kind_checks(ck, F, E):
    """The converse direction needs the interpreter to enforce at run time what the analyzer enforces statically: a value stored
    under a name has the name's kind.  The interpreter's only enforcement point is Variables::set (validated against the name);
    a second, unchecked way into the variable map (a `set_number` fast path for loop counters) makes `FOR I$ = 1 TO 3` run while the
    analyzer keeps rejecting it."""
    ws = E.writers_of_field("variables::Variables", "0")
    ck.require(bool(ws) and all(sfx(n, "Variables::set") for n in ws), "C06:KIND:variables-only-through-the-validated-setter",
               "paired kind checks", "Variables' map is modified only in Variables::set",
               "the variable map is also modified in %s: values can be stored without the kind check the analyzer's verdicts rely on" %
               sorted(n for n in ws if not sfx(n, "Variables::set")))


def def_before_body(ck, F):
    """At run time a function exists from the moment its DEF executes; the analyzer mirrors that by recording the DEF before it
    analyses the body, so a body that mentions its own name is resolved as the function call it will be (arity and argument
    kinds checked), not as an array access."""
    b = F.bodies.get(AN_S + "::evaluate_def_statement")
    if b is None:
        return
    df = b.calls_to("Program::define_function")
    ev = [c for c in b.calls() if c.callee.endswith("::evaluate_expression")]
    ok = bool(df) and bool(ev) and all(any(b.dominates(d.bb, e.bb) and d.bb != e.bb for d in df) for e in ev)
    ck.require(ok, "C06:FN:def-recorded-before-body", "user functions", "the analyzer records the DEF before analysing its body",
               "the analyzer analyses a DEF's body before the function is recorded: a self-reference in the body is treated as an "
               "array access, so wrong argument counts / kinds in it pass the check and fail at run time", b.span)


def def_recorded(ck, F):
    """Both forks resolve `NAME(..)` through the function table; the analyzer can only resolve a call like the interpreter does if
    its DEF handler records the definition too: in both forks every successful path of evaluate_def_statement passes
    Program::define_function."""
    from lib import path_records
    for owner, tag in ((EV_S, "interpreter"), (AN_S, "analyzer")):
        b = F.bodies.get(owner + "::evaluate_def_statement")
        if b is None:
            ck.missing("C06:FN:def-recorded:%s" % tag, owner + "::evaluate_def_statement")
            continue
        try:
            recs = path_records(b)
        except OverflowError:
            recs = []
        oks = [r for r in recs if r["outcome"] == "Ok" or (r["outcome"] is None and not any(c.callee.endswith("from_residual") for c in r["calls"]))]
        missing = [r for r in oks if not any(sfx(c.callee, "Program::define_function") for c in r["calls"])]
        ck.require(bool(b.calls_to("Program::define_function")) and not missing, "C06:FN:def-recorded:%s" % tag, "user functions",
                   "every successful path of the %s's DEF handler records the function" % tag,
                   "the %s's evaluate_def_statement can succeed without calling Program::define_function: calls of the function are "
                   "then resolved differently by the two forks (as an array access by the one that did not record it)" % tag, b.span)


def resolution_order(ck, F):
    """Both forks resolve a called name the same way: builtins first, a DEF of the same name only when the name is not a
    builtin.  Descriptor per fork: is the user-function lookup control dependent on the None arm of Builtin::try_from?"""
    from lib import controlling_switches
    desc = {}
    for side, path in (("interpreter", EV_E + "::evaluate_function_call"), ("analyzer", AN_E + "::evaluate_function_call")):
        b = F.bodies.get(path)
        if b is None:
            ck.missing("C06:RESOLVE:%s" % side, path)
            return
        us = [c for c in b.calls() if c.callee.endswith("::evaluate_user_defined_function_call")]
        bs = [c for c in b.calls() if c.callee.endswith("TryFrom>::try_from") or c.callee.endswith("Builtin::try_from")]
        if not us or not bs:
            desc[side] = "user-lookups=%d builtin-lookups=%d" % (len(us), len(bs))
            continue
        d = []
        for u in us:
            under_none = False
            for (sb, subj, names) in controlling_switches(b, u.bb):
                if names and set(names.values()) == {"None", "Some"} and any(len(x) > 3 and x[3] in bs for x in expr_calls(subj)):
                    info = b.switch_info(sb)
                    for v, n in names.items():
                        if n == "None":
                            t = info[1].get(v, info[2])
                            if t is not None and (t == u.bb or b.dominates(t, u.bb)):
                                under_none = True
            d.append("DEF lookup only when the name is not a builtin" if under_none else "DEF lookup regardless of builtins")
        desc[side] = "; ".join(sorted(set(d)))
    ck.require(desc.get("interpreter") == desc.get("analyzer") and "only when" in desc.get("interpreter", ""),
               "C06:RESOLVE:builtin-before-def", "name resolution agreement",
               "both forks: %s" % desc.get("interpreter"),
               "the interpreter and the analyzer resolve a called name differently (interpreter: %s; analyzer: %s): a program that "
               "DEFs a function named like a builtin is checked against one meaning and run with the other" %
               (desc.get("interpreter"), desc.get("analyzer")))


# ------------------------------------------------------------------------------------- 5
def jump_targets(ck, F):
    sites = []
    from lib import deep_calls
    helper = one_fork_helper(F)
    for path, has_fn, key in ((EV_S + "::evaluate_goto_statement", "Program::goto_line_number", "evaluate_goto_statement"),
                              (EV_S + "::evaluate_gosub_statement", "Program::gosub_line_number", "evaluate_gosub_statement"),
                              (AN_S + "::evaluate_goto_or_gosub_statement", "Program::has_line_number", "ensure_valid_line_number")):
        b = F.bodies.get(path)
        if b is None:
            ck.missing("C06:JUMP:%s" % key, path)
            continue
        ok = False
        # the lookup (and the conversion of the literal) may sit in the handler or in a helper private to this fork
        for (ob, c) in deep_calls(F, b, helper):
            if not sfx(c.callee, has_fn):
                continue
            cands = [ob.expr(c.args[1])]
            # the converted value may be handed to / returned by the helper: follow one parameter or call level
            e0 = strip_expr(cands[0])
            if e0[0] == "param" and ob is not b:
                for (ob2, c2) in deep_calls(F, b, helper):
                    if c2.callee == ob.path and e0[1] < len(c2.args):
                        cands.append(ob2.expr(c2.args[e0[1]]))
            for e in cands:
                if _is_u64_cast_of_literal(F, e, helper):
                    ok = True
        path = path if key != "ensure_valid_line_number" else AN_S + "::ensure_valid_line_number"
        ck.require(ok, "C06:JUMP:%s" % path.split("::")[-1], "jump targets",
                   "the literal is converted with `as u64` and looked up in the line store",
                   "%s no longer converts the target with `as u64` before the lookup" % path, b.span)
    g = F.one("Program::goto_line_number")
    h = F.one("Program::has_line_number")
    if g is not None and h is not None:
        from lib import line_membership_tests
        tests = line_membership_tests(F)
        ck.require(any(c.callee in tests for c in g.calls()) and any(c.callee in tests for c in h.calls()), "C06:JUMP:same-test", "jump targets",
                   "both sides test membership with ProgramLines::has", "the two forks test jump targets differently", g.span)
    gs = F.one("Program::gosub_line_number")
    if gs is not None:
        ck.require(bool(gs.calls_to("Program::goto_line_number")), "C06:JUMP:gosub-via-goto", "jump targets",
                   "GOSUB validates its target through goto_line_number", "GOSUB no longer validates its target", gs.span)


# ------------------------------------------------------------------------------------- 6
def stop_set(F):
    """Tokens at which a statement handler can return while tokens remain on the line."""
    out = {}
    pr = F.bodies.get(EV_S + "::evaluate_print_statement")
    if pr is not None:
        loops = pr.natural_loops()
        lb = set()
        for blk in loops.values():
            lb |= blk
        for bb in sorted(pr.reachable()):
            info = pr.switch_info(bb)
            if not info or not info[3] or len(info[3]) < 20 or "peek_next_token" not in show(info[0]):
                continue
            subject, targets, otherwise, names = info
            for v, n in names.items():
                if v not in targets:
                    continue
                t = targets[v]
                # arm leaves the loop without consuming: it cannot reach the loop header again
                reg = pr.blocks_reachable_from(t)
                if not any(h in reg for h in loops):
                    out.setdefault(n, []).append("PRINT stops before it")
    iff = F.bodies.get(EV_S + "::evaluate_if_statement")
    if iff is not None:
        for c in iff.calls():
            if c.callee.endswith("PartialEq>::eq") or c.callee.endswith("::ne") or c.callee.endswith("::eq"):
                txt = " ".join(show(iff.expr(a)) for a in c.args)
                if "peek_next_token" in txt:
                    for cand in ("Else", "Colon"):
                        if "Token::%s{" % cand in txt:
                            out.setdefault(cand, []).append("IF peeks for it after the THEN statement")
    return out


def resume_rule(ck, F, P):
    ev = tables.dispatch_table(F, "StatementEvaluator::evaluate_statement")
    if ev is None:
        ck.missing("%s:RESUME" % P, "statement dispatch table")
        return
    ss = stop_set(F)
    ck.note("stop_set", ss)
    ck.floor("%s.tokens a handler can stop at" % P, len(ss), 2)
    for tok, why in sorted(ss.items()):
        e = ev.get(tok)
        ck.require(e is not None and e["explicit"], "%s:RESUME:%s" % (P, tok), "resume rule",
                   "Token::%s has a dispatch arm (%s)" % (tok, e["effect"] if e else "?"),
                   "a statement handler can stop in front of Token::%s (%s) but evaluate_statement has no arm for it: when "
                   "execution resumes at that position at top level (after RETURN, INPUT's rewind, CONT, NEXT) it raises "
                   "SYNTAX ERROR -- `IF 1 THEN GOSUB 100 ELSE PRINT \"NO\"`" % (tok, "; ".join(why)))
