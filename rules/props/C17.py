"""C17 -- tracing and warnings never change what a program does (non-interference).

 1. every read of Interpreter.enable_tracing / enable_warnings in abasic-core feeds a branch whose
    controlled region writes nothing but Interpreter.output
 2. the Trace record is pushed only when the current line is numbered, and before dispatch
 3. warn-before-create for implicit arrays; the variable warning is guarded by !variables.has(sym)
 4. the output queue is write-only inside the core
"""
from lib import (sfx, get_fn, callers_of, strip_expr, strip_refs, show, aggregates, expr_calls,
                 bool_switch_true_target, region_aggregates, exclusive_region)

LEVEL = "proof"
EXPLANATION = (
    "Non-interference by effect containment: all reads of the two flags are enumerated from the MIR (places ending "
    "in the field); for each, the blocks control-dependent on the branch (reachable from its successors up to the "
    "immediate post-dominator) are collected and the union of their direct writes and callee write-summaries "
    "(inter-procedural effect analysis) must lie inside Interpreter.output.  Placement rules (trace only for "
    "numbered lines and before dispatch; warn before implicit creation) are dominance facts."
)
TRUSTED = ["format!/to_string have no effect on interpreter state"]

INTERP = "abasic_core::interpreter::Interpreter"
FLAGS = ("enable_tracing", "enable_warnings")


def flag_reads(body):
    """[(bb, flag, local)] statements copying a flag into a local (reads)."""
    out = []
    for b, i, pl, rv, sp in body.assigns():
        src = None
        if rv["k"] == "use" and rv["op"]["k"] in ("copy", "move"):
            src = rv["op"]["place"]
        elif rv["k"] == "ref":
            src = rv["place"]
        elif rv["k"] == "unop" and rv["a"]["k"] in ("copy", "move"):
            src = rv["a"]["place"]
        if src is None:
            continue
        fs = [p for p in src["proj"] if p["k"] == "field"]
        if fs and fs[-1].get("name") in FLAGS and fs[-1].get("adt", "").endswith("interpreter::Interpreter"):
            out.append((b, fs[-1]["name"], pl["local"], sp, rv["k"]))
    # direct use as switch discriminant / call argument
    for b in sorted(body.reachable()):
        t = body.term(b)
        ops = []
        if t["k"] == "switch":
            ops = [t["discr"]]
        elif t["k"] == "call":
            ops = t["args"]
        for o in ops:
            if o["k"] in ("copy", "move"):
                fs = [p for p in o["place"]["proj"] if p["k"] == "field"]
                if fs and fs[-1].get("name") in FLAGS and fs[-1].get("adt", "").endswith("interpreter::Interpreter"):
                    out.append((b, fs[-1]["name"], None, None, t["k"]))
    return out


def ipdom(body, b):
    pd = body.postdominators().get(b)
    if not pd:
        return None
    cands = pd - {b}
    # immediate = the candidate post-dominated by all others... pick the one whose pdom set is largest
    best = None
    for c in cands:
        if all(c == o or o in body.postdominators().get(c, set()) for o in cands):
            best = c
    return best


def controlled_region(body, sw):
    stop = ipdom(body, sw)
    reg = set()
    for s in body.succs(sw):
        reg |= body.blocks_reachable_from(s, avoid={stop} if stop is not None else ())
    reg.discard(stop)
    return reg, stop


def region_effects(E, body, region):
    """Caller-visible write paths (param-relative) performed inside `region`."""
    fi = E.info[body.path]
    out = set()
    for b in sorted(region):
        for st in body.blocks[b]["stmts"]:
            if st["k"] != "assign":
                continue
            for (r, p, m, d) in E.resolve(fi, st["place"]):
                if d and m and r[0] == "p":
                    out.add((r[1], p))
                elif d and m and r == ("?",):
                    out.add(("?", ()))
        c = body.call_at(b)
        if c is None:
            continue
        ci = E.info.get(c.callee) if c.is_local else None
        if ci is not None:
            for (k, path) in ci.writes:
                if k == "?":
                    out.add(("?", ()))
                    continue
                if k < len(c.args):
                    for (r, p, m) in E._map_callee_loc(fi, c.args[k], path, ci.param_is_ref[k]):
                        if m and r[0] == "p":
                            out.add((r[1], p))
        else:
            import effects as eff
            pure = any(c.callee.endswith(s) for s in eff.PURE_MUT_BORROW)
            if not pure:
                for a in c.args:
                    if a["k"] in ("copy", "move") and eff.may_hold_ref(a["place"].get("ty", "")):
                        for (r, p, m) in E._all_pointees(fi, a):
                            if m and r[0] == "p":
                                out.add((r[1], p))
    return out


def only_output(paths):
    bad = []
    for (k, p) in paths:
        els = [x for x in p if x[0] == INTERP]
        if els and els[0][1] == "output":
            continue
        bad.append((k, p))
    return bad


def run(ck, F, E):
    n_reads = 0
    for body in F.bodies.values():
        if body.crate != "abasic_core":
            continue
        if body.path.endswith("as core::fmt::Debug>::fmt"):
            continue  # INTERNALS output: formatting only (exempt by name)
        reads = flag_reads(body)
        if not reads:
            continue
        for (b, flag, local, sp, how) in reads:
            n_reads += 1
            key = "C17:FLAGREAD:%s:%s" % (body.path, flag)
            # the read value must flow only into a switch discriminant in this body
            sw = None
            if how == "switch":
                sw = b
            elif local is not None:
                for bb in sorted(body.reachable()):
                    t = body.term(bb)
                    if t["k"] == "switch":
                        e = body.expr(t["discr"])
                        l = t["discr"]["place"]["local"] if t["discr"]["k"] in ("copy", "move") else None
                        if l == local or (strip_expr(e)[0] == "place" and flag in show(e)) or \
                                (strip_expr(e)[0] == "unop" and flag in show(e)):
                            sw = bb
                            break
                # any other use of that local (stored / passed on) defeats the argument
                other = uses_of_local(body, local) - ({sw} if sw is not None else set())
                if other:
                    ck.bad(key + ":escapes", "flag read",
                           "the value of Interpreter.%s read in %s is used outside a branch condition (blocks %s): it "
                           "can influence program state" % (flag, body.path, sorted(other)), sp)
                    continue
            if sw is None:
                ck.bad(key, "flag read", "Interpreter.%s is read in %s but not as a branch condition: the rule cannot "
                       "bound what it influences" % (flag, body.path), sp)
                continue
            region, stop = controlled_region(body, sw)
            eff = region_effects(E, body, region)
            bad = only_output(eff)
            ck.require(not bad, key, "flag non-interference",
                       "region controlled by %s (%d blocks, joins at bb%s) writes only Interpreter.output"
                       % (flag, len(region), stop),
                       "the code controlled by Interpreter.%s in %s also writes %s: enabling the option changes "
                       "program state, not just the presence of trace/warning records"
                       % (flag, body.path, sorted({"/".join(x[1] for x in p) for (_k, p) in bad})), sp or body.span)
    ck.floor("C17.flag reads in abasic-core", n_reads, 2)

    # ---- writers of the flags inside the core: TRACE / NOTRACE only
    for flag in FLAGS:
        ws = E.writers_of_field("interpreter::Interpreter", flag)
        names = sorted(n for n in ws if F.bodies[n].crate == "abasic_core")
        allowed = ("Interpreter::maybe_process_command",) if flag == "enable_tracing" else ()
        ck.require(all(any(sfx(n, a) for a in allowed) for n in names), "C17:FLAGWRITE:%s" % flag, "flag writers",
                   "Interpreter.%s is written inside the core only by %s" % (flag, names or "nobody"),
                   "Interpreter.%s is written by %s: a program statement could switch the option" % (flag, names))

    # ---- trace placement
    es0 = get_fn(ck, F, "StatementEvaluator::evaluate_statement")
    es = es0
    trace_call = None
    if es0 is not None and not list(aggregates(es0, "interpreter_output::InterpreterOutput", "Trace")):
        # the tracing prelude may have been given a name: a private helper of the evaluator that evaluate_statement (and
        # nobody else) calls unconditionally before it dispatches
        from lib import controlling_switches
        hosts = [bd for bd in F.bodies.values() if bd.crate == "abasic_core" and list(aggregates(bd, "interpreter_output::InterpreterOutput", "Trace"))]
        if len(hosts) == 1:
            callers = [(cb, c) for cb in F.bodies.values() for c in cb.calls() if c.callee == hosts[0].path]
            if len(callers) == 1 and callers[0][0] is es0 and not controlling_switches(es0, callers[0][1].bb):
                es, trace_call = hosts[0], callers[0][1]
    if es is not None:
        traces = list(aggregates(es, "interpreter_output::InterpreterOutput", "Trace"))
        ck.require(len(traces) == 1, "C17:TRACE:one-site", "trace placement", "one Trace record site",
                   "expected one Trace construction in evaluate_statement, found %d" % len(traces), es.span)
        disp = es0.calls_to("Program::next_token")
        for (b, i, pl, rv, sp) in traces:
            # guarded by get_line_number() == Some
            ok_guard = False
            for bb in sorted(es.reachable()):
                info = es.switch_info(bb)
                if not info or not info[3]:
                    continue
                subject, targets, otherwise, names = info
                if "get_line_number" in show(subject):
                    for v, n in names.items():
                        if n == "Some" and es.dominates(targets.get(v, otherwise), b):
                            ok_guard = True
            payload = strip_expr(es.expr(rv["ops"][0]))
            ck.require(ok_guard and "get_line_number" in show(payload), "C17:TRACE:numbered-only", "trace placement",
                       "Trace(n) is built only on the Some arm of get_line_number(), with that line",
                       "the Trace record is no longer restricted to numbered lines (or carries another number)", sp)
            # the push may depend on nothing but the flag and the line being numbered
            extra = []
            for bb in sorted(es.reachable()):
                t = es.term(bb)
                if t["k"] != "switch" or not es.dominates(bb, b) or bb == b:
                    continue
                succs = es.succs(bb)
                controlling = not all(b in es.blocks_reachable_from(x) for x in succs)
                if not controlling:
                    continue
                txt = show(es.expr(t["discr"]))
                info = es.switch_info(bb)
                subj = show(info[0]) if info else txt
                if "enable_tracing" in subj or "enable_tracing" in txt:
                    continue
                if "get_line_number" in subj and info and info[3] and set(info[3].values()) == {"None", "Some"}:
                    continue
                extra.append(subj[:120])
            ck.require(not extra, "C17:TRACE:conditions", "trace placement",
                       "the Trace push is control-dependent only on enable_tracing and on the line being numbered",
                       "whether a trace record is emitted also depends on %s: the trace no longer names every numbered line "
                       "execution passes through (a record can be suppressed by earlier, untraced execution)" % extra, sp)
            # trace happens before dispatch: the dispatch next_token is not reachable *to* the trace
            if trace_call is None:
                ok_before = bool(disp) and all(not es.reaches(d.bb, b) for d in disp)
            else:
                ok_before = bool(disp) and all(not es0.reaches(d.bb, trace_call.bb) for d in disp) and not es.calls_to("Program::next_token")
            ck.require(ok_before, "C17:TRACE:before-dispatch", "trace placement",
                       "the Trace push precedes the statement dispatch", "a statement is dispatched before its trace record", sp)
        # exactly one other place may create Trace records: none
        others = [bd.path for bd in F.bodies.values() if bd.crate == "abasic_core" and bd is not es
                  and list(aggregates(bd, "interpreter_output::InterpreterOutput", "Trace"))]
        ck.require(not others, "C17:TRACE:no-other-site", "trace placement", "no other Trace construction",
                   "Trace records are also created in %s" % others)

    # every token execution passes is first seen by evaluate_statement (which traces, then dispatches): the stepper itself moves
    # the cursor past nothing before handing over -- a stepper that skips `:` separators on its own never enters a statement
    # on a line that consists of separators, or that a RETURN / NEXT re-enters at a trailing `:`, and the line is missing
    # from the trace
    rn = get_fn(ck, F, "Interpreter::run_next_statement")
    if rn is not None:
        evs = [c for c in rn.calls() if c.callee.endswith("StatementEvaluator::evaluate_statement")]
        if len(evs) == 1:
            before = {b for b in rn.reachable() if b != evs[0].bb and rn.reaches(b, evs[0].bb)}
            eff = region_effects(E, rn, before)
            moved = sorted({p[1][1] if len(p) > 1 else "?" for (k, p) in eff if p and p[0][1] == "program"} |
                           {"?" for (k, p) in eff if k == "?"})
            ck.require(not moved, "C17:TRACE:stepper-consumes-nothing", "trace placement",
                       "run_next_statement writes nothing of the program (cursor included) before it calls evaluate_statement",
                       "run_next_statement modifies Program.%s before handing over to evaluate_statement: tokens are consumed "
                       "without a statement being entered, so a numbered line execution passes through can be missing from the "
                       "trace" % ",".join(moved), evs[0].span)
        else:
            ck.missing("C17:TRACE:stepper-consumes-nothing", "the single evaluate_statement call of run_next_statement")

    # ---- warn before implicit creation
    n_sites = 0
    for fn in ("Arrays::get_value_at_index", "Arrays::set_value_at_index"):
        for (cb, c) in callers_of(F, fn):
            if cb.crate != "abasic_core":
                continue
            n_sites += 1
            sym = strip_expr(cb.expr(c.args[1]))
            ws = cb.calls_to("Interpreter::maybe_log_warning_about_undeclared_array_use")
            ok = False
            for w in ws:
                wsym = strip_expr(cb.expr(w.args[1]))
                if wsym == sym and cb.dominates(w.bb, c.bb) and w.bb != c.bb:
                    # nothing between the warning and the access touches arrays
                    between = cb.blocks_reachable_from(w.target) - cb.blocks_reachable_from(c.target or c.bb) if w.target is not None else set()
                    between.discard(c.bb)
                    eff = region_effects(E, cb, between)
                    if not any(any(x == (INTERP, "arrays") for x in p) for (_k, p) in eff):
                        ok = True
            ck.require(ok, "C17:WARN:before-create:%s:%s" % (cb.path, fn.split("::")[-1]), "warn before create",
                       "dominated by maybe_log_warning_about_undeclared_array_use(same symbol), no arrays write between",
                       "%s reaches %s without first logging the undeclared-array warning for the same symbol (or the "
                       "array is created before the warning is decided): with warnings on, the warning is lost"
                       % (cb.path, fn), c.span)
    ck.floor("C17.implicit-array access sites", n_sites, 1)
    mc = callers_of(F, "Arrays::maybe_create_default_array")
    names = sorted({b.path for b, _ in mc})
    from lib import allowed_via_callers
    ck.require(all(allowed_via_callers(F, n, ("Arrays::get_value_at_index", "Arrays::set_value_at_index")) for n in names),
               "C17:WARN:implicit-creators", "warn before create", "implicit creation happens only in %s" % names,
               "maybe_create_default_array gained a caller: %s" % names)
    ml = get_fn(ck, F, "Interpreter::maybe_log_warning_about_undeclared_array_use")
    if ml is not None:
        has = [c for c in ml.calls() if sfx(c.callee, "Arrays::has")]
        ck.require(bool(has) and bool(ml.calls_to("Interpreter::warn")), "C17:WARN:array-condition", "warning condition",
                   "array warning is conditioned on !arrays.has(name)", "the array warning lost its !arrays.has() test", ml.span)
        # ... exactly: every path that warns has seen has() == false, and a path that has seen has() == false (with warnings
        # wanted, where the function tests that itself) warns -- `enable_warnings || !has` warns about arrays that exist
        from lib import path_records
        wrong = []
        for r in path_records(ml):
            warned = any(sfx(c.callee, "Interpreter::warn") for c in r["calls"])
            hv = [d[2] for d in r["decisions"] if any(x[1].endswith("Arrays::has") for x in expr_calls(d[3]))]
            ev = [d[2] for d in r["decisions"] if "enable_warnings" in d[0]]
            if warned and False not in hv:
                wrong.append("a path warns without having seen arrays.has() == false")
            if not warned and hv == [False] and all(v is True for v in ev):
                wrong.append("a path that has seen arrays.has() == false does not warn")
        ck.require(not wrong, "C17:WARN:array-condition-exact", "warning condition",
                   "warn() is reached exactly on the paths where arrays.has(name) was false",
                   "maybe_log_warning_about_undeclared_array_use: %s -- the warning is no longer issued exactly when a statement "
                   "touches an array that does not exist yet" % "; ".join(sorted(set(wrong))), ml.span)
    cands = [b for b, c in callers_of(F, "Variables::has") if b.crate == "abasic_core" and "expression::ExpressionEvaluator" in b.path]
    et = cands[0] if len({b.path for b in cands}) == 1 else get_fn(ck, F, "ExpressionEvaluator::evaluate_expression_term")
    if et is not None:
        has = [c for c in et.calls() if sfx(c.callee, "Variables::has")]
        warn = et.calls_to("Interpreter::warn")
        ok = False
        for w in warn:
            for h in has:
                if h.target is not None and et.term(h.target)["k"] == "switch":
                    ft = bool_switch_true_target(et, h.target)
                    if ft and et.dominates(ft[0], w.bb) and not et.dominates(ft[1], w.bb):
                        ok = True
        ck.require(ok, "C17:WARN:variable-condition", "warning condition",
                   "variable warning is issued on the !variables.has(symbol) arm",
                   "the undeclared-variable warning is no longer conditioned on !variables.has(symbol)", et.span)

        # ... and exactly when the variable store is what gets read: the warning is followed on every path by
        # Variables::get (a name resolved elsewhere -- a DEF FN parameter found on the stack -- is not an unassigned variable)
        gets = [c for c in et.calls() if sfx(c.callee, "Variables::get")]
        pdom = et.postdominators()
        ok2 = bool(warn) and all(any(g.bb in pdom.get(w.bb, set()) or g.bb == w.bb for g in gets) for w in warn)
        ck.require(ok2, "C17:WARN:variable-read-follows", "warning condition",
                   "every undeclared-variable warning is post-dominated by the Variables::get it is about (%d warn, %d get)" % (len(warn), len(gets)),
                   "in evaluate_expression_term the undeclared-variable warning is issued on a path that does not go on to read the "
                   "variable store (e.g. the name is then resolved as a function argument on the stack): a spurious warning", et.span)

    # ---- the output queue is write-only inside the core
    uses = {}
    for body in F.bodies.values():
        if body.crate != "abasic_core" or body.path.endswith("as core::fmt::Debug>::fmt"):
            continue
        for c in body.calls():
            if c.is_local or not c.args:
                continue
            e = strip_refs(body.expr(c.args[0]))
            if e[0] == "place" and e[2] and e[2][-1] == (INTERP, "output"):
                uses.setdefault(c.callee.split("::")[-1], []).append(body.path)
    bad = {k: v for k, v in uses.items() if k not in ("push", "extend", "take")}
    ck.note("output_queue_uses", {k: len(v) for k, v in uses.items()})
    ck.require(not bad, "C17:OUTPUT:write-only", "records carry no state",
               "Interpreter.output is only pushed to / extended / taken (%s)" % sorted(uses),
               "Interpreter.output is inspected inside the core via %s: execution could depend on emitted records" % bad)


def uses_of_local(body, local):
    """Blocks where `local` is used other than its own definition."""
    out = set()

    def in_op(o):
        return o.get("k") in ("copy", "move") and o["place"]["local"] == local

    for b in sorted(body.reachable()):
        blk = body.blocks[b]
        for st in blk["stmts"]:
            if st["k"] != "assign":
                continue
            rv = st["rv"]
            for key in ("op", "a", "b"):
                if key in rv and isinstance(rv[key], dict) and in_op(rv[key]):
                    out.add(b)
            for o in rv.get("ops", []):
                if in_op(o):
                    out.add(b)
            if "place" in rv and rv["place"]["local"] == local:
                out.add(b)
        t = blk["term"]
        if t["k"] == "call":
            if any(in_op(a) for a in t["args"]):
                out.add(b)
        elif t["k"] == "switch" and in_op(t["discr"]):
            out.add(b)
    return out
