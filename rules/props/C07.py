"""C07 -- Break and CONT are transparent to the interrupted program (frame argument).

 1. capture/restore: break stores the current numbered location; CONT copies it back; CannotContinue on None
 2. the immediate line keeps the stack exactly while a breakpoint is pending and touches nothing else
 3. who may drop a breakpoint: control transfers, RUN, edits, CONT -- not the error path
 4. inspection effects: what a statement that "assigns nothing" (PRINT) can write
 5. frame pairing: every path from the function-call push to any exit passes the pop
 6. R-RESUME for STOP inside THEN..ELSE
"""
from lib import (expr_params, sfx, get_fn, callers_of, strip_expr, strip_refs, show, expr_calls, aggregates, switch_arms_on, arm_target,
                 exclusive_region, region_aggregates, bool_switch_true_target)
from props import C06
from props.C01 import _reaches_avoiding

LEVEL = "other"
EXPLANATION = (
    "Frame argument on the MIR: a break stores the current location in `breakpoint` and parks the cursor on the empty "
    "immediate line, CONT copies it back; the effect analysis shows what else can change in between -- the immediate "
    "line helper writes only immediate_line/location and clears the stack exactly when no breakpoint is pending, the "
    "error path writes no Program field, only control transfers drop a breakpoint -- and lists the write set of the "
    "canonical inspecting statement (PRINT) and the push/pop pairing of function-call frames on all exits.  Equality "
    "of whole transcripts over all schedules is not decided."
)
TRUSTED = []

PROGRAM = "abasic_core::program::Program"
INTERP = "abasic_core::interpreter::Interpreter"


def run(ck, F, E):
    # ---- (1) capture / restore
    br = get_fn(ck, F, "Program::break_at_current_location")
    if br is not None:
        ok_some = ok_none = False
        for b, i, pl, rv, sp in br.assigns():
            fs = [p for p in pl["proj"] if p["k"] == "field"]
            if fs and fs[-1].get("name") == "breakpoint":
                e = br.rv_expr(rv)
                if e[0] == "agg" and e[2] == "Some" and "as_numbered" in show(e[3][0]) and "location" in show(e[3][0]):
                    ok_some = True
                # `self.breakpoint = self.location.as_numbered()` stores the same Option directly
                from lib import expr_has_field
                se = strip_expr(e)
                if se[0] == "call" and se[1].endswith("ProgramLocation::as_numbered") and expr_has_field(se[2][0], "location"):
                    ok_some = ok_none = True
                if e[0] == "agg" and e[2] == "None":
                    ok_none = True
        ck.require(ok_some, "C07:CAPTURE:break-stores-location", "capture/restore", "breakpoint = Some(location.as_numbered())",
                   "break_at_current_location no longer stores the current numbered location", br.span)
        from lib import immediate_line_emptied_by
        ck.require(bool(br.calls_to("Program::set_and_goto_immediate_line")) or bool(immediate_line_emptied_by(F, br)),
                   "C07:CAPTURE:parks-on-immediate", "capture/restore",
                   "the cursor is parked on the empty immediate line", "a break no longer parks execution on the immediate line", br.span)
    co = get_fn(ck, F, "Program::continue_from_breakpoint")
    if co is not None:
        ok = False
        for b, i, pl, rv, sp in co.assigns():
            fs = [p for p in pl["proj"] if p["k"] == "field"]
            if fs and fs[-1].get("name") == "location":
                e = co.rv_expr(rv)
                if "breakpoint" in show(e) and any(p[0] == "field" and p[2] == "Some" for x in [strip_expr(e)] if x[0] == "call"
                                                    for a in x[2] for p in (strip_expr(a)[4] if strip_expr(a)[0] == "place" else ())):
                    ok = True
                elif "breakpoint" in show(e):
                    ok = True
        ck.require(ok, "C07:RESTORE:cont-copies-breakpoint", "capture/restore", "location = breakpoint (Some payload)",
                   "CONT no longer resumes at the stored breakpoint", co.span)
        from props.C11 import consumer
        consumer(ck, F, "Program::continue_from_breakpoint", "breakpoint", "CannotContinue")
    # STOP and the host break share one path
    ib = get_fn(ck, F, "Interpreter::break_at_current_location")
    if ib is not None:
        ck.require(bool(ib.calls_to("Program::break_at_current_location")), "C07:CAPTURE:host-entry", "capture/restore",
                   "the host entry point breaks through Program::break_at_current_location",
                   "Interpreter::break_at_current_location no longer records the breakpoint", ib.span)
    import tables
    disp = tables.dispatch_table(F, "StatementEvaluator::evaluate_statement")
    if disp is not None:
        ck.require(disp.get("Stop", {}).get("effect") == "break_at_current_location", "C07:CAPTURE:stop-same-path", "capture/restore",
                   "STOP dispatches to break_at_current_location", "STOP no longer shares the host's break path: %s" % disp.get("Stop"))

    # ---- (2) immediate line
    si = get_fn(ck, F, "Program::set_and_goto_immediate_line")
    if si is not None:
        w = {p[0][1] for (k, p) in E.info[si.path].writes if k == 0 and p and p[0][0] == PROGRAM}
        ck.require(w <= {"immediate_line", "location", "stack"}, "C07:IMMEDIATE:write-set", "immediate mode",
                   "set_and_goto_immediate_line writes only %s" % sorted(w),
                   "entering immediate mode also modifies %s: loops / DATA cursor / functions do not survive a break"
                   % sorted(w - {"immediate_line", "location", "stack"}), si.span)
        # every write of Program.stack in it is control dependent on `breakpoint` being None (if / match / let-else forms)
        from props.C11 import writes_only_without_breakpoint
        ok = "stack" not in w or writes_only_without_breakpoint(F, E, si.path, "stack")
        ck.require(ok, "C07:IMMEDIATE:stack-kept-while-breakpoint", "immediate mode",
                   "the stack is cleared exactly on the breakpoint.is_none() arm",
                   "the GOSUB/function stack is no longer kept exactly while a breakpoint is pending", si.span)

    # ---- (2b) ordering: the immediate-line helper decides the fate of the stack by looking at `breakpoint`, so
    #      a break must store the breakpoint BEFORE parking, and CONT must park BEFORE clearing it
    def bp_writes(body):
        out = []
        for b, i, pl, rv, sp in body.assigns():
            fs = [p for p in pl["proj"] if p["k"] == "field"]
            if fs and fs[-1].get("name") == "breakpoint":
                out.append(b)
        for c in body.calls():
            if not c.is_local and c.args and c.args[0]["k"] in ("copy", "move") and c.args[0]["place"].get("ty", "").startswith("&mut") \
                    and "breakpoint" in show(body.expr(c.args[0])):
                out.append(c.bb)
        return out

    if br is not None:
        from lib import immediate_line_emptied_by
        parks = br.calls_to("Program::set_and_goto_immediate_line") or immediate_line_emptied_by(F, br)
        ws = bp_writes(br)
        ok = bool(parks) and bool(ws) and all(not _reaches_avoiding(br, 0, p.bb, set(ws)) for p in parks) and \
            not any(br.reaches(p.bb, w) for p in parks for w in ws)
        ck.require(ok, "C07:ORDER:break-stores-before-parking", "capture/restore",
                   "the breakpoint is stored before set_and_goto_immediate_line runs (so the stack is kept)",
                   "break_at_current_location parks on the immediate line before the breakpoint is stored: the helper sees no "
                   "pending breakpoint and clears the GOSUB/function stack", br.span)
    if co is not None:
        parks = co.calls_to("Program::set_and_goto_immediate_line")
        ws = bp_writes(co)
        ok = bool(parks) and not any(co.reaches(w, p.bb) or w == p.bb and False for w in ws for p in parks) and \
            not any(co.dominates(w, p.bb) and w != p.bb for w in ws for p in parks)
        ck.require(ok, "C07:ORDER:cont-parks-before-clearing", "capture/restore",
                   "CONT calls set_and_goto_immediate_line while the breakpoint is still pending, and clears it afterwards",
                   "continue_from_breakpoint clears (takes) the breakpoint before set_and_goto_immediate_line runs: the helper then "
                   "sees no pending breakpoint and clears the GOSUB/function stack -- a break inside a subroutine followed by CONT "
                   "ends in RETURN WITHOUT GOSUB", co.span)
        w = {p[0][1] for (k, p) in E.info[co.path].writes if k == 0 and p and p[0][0] == PROGRAM}
        ck.require(w <= {"breakpoint", "immediate_line", "location", "stack"}, "C07:EFFECT:cont", "capture/restore",
                   "CONT writes only %s" % sorted(w), "CONT also modifies %s" % sorted(w - {"breakpoint", "immediate_line", "location", "stack"}),
                   co.span)
    if ib is not None:
        tops = set()
        for (k, p) in E.info[ib.path].writes:
            if k != 0 or not p:
                continue
            if p[0] == (INTERP, "program") and len(p) > 1:
                tops.add("Program." + p[1][1])
            else:
                tops.add("Interpreter." + p[0][1])
        allowed_b = {"Interpreter.state", "Interpreter.output", "Program.breakpoint", "Program.immediate_line", "Program.location",
                     "Program.stack"}
        ck.require(tops <= allowed_b, "C07:EFFECT:break", "capture/restore",
                   "a break writes only %s" % sorted(tops),
                   "a break also modifies %s: state the interrupted program relies on (a pending INPUT reply, variables, loops, "
                   "DATA cursor, ...) does not survive break + CONT" % sorted(tops - allowed_b), ib.span)

    # ---- (3) who may drop a breakpoint
    ws = E.writers_of_field("program::Program", "breakpoint")
    names = sorted(n.split("::")[-1] for n in ws)
    allowed = {"break_at_current_location", "continue_from_breakpoint", "goto_line_number", "return_to_last_gosub",
               "reset_runtime_state", "set_numbered_line"}
    ck.require(set(names) <= allowed and bool(names), "C07:BREAKPOINT:writers", "breakpoint writers",
               "breakpoint is written only by %s" % names,
               "Program.breakpoint is also written by %s: something other than a control transfer / RUN / edit / CONT can drop "
               "(or forge) the resume point" % sorted(set(names) - allowed))
    ri = get_fn(ck, F, "Interpreter::return_to_idle_state")
    if ri is not None:
        w = {p[0][1] for (k, p) in E.info[ri.path].writes if k == 0 and p}
        ck.require(w <= {"string_manager", "state"}, "C07:BREAKPOINT:error-path", "breakpoint writers",
                   "the error path (return_to_idle_state) writes only %s" % sorted(w),
                   "the error path also writes %s: a failing immediate statement at a breakpoint changes the continuation"
                   % sorted(w - {"string_manager", "state"}), ri.span)
    pe = get_fn(ck, F, "Program::populate_error_location")
    if pe is not None:
        ck.require(not E.info[pe.path].writes - {(1, ((("abasic_core::interpreter_error::TracedInterpreterError", "location"),)))},
                   "C07:BREAKPOINT:populate-readonly", "breakpoint writers", "populate_error_location only fills the error's location",
                   "populate_error_location writes %s" % sorted(map(str, E.info[pe.path].writes)), pe.span, nontrivial=False)

    # ---- (4) inspection effects of PRINT
    pr = get_fn(ck, F, "StatementEvaluator::evaluate_print_statement")
    if pr is not None:
        tops = {}
        for (k, p) in E.info[pr.path].writes:
            if k != 0:
                continue
            els = [x for x in p if x[0] in (INTERP, PROGRAM)]
            if not els:
                continue
            name = "%s.%s" % (els[0][0].split("::")[-1], els[0][1])
            if els[0] == (INTERP, "program") and len(els) > 1:
                name = "Program.%s" % els[1][1]
            tops.setdefault(name, p)
        ck.note("print_write_set", sorted(tops))
        ok_set = {"Interpreter.output": "the transcript", "Program.location": "the token cursor",
                  "Program.stack": "function-call frames, pushed and popped in pairs (see FRAME rule)",
                  "Interpreter.rng": "RND advances the generator: specified behaviour (C18)"}
        import panics
        for k_, v_ in panics.balanced_counter_fields(F).items():
            ok_set["Program.%s" % k_] = v_
        for name in sorted(tops):
            if name in ok_set:
                ck.ok("C07:EFFECT:print:%s" % name, "inspection effects", "allowed: " + ok_set[name], "", pr.span, nontrivial=False)
            else:
                leaf = tops[name][-1]
                ck.bad("C07:EFFECT:print:%s.%s" % (leaf[0].split("::")[-1], leaf[1]), "inspection effects",
                       "a PRINT (which assigns nothing) can modify %s: merely reading an undeclared array at a breakpoint creates it "
                       "(`10 STOP` / `20 DIM A(20)`; PRINT A(1) at the break; CONT -> REDIM'D ARRAY)" % name, pr.span)

    # ---- (5) frame pairing
    ud = get_fn(ck, F, "ExpressionEvaluator::evaluate_user_defined_function_call")
    if ud is not None:
        pushes = ud.calls_to("Program::push_function_call_onto_stack_and_goto_it")
        # any Program method that takes one frame off Program.stack (pop with or without returning to the caller's location)
        from props import C16
        poppers = set()
        for pb in F.bodies.values():
            if pb.crate == "abasic_core" and pb.self_adt == C16.PROGRAM:
                if any(c.callee.endswith("Vec::pop") and C16.receiver_field(pb, c) == (C16.PROGRAM, "stack") for c in pb.calls()) and \
                        not any(c.callee.endswith("Vec::push") and C16.receiver_field(pb, c) == (C16.PROGRAM, "stack") for c in pb.calls()):
                    poppers.add(pb.path)
        ck.note("C07.frame_poppers", sorted(poppers))
        pops = [c for c in ud.calls() if c.callee in poppers]
        ck.require(len(pushes) == 1 and len(pops) >= 1, "C07:PAIR:sites", "frame pairing", "one push, one pop",
                   "expected one push/pop pair in evaluate_user_defined_function_call (push %d, pop %d)" % (len(pushes), len(pops)), ud.span)
        if len(pushes) == 1 and pops:
            import vetted
            counts = vetted.fn_call_frame_counts(F, ud, poppers)
            key = "C07:PAIR:expression::evaluate_user_defined_function_call:push/pop:err-exit"
            if counts is None:
                ck.missing("C07:PAIR:start", "the paths of evaluate_user_defined_function_call")
            else:
                leaks = sum(1 for (pushed, n, early) in counts if pushed and n == 0)
                extra = sum(1 for (pushed, n, early) in counts if n > 1 or early or (n and not pushed))
                ck.note("C07.frame_paths", {"paths": len(counts), "with_push": sum(1 for c_ in counts if c_[0]), "leaks": leaks, "extra_pops": extra})
                if leaks:
                    ck.bad(key, "frame pairing",
                           "after a successful push_function_call_onto_stack_and_goto_it there are %d paths to return that take no frame "
                           "off again (the `?` exit of the body evaluation): a failing FN call leaves its frame and parameter binding on "
                           "the stack -- at a breakpoint, CONT then reads the parameter instead of the program's variable" % leaks, pops[0].span)
                else:
                    ck.ok(key, "frame pairing", "every path from the successful push to any return takes the frame off again")
                ck.require(not extra, "C07:PAIR:expression::evaluate_user_defined_function_call:push/pop:extra-pop", "frame pairing",
                           "no path takes off more frames than the one it pushed",
                           "%d paths of evaluate_user_defined_function_call take more frames off the stack than they pushed: an FN call "
                           "in an immediate PRINT at a breakpoint removes a GOSUB frame of the interrupted program" % extra, pops[0].span)

    # ---- (5b) a control statement that fails with its specified error has not touched the continuation before failing
    fail_readonly(ck, F, E)
    stacks_dropped_only_with_breakpoint(ck, F, E)
    cont_arm(ck, F)
    failing_dim_is_readonly(ck, F)

    # ---- breaking at an INPUT prompt and CONTinuing re-executes the INPUT statement: it must do nothing until a reply exists
    from props.C08 import await_rule
    await_rule(ck, F, E, "C07")

    # ---- (6)
    C06.resume_rule(ck, F, "C07")


CONTROL_FAILURES = ("NextWithoutFor", "ReturnWithoutGosub", "CannotContinue")
# Program methods behind statements that assign no variable and may fail when typed at a breakpoint
FAILURE_ATOMIC = ("define_function",)
MUT_BORROWS = ("get_mut", "entry", "last_mut", "first_mut", "iter_mut", "values_mut", "get_many_mut", "or_insert", "or_insert_with", "or_default")
CONTINUATION = ("stack", "loop_stack", "breakpoint", "data_iterator", "functions")
MUTATORS = ("pop", "clear", "truncate", "drain", "remove", "swap_remove", "retain", "push", "insert", "take", "split_off", "extend")


def fail_readonly(ck, F, E):
    """`NEXT Q`, `RETURN` or `CONT` typed at a breakpoint may fail (NEXT WITHOUT FOR, RETURN WITHOUT GOSUB, CAN'T CONTINUE);
    a failing statement must leave the interrupted program's continuation as it was.  For every Program method that builds
    one of these errors: on every path that reaches the construction, Program.{stack, loop_stack, breakpoint,
    data_iterator, functions} has not been modified -- directly, or through a local callee unless the error sits on the
    None / Err arm of that callee's result and the callee's failing paths are themselves write-free.  One accepted idiom:
    re-checking the name of the element a finder returned for that very name (a dead post-condition check)."""
    from props import C16
    from props.C11 import writes_only_without_breakpoint
    from lib import path_records, on_ok_arm
    n_sites = 0
    seen_variants = set()
    n_atomic = set()
    for body in F.bodies.values():
        if body.crate != "abasic_core" or body.self_adt != PROGRAM:
            continue
        errs = [(b, v, sp) for (b, i, pl, rv, sp) in aggregates(body, "interpreter_error::InterpreterError")
                for v in [rv.get("variant")] if v in CONTROL_FAILURES]
        if body.path.split("::")[-1] in FAILURE_ATOMIC:
            # every way out with an error counts, whoever builds it (`x.try_into()?` gives ILLEGAL DIRECT for a DEF typed
            # in direct mode: a DEF that fails must not have touched the function it names)
            for c in body.calls():
                if c.callee.endswith("from_residual") and c.dest["local"] == 0 and not c.dest["proj"]:
                    errs.append((c.bb, "propagated", c.span))
            for (b, i, pl, rv, sp) in aggregates(body, "core::result::Result", "Err"):
                if pl["local"] == 0 and not pl["proj"]:
                    errs.append((b, "Err", sp))
            n_atomic.add(body.path.split("::")[-1])
        if not errs:
            continue
        fi = E.info[body.path]
        for (eb, variant, sp) in errs:
            n_sites += 1
            seen_variants.add(variant)
            key = "C07:FAIL-READONLY:%s:%s#%d" % (body.path.split("::")[-1], variant, sum(1 for x in errs if x[1] == variant and x[0] <= eb))
            bad = []
            from lib import ok_or_sites
            none_means_error = [x for (_oc, srcs) in ok_or_sites(body, variant) for x in srcs]
            for c in body.calls():
                if c.bb == eb or not body.reaches(c.bb, eb):
                    continue
                touched = set()
                if not c.is_local:
                    rf = C16.receiver_field(body, c)
                    if rf and rf[0] == PROGRAM and rf[1] in CONTINUATION and c.callee.split("::")[-1] in MUTATORS:
                        # `self.stack.pop().ok_or(Error)?`: the error is what a pop that returned None turns into
                        if any(x is c for x in none_means_error) and c.callee.split("::")[-1] in ("pop", "take", "remove") and \
                                not any(c.bb in blk for blk in body.natural_loops().values()):
                            continue
                        # `let Some(x) = v.pop() else { return Err(..) }`: a pop that returned None removed nothing
                        in_loop = any(c.bb in blk for blk in body.natural_loops().values())
                        if in_loop or not (c.callee.split("::")[-1] in ("pop", "take", "remove") and _on_failure_arm_of(body, c, eb)):
                            touched.add(rf[1])
                elif c.callee in E.info:
                    ci = E.info[c.callee]
                    for (k, p) in ci.writes:
                        if k == "?" or k >= len(c.args):
                            continue
                        for (r, pp, m) in E._map_callee_loc(fi, c.args[k], p, ci.param_is_ref[k]):
                            if r == ("p", 0) and pp and pp[0][0] == PROGRAM and pp[0][1] in CONTINUATION:
                                touched.add(pp[0][1])
                    if "stack" in touched and writes_only_without_breakpoint(F, E, c.callee, "stack"):
                        touched.discard("stack")     # dropped only when nothing can be continued
                    if touched and _on_failure_arm_of(body, c, eb) and _failing_paths_write_free(F, E, c.callee, touched):
                        touched = set()
                    if touched and _postcondition_recheck(F, body, c, eb):
                        touched = set()
                if touched:
                    bad.append("%s modifies Program.%s" % (c.callee.split("::")[-1], ",".join(sorted(touched))))
            for (b2, i2, pl2, rv2, sp2) in body.assigns():
                if b2 != eb and body.reaches(b2, eb):
                    fs = [p for p in pl2["proj"] if p["k"] == "field"]
                    if fs and fs[0].get("name") in CONTINUATION and fs[0].get("adt", "").endswith("program::Program"):
                        bad.append("assignment to Program.%s" % fs[0]["name"])
                    # a store through a reference handed out by `self.<field>.get_mut(..)` / `.entry(..)` / `.last_mut()`
                    if any(p["k"] == "deref" for p in pl2["proj"]):
                        for x in expr_calls(body.binding_expr(pl2["local"], 12)):
                            if len(x) > 3 and x[3] is not None and x[1].split("::")[-1] in MUT_BORROWS:
                                rf = C16.receiver_field(body, x[3])
                                if rf and rf[0] == PROGRAM and rf[1] in CONTINUATION:
                                    bad.append("store through %s() of Program.%s" % (x[1].split("::")[-1], rf[1]))
            ck.require(not bad, key, "failing control statements are read-only",
                       "nothing of the continuation is modified on a path that reaches Err(%s)" % variant,
                       "%s can report %s after it has already modified the continuation (%s): a failing statement typed at a "
                       "breakpoint changes what CONT resumes" % (body.path, variant, "; ".join(sorted(set(bad)))), sp)
    ck.floor("C07.control-statement failures constructed in Program", len(seen_variants - {"propagated", "Err"}), len(CONTROL_FAILURES))
    ck.floor("C07.failure-atomic Program methods found", len(n_atomic), len(FAILURE_ATOMIC))


def failing_dim_is_readonly(ck, F):
    """A DIM typed at a breakpoint that fails (REDIM'D ARRAY, OUT OF MEMORY) assigns nothing: no path of Arrays::create that
    ends in an error has touched the array map (`insert` first and judge by what it returned replaces the program's array by
    a zeroed one before reporting the error)."""
    from lib import path_records
    b = get_fn(ck, F, "Arrays::create")
    if b is None:
        return
    bad = 0
    n = 0
    for r in path_records(b):
        failing = (r["outcome"] or "").startswith("Err") or any(c.callee.endswith("from_residual") for c in r["calls"])
        if not failing:
            continue
        n += 1
        if any(c.callee.split("::")[-1] in ("insert", "remove", "clear", "entry", "get_mut", "retain") and "HashMap" in c.callee for c in r["calls"]):
            bad += 1
    ck.require(n > 0 and bad == 0, "C07:FAIL-READONLY:Arrays::create", "failing control statements are read-only",
               "none of the %d failing paths of Arrays::create has modified the array map" % n,
               "Arrays::create can fail after it has already modified the array map (%d of %d failing paths): a DIM typed at a "
               "breakpoint that is rejected has still replaced the program's array" % (bad, n), b.span)


def cont_arm(ck, F):
    """CONT = restore the breakpoint's location, then step: in the command dispatcher, run_next_statement is reached through the
    success arm of continue_from_breakpoint (and only there is continue_from_breakpoint called)."""
    from lib import on_ok_arm
    mp = get_fn(ck, F, "Interpreter::maybe_process_command")
    if mp is None:
        return
    c1 = mp.calls_to("Program::continue_from_breakpoint")
    c2 = mp.calls_to("Interpreter::run_next_statement")
    ok = len(c1) == 1 and any(on_ok_arm(mp, c1[0], x.bb) for x in c2)
    ck.require(ok, "C07:CONT:restore-then-step", "capture / restore",
               "the CONT command calls continue_from_breakpoint and, on its success, run_next_statement",
               "the CONT arm of maybe_process_command no longer restores the breakpoint and then steps (%d restore call(s), %d step "
               "call(s)): a break followed by CONT does not resume the program" % (len(c1), len(c2)), mp.span)
    others = sorted({b.path for b, _ in callers_of(F, "Program::continue_from_breakpoint")} - {mp.path})
    ck.require(not others, "C07:CONT:only-the-command", "capture / restore", "continue_from_breakpoint is called by the CONT command only",
               "continue_from_breakpoint is also called from %s" % others, mp.span, nontrivial=False)


def stacks_dropped_only_with_breakpoint(ck, F, E):
    """The GOSUB and FOR stacks are what CONT resumes with.  Whoever empties one of them wholesale must be giving up the
    pending breakpoint too (RUN, a program edit), or do it only when no breakpoint is pending (going back to direct mode).  A
    helper that empties them is judged by its callers, up to three levels.  (`END` typed at a breakpoint is a statement that
    assigns nothing; the continuation must survive it.)"""
    from props import C16
    from props.C11 import writes_only_without_breakpoint
    from lib import field_stores
    STACKS = ("stack", "loop_stack")

    def direct_clears(body):
        out = []
        for c in body.calls():
            if c.is_local:
                continue
            nm = c.callee.split("::")[-1]
            rf = C16.receiver_field(body, c)
            if not (rf and rf[0] == PROGRAM and rf[1] in STACKS):
                continue
            full = nm == "drain" and len(c.args) > 1 and strip_expr(body.expr(c.args[1]))[0] == "agg" and \
                str(strip_expr(body.expr(c.args[1]))[1]).endswith("RangeFull")
            if nm == "clear" or full or (nm == "truncate" and strip_expr(body.expr(c.args[1]))[0] == "const" and
                                                   strip_expr(body.expr(c.args[1]))[1].get("int") == 0):
                out.append((c.bb, rf[1], c.span))
            if nm in ("take", "replace", "swap") and "mem" in c.callee:
                out.append((c.bb, rf[1], c.span))
        for (b2, i2, pl2, rv2, sp2) in body.assigns():
            fs = [p for p in pl2["proj"] if p["k"] == "field"]
            if len(fs) == 1 and fs[0].get("name") in STACKS and fs[0].get("adt", "").endswith("program::Program") and \
                    pl2["proj"][-1]["k"] == "field":
                out.append((b2, fs[0]["name"], sp2))
        return out

    def gives_up_breakpoint(body, bb):
        pd = body.postdominators()
        # `self.breakpoint.take();` / `mem::take(&mut self.breakpoint)`
        for c in body.calls():
            if c.is_local or c.callee.split("::")[-1] not in ("take", "replace"):
                continue
            rf = C16.receiver_field(body, c)
            if rf and rf[0] == PROGRAM and rf[1] == "breakpoint" and \
                    (c.bb in pd.get(0, set()) or c.bb == 0 or body.dominates(c.bb, bb) or c.bb in pd.get(bb, set())):
                if c.callee.split("::")[-1] == "take" or (len(c.args) > 1 and strip_expr(body.expr(c.args[1]))[0] == "agg" and
                                                            strip_expr(body.expr(c.args[1]))[2] == "None"):
                    return True
        for (b, e, sp) in field_stores(F, body, "breakpoint"):
            e = strip_expr(e)
            if e[0] == "agg" and e[2] == "None" and (b in pd.get(0, set()) or b == 0 or body.dominates(b, bb) or b in pd.get(bb, set())):
                return True
        # or through a local callee that does so unconditionally
        for c in body.calls():
            cb = F.bodies.get(c.callee)
            if cb is None or cb.path == body.path or cb.self_adt != PROGRAM:
                continue
            if (c.bb in pd.get(0, set()) or c.bb == 0 or body.dominates(c.bb, bb) or c.bb in pd.get(bb, set())):
                cpd = cb.postdominators()
                for (b, e, sp) in field_stores(F, cb, "breakpoint"):
                    e = strip_expr(e)
                    if e[0] == "agg" and e[2] == "None" and (b in cpd.get(0, set()) or b == 0):
                        return True
        return False

    def site_ok(body, bb, field, depth):
        if gives_up_breakpoint(body, bb):
            return None
        from lib import controlling_switches, expr_has_field
        for (sb, subj, names) in controlling_switches(body, bb):
            if expr_has_field(subj, "breakpoint") and writes_only_without_breakpoint(F, E, body.path, field):
                return None
        if depth >= 3:
            return "%s (call chain too deep to follow)" % body.path.split("::")[-1]
        cs = callers_of(F, body.path.split("::", 1)[1] if body.path.startswith("abasic_core::") else body.path)
        cs = [(cb, c) for (cb, c) in cs if c.callee == body.path]
        if not cs:
            return "%s, which nobody calls with the breakpoint given up" % body.path.split("::")[-1]
        for (cb, c) in cs:
            w = site_ok(cb, c.bb, field, depth + 1)
            if w is not None:
                return "%s <- %s" % (body.path.split("::")[-1], w)
        return None
    n = 0
    for body in F.bodies.values():
        if body.crate != "abasic_core" or "::tests::" in body.path:
            continue
        for (bb, field, sp) in direct_clears(body):
            n += 1
            why = site_ok(body, bb, field, 0)
            ck.require(why is None, "C07:STACKS:%s:emptied-only-with-the-breakpoint:%s" % (field, body.path.split("::")[-1]),
                       "the continuation survives statements typed at a breakpoint",
                       "Program.%s is emptied in %s only where the breakpoint is given up as well, or where none is pending" % (field, body.path.split("::")[-1]),
                       "Program.%s is emptied on a path that keeps a pending breakpoint (%s): after such a statement is typed at a "
                       "breakpoint, CONT resumes a program whose open GOSUBs / FOR loops are gone" % (field, why), sp)
    ck.floor("C07.sites that empty the GOSUB / FOR stacks", n, 1)


def _on_failure_arm_of(body, call, bb):
    """bb is reached only through the None / Err / false arm of `call`'s result."""
    if call.target is None:
        return False
    for b in sorted(body.blocks_reachable_from(call.target)):
        info = body.switch_info(b)
        if not info or not info[3]:
            continue
        cs = [x[3] for x in expr_calls(info[0]) if len(x) > 3]
        if not any(x is call for x in cs):
            continue
        for v, n in info[3].items():
            if n in ("None", "Err", "Break"):
                t = info[1].get(v, info[2])
                if t is not None and (t == bb or body.dominates(t, bb)):
                    return True
    return False


def _failing_paths_write_free(F, E, callee, fields):
    """No direct mutation of the given Program fields on any path of `callee` that returns None / Err."""
    from props import C16
    from lib import path_records
    cb = F.bodies.get(callee)
    if cb is None:
        return False
    try:
        recs = path_records(cb)
    except OverflowError:
        return False
    for r in recs:
        # what is returned on this path?
        ret = None
        for b in r["path"]:
            for st in cb.blocks[b]["stmts"]:
                if st["k"] == "assign" and st["place"]["local"] == 0 and not st["place"]["proj"] and st["rv"]["k"] == "aggregate":
                    ret = st["rv"].get("variant")
        if ret not in ("None", "Err"):
            continue
        for c in r["calls"]:
            rf = C16.receiver_field(cb, c) if not c.is_local else None
            if rf and rf[0] == PROGRAM and rf[1] in fields and c.callee.split("::")[-1] in MUTATORS:
                return False
            if c.is_local and c.callee in E.info and any(k == 0 and p and p[0] == (PROGRAM, f_) for (k, p) in E.info[c.callee].writes for f_ in fields):
                return False
    return True


def _postcondition_recheck(F, body, call, eb):
    """The error is control dependent on comparing `.symbol` of the element `call` returned with the very name `call` was
    asked for, and the callee selects its element by comparing `.symbol` with that parameter: a re-check that cannot fail."""
    from lib import controlling_switches, expr_has_field
    if len(call.args) < 2:
        return False
    asked = strip_expr(body.expr(call.args[1]))
    asked_params = expr_params(asked)
    for (sb, subj, names) in controlling_switches(body, eb):
        cs = [x for x in expr_calls(subj)]
        if not any(x[1].split("::")[-1] in ("ne", "eq") for x in cs):
            continue
        if not any(len(x) > 3 and x[3] is call for x in cs):
            continue
        if not expr_has_field(subj, "symbol"):
            continue
        if not (asked_params and asked_params <= expr_params(subj)):
            continue
        cb = F.bodies.get(call.callee)
        if cb is None:
            return False
        bodies = [cb] + [F.bodies[p] for p in F.bodies if p.startswith(cb.path + "::{closure")]
        for b2 in bodies:
            for c2 in b2.calls():
                if c2.callee.split("::")[-1] in ("eq", "ne") and any(expr_has_field(b2.expr(a), "symbol") for a in c2.args):
                    return True
    return False
