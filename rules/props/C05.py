"""C05 -- static analysis terminates on every file and yields well-formed diagnostics.

 1. panic-freedom of everything reachable from SourceFileAnalyzer / SourceFileMap's public API
 2. INV-MAP: a BASIC line is registered in the source map iff its tokens were stored
 3. one range entry and one token list per file line
 4. termination: strictly increasing successor, recursion guard
 5. range construction rule (start + literal needs an ASCII test)
"""
import panics
import vetted
import common
from lib import aggregates, expr_calls
from props import C13

LEVEL = "other"
EXPLANATION = (
    "Panic-site inventory over the analyzer's reachable set (same engine as C01) plus the INV-MAP pairing rule: "
    "constant-propagating path enumeration of one iteration of the per-file-line loop of SourceFileAnalyzer::run "
    "shows that SourceFileMap::add is called exactly on the paths that call Program::set_numbered_line and that "
    "every path pushes exactly one range entry and one token list, which is what makes every later "
    "map_location_to_source / file_line_ranges[i] total.  Char-boundary of token ranges is C13's cursor rule."
)
TRUSTED = ["str::split('\\n') yields one item per file line"]

ADTS = ("SourceFileAnalyzer", "SourceFileMap")


def analyzer_roots(F):
    return [b.path for b in F.bodies.values() if b.crate == "abasic_core" and b.is_pub and b.self_adt and
            any(b.self_adt.endswith(a) for a in ADTS)]


def analyzer_deps():
    """The analyzer dereferences only Program.location (it never starts loops, calls subroutines, breaks or reads
    DATA), so for its roots INV-LOC reduces to the obligations about `location` and about how locations are built."""
    deps = dict(vetted.INV_DEPENDS)
    deps["INV-LOC"] = ("C11", ("C11:KILL:Program.location", "C11:ESTABLISH:", "C11:WRITER:", "C11:CALLER:ProgramLines"))
    return deps


def run(ck, F, E):
    roots = analyzer_roots(F)
    ck.floor("C05.analyzer API roots", len(roots), 10)
    common.map_rule(ck, F, E, "C05")
    deps = analyzer_deps()
    G, seen, T = panics.panic_freedom(ck, F, E, "C05", roots, vetted.ROWS, deps, floor_sites=40)
    panics.recursion_rule(ck, F, G, seen, "C05")
    common.successor_rule(ck, F, "C05")
    C13.range_rule(ck, F, "C05")
    C13.errpos_rules(ck, F, "C05")
    C13.same_text_rule(ck, F, "C05")
    mappable_errors(ck, F)
    tokens_after_line_number(ck, F)


def tokens_after_line_number(ck, F):
    """"per-line token ranges are ordered and non-overlapping": the analyzer emits the line number as a token of its own
    (0..end) and tokenizes the rest; every tokenizer it builds over a numbered file line therefore starts after the number --
    `Tokenizer::new(line, ..).skip_bytes(end)` with `end` from parse_line_number.  A second tokenizer over the same line that
    starts at column 0 (to keep highlighting a line that failed) emits the number again, overlapping the first token."""
    SA = "analyzer::source_file_analyzer::SourceFileAnalyzer"
    n = 0
    bad = []
    for p, b in sorted(F.bodies.items()):
        if b.crate != "abasic_core" or SA + "::" not in p or not b.calls_to("line_number_parser::parse_line_number"):
            continue
        pl = b.calls_to("line_number_parser::parse_line_number")
        skips = [c for c in b.calls() if c.callee.endswith("Tokenizer::skip_bytes") or c.callee.split("::")[-1] == "skip_bytes"]
        for c in [c for hb in [b] + [x for q, x in F.bodies.items() if q.startswith(p + "::{closure")] for c in hb.calls()
                  if c.callee.endswith("tokenizer::Tokenizer::new")]:
            n += 1
            ok = False
            for sk in skips:
                e0 = b.expr(sk.args[0], depth=30)
                e1 = b.expr(sk.args[1], depth=30) if len(sk.args) > 1 else ("?",)
                if any(len(x) > 3 and x[3] is c for x in expr_calls(e0)) and any(len(x) > 3 and x[3] in pl for x in expr_calls(e1)):
                    ok = True
            if not ok:
                bad.append(p.split("::")[-1])
    ck.floor("C05.tokenizers built over numbered file lines", n, 1)
    ck.require(not bad, "C05:TOKENS:tokenizer-starts-after-the-line-number", "mappable diagnostics",
               "every tokenizer of the per-line analysis skips the line number parse_line_number found",
               "%s builds a tokenizer over a numbered line without skipping its line number: the number is emitted twice and the "
               "token ranges of the line overlap" % ", ".join(sorted(set(bad))))


def mappable_errors(ck, F):
    """"every diagnostic can be mapped to a source position ... within that line's bounds".  An error diagnostic is mappable when
    its error is a tokenization error (position inside the line) or carries the location analysis gave it; and a tokenization
    position is only meaningful for a line registered in the source map with its real length.  So, over the functions of
    SourceFileAnalyzer: (1) no DiagnosticMessage::Error is built around an error value constructed on the spot (an
    `InterpreterError::X.into()` has neither position nor location: map_to_source returns None and the LSP drops it);
    (2) no trip round the per-line loop both registers the line as empty (`add_empty`, length 0) and reports an Error for it
    (an unterminated string at byte 6 of such a line maps to the range 6..0)."""
    from lib import iteration_paths, path_records, with_closures
    SA = "analyzer::source_file_analyzer::SourceFileAnalyzer"
    fns = [b for p, b in F.bodies.items() if b.crate == "abasic_core" and SA + "::" in p and "::tests" not in p]
    makers = set()
    n = 0
    bad1 = []
    for b in fns:
        for (bb, i, pl, rv, sp) in aggregates(b, "diagnostic_message::DiagnosticMessage", "Error"):
            n += 1
            makers.add(b.path.split("::{closure")[0])
            e = b.expr(rv["ops"][1], depth=30) if len(rv["ops"]) > 1 else ("?",)
            txt = repr(e)
            built = [x for x in ("interpreter_error::InterpreterError", "interpreter_error::OutOfMemoryError", "syntax_error::SyntaxError")
                     if "('agg', 'abasic_core::%s'" % x in txt]
            if built:
                bad1.append("%s builds the error itself (%s)" % (b.path.split("::")[-1], built[0].split("::")[-1]))
    ck.floor("C05.error diagnostics constructed by the analyzer", n, 2)
    ck.require(not bad1, "C05:DIAG:errors-carry-a-position", "mappable diagnostics",
               "every Error diagnostic wraps an error produced by the tokenizer or by analysis (which locates it)",
               "an Error diagnostic is built around an error value made on the spot (%s): it has neither a tokenization position nor a "
               "location, so it cannot be mapped to a source range" % "; ".join(sorted(set(bad1))))
    run_ = F.one("SourceFileAnalyzer::run")
    if run_ is not None:
        bad2 = 0
        trips = 0
        for r in path_records(run_, paths=iteration_paths(run_)):
            names = [c.callee for c in r["calls"]]
            # directly, or through a private helper of the analyzer that registers the empty entry (`add_ignored_line`)
            empties = {p for p, hb in F.bodies.items() if SA + "::" in p and p != run_.path and
                       any(x.callee.endswith("SourceFileMap::add_empty") for x in hb.calls())}
            if not any(x.endswith("SourceFileMap::add_empty") or x in empties for x in names):
                continue
            trips += 1
            direct = any(a[0].endswith("DiagnosticMessage") and a[1] == "Error" for a in r["aggs"])
            via = any(x in makers and x != run_.path for x in names)
            if direct or via:
                bad2 += 1
        ck.require(trips > 0 and bad2 == 0, "C05:DIAG:no-error-for-an-unmapped-line", "mappable diagnostics",
                   "%d trip(s) of the per-line loop register the line as empty; none reports an Error for it" % trips,
                   "SourceFileAnalyzer::run registers a file line as empty (length 0) and reports an Error for it in the same trip "
                   "(%d of %d): a tokenization error at byte k of that line maps to the range k..0" % (bad2, trips), run_.span)


def run_thorough(ck, F, E):
    import clippy_xref
    clippy_xref.cross_reference(ck, F, "C05", package="abasic-core", crate="abasic_core")
