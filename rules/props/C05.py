"""C05 -- static analysis terminates on every file and yields well-formed diagnostics.

 1. panic-freedom of everything reachable from SourceFileAnalyzer / SourceFileMap's public API
 2. INV-MAP: a BASIC line is registered in the source map iff its tokens were stored
 3. one range entry and one token list per file line
 4. termination: strictly increasing successor, recursion guard
 5. range construction rule (start + literal needs an ASCII test)
"""
import panics
import vetted
import common
from props import C13

LEVEL = "other"
EXPLANATION = (
    "Panic-site inventory over the analyzer's reachable set (same engine as C01) plus the INV-MAP pairing rule: "
    "constant-propagating path enumeration of one iteration of the per-file-line loop of SourceFileAnalyzer::run "
    "shows that SourceFileMap::add is called exactly on the paths that call Program::set_numbered_line and that "
    "every path pushes exactly one range entry and one token list, which is what makes every later "
    "map_location_to_source / file_line_ranges[i] total.  Char-boundary of token ranges is C13's cursor rule."
)
TRUSTED = ["str::split('\\n') yields one item per file line"]

ADTS = ("SourceFileAnalyzer", "SourceFileMap")


def analyzer_roots(F):
    return [b.path for b in F.bodies.values() if b.crate == "abasic_core" and b.is_pub and b.self_adt and
            any(b.self_adt.endswith(a) for a in ADTS)]


def analyzer_deps():
    """The analyzer dereferences only Program.location (it never starts loops, calls subroutines, breaks or reads
    DATA), so for its roots INV-LOC reduces to the obligations about `location` and about how locations are built."""
    deps = dict(vetted.INV_DEPENDS)
    deps["INV-LOC"] = ("C11", ("C11:KILL:Program.location", "C11:ESTABLISH:", "C11:WRITER:", "C11:CALLER:ProgramLines"))
    return deps


def run(ck, F, E):
    roots = analyzer_roots(F)
    ck.floor("C05.analyzer API roots", len(roots), 10)
    common.map_rule(ck, F, E, "C05")
    deps = analyzer_deps()
    G, seen, T = panics.panic_freedom(ck, F, E, "C05", roots, vetted.ROWS, deps, floor_sites=40)
    panics.recursion_rule(ck, F, G, seen, "C05")
    common.successor_rule(ck, F, "C05")
    C13.range_rule(ck, F, "C05")
    C13.errpos_rules(ck, F, "C05")
    C13.same_text_rule(ck, F, "C05")


def run_thorough(ck, F, E):
    import clippy_xref
    clippy_xref.cross_reference(ck, F, "C05", package="abasic-core", crate="abasic_core")
