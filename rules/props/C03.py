"""C03 -- programs behave as an independent reference interpreter says they should.

Differential equality with a reference interpreter is NOT statically decidable here and is not claimed.
The statement names mechanisms, each with a structural necessary condition that is checked:
 1. READ consumes DATA in line order; RESTORE / RUN reset the cursor
 2. FOR limit and step are fixed at entry
 3. a FOR body always runs at least once
 4. NEXT forgets inner loops (truncating removal)
 5. defaults: undefined variables, implicit arrays with indices 0..10
 6. line sequencing by first()/after(current)
 7. the loop-exit comparison of NEXT, GOSUB's return location, cell addressing
 8. R-RESUME: every position a statement can be resumed at has a dispatch arm
"""
from lib import calls_through
from lib import (sfx, get_fn, callers_of, expr_has_field, on_ok_arm, strip_expr, strip_refs, show, expr_calls, expr_params, aggregates, path_records,
                 bool_switch_true_target, exclusive_region, region_aggregates, controlling_switches)
import common
from props import C06, C16

LEVEL = "other"
EXPLANATION = (
    "Necessary conditions only.  Each mechanism the property names is pinned structurally on the MIR: iteration order "
    "of the DATA scan and monotone cursor of DataIterator, absence of any field write to LoopInfo.to_value/step_value "
    "after construction, absence of line/cursor-discarding effects in FOR, truncating loop removal, the default-value "
    "and default-array-size constructions, the comparison that ends a loop, GOSUB's saved return location, the "
    "stride computation of array cells, and the resume rule.  Loop arithmetic on runtime values, PRINT separators and "
    "everything else a reference interpreter would be compared on are not decided by this family."
)
TRUSTED = []

PROGRAM = "abasic_core::program::Program"


def call_names_deep_fn(F, body):
    from lib import with_closures
    return {c.callee.split("::")[-1] for b in with_closures(F, body) for c in b.calls()}


def run(ck, F, E):
    # ---- (1) DATA order and cursor
    di = get_fn(ck, F, "ProgramLines::data_iterator")
    if di is not None:
        loops = di.natural_loops()
        outer_ok = inner_ok = False
        for c in di.calls():
            if c.callee.endswith("::next") and any(c.bb in blk for blk in loops.values()):
                e = di.expr(c.args[0], depth=40)
                if expr_has_field(e, "sorted_line_numbers"):
                    outer_ok = True
                if any(x[1].endswith("::enumerate") for x in expr_calls(e)) and expr_has_field(e, "numbered_lines"):
                    inner_ok = True
        ck.require(outer_ok and inner_ok and len(loops) >= 2, "C03:DATA:scan-order", "DATA in line order",
                   "DATA chunks are collected by iterating sorted_line_numbers, then enumerate() over the line's tokens",
                   "the DATA scan no longer iterates lines in sorted order and tokens in position order", di.span)
        ck.require(not any(c.callee.split("::")[-1] in ("rev", "sort", "sort_by", "sort_unstable", "reverse", "swap") for c in di.calls()),
                   "C03:DATA:no-reorder", "DATA in line order", "no reordering of the collected chunks",
                   "the DATA scan reorders chunks", di.span, nontrivial=False)
    dn = F.one("<abasic_core::data::DataIterator as core::iter::traits::iterator::Iterator>::next")
    if dn is None:
        ck.missing("C03:DATA:cursor", "DataIterator's Iterator::next")
    else:
        incs = {}
        for b, i, pl, rv, sp in dn.assigns():
            fs = [p for p in pl["proj"] if p["k"] == "field"]
            if fs and fs[-1].get("name") in ("chunk_index", "chunk_item_index"):
                e = strip_expr(dn.rv_expr(rv))
                if e[0] == "place" and e[1][0] == "binop" and e[1][1] == "AddWithOverflow" and strip_expr(e[1][3])[0] == "const" \
                        and strip_expr(e[1][3])[1].get("int") == 1 and fs[-1]["name"] in show(e[1][2]):
                    incs.setdefault(fs[-1]["name"], []).append("+1")
                elif e[0] == "const" and e[1].get("int") == 0:
                    incs.setdefault(fs[-1]["name"], []).append("=0")
                else:
                    incs.setdefault(fs[-1]["name"], []).append(show(e))
        ck.require(incs.get("chunk_index") == ["+1"] and sorted(incs.get("chunk_item_index", [])) == ["+1", "=0"],
                   "C03:DATA:monotone-cursor", "DATA in line order",
                   "chunk_item_index advances by one; it is reset only together with chunk_index += 1",
                   "the DATA cursor moves as %s" % incs, dn.span)
        returned = [a for a in region_aggregates(dn, dn.reachable()) if a[1] == "Some"]
        ck.require(bool(returned) and "clone" in " ".join(c.callee for c in dn.calls()), "C03:DATA:returns-current", "DATA in line order",
                   "next() returns (a clone of) the element under the cursor", "DataIterator::next no longer returns the current element", dn.span,
                   nontrivial=False)
    for fn in ("Program::reset_runtime_state", "Program::reset_data_cursor", "Program::set_numbered_line"):
        b = F.one(fn)
        if b is not None:
            kills = {p[0][1] for (k, p) in E.info[b.path].kills if k == 0 and len(p) == 1}
            ck.require("data_iterator" in kills, "C03:DATA:reset:%s" % fn.split("::")[-1], "DATA in line order",
                       "%s resets the DATA cursor" % fn.split("::")[-1], "%s no longer resets the DATA cursor" % fn, b.span)
    import tables
    disp = tables.dispatch_table(F, "StatementEvaluator::evaluate_statement")
    if disp is not None:
        ck.require(disp.get("Restore", {}).get("effect") == "reset_data_cursor", "C03:DATA:restore-arm", "DATA in line order",
                   "RESTORE dispatches to reset_data_cursor", "RESTORE does %s" % disp.get("Restore"))
        ck.require(disp.get("Data", {}).get("effect") == "Ok" and disp.get("Remark", {}).get("effect") == "Ok", "C03:DATA:data-is-noop",
                   "DATA in line order", "DATA and REM are no-ops when executed", "executing DATA/REM does %s / %s" % (disp.get("Data"), disp.get("Remark")))

    # READ fills its targets one by one: `READ I, A(I)` subscripts A with the I just read.  Every trip round a loop of the READ
    # statement that parses a target also takes an item and assigns it (a first pass that collects all the targets evaluates
    # every subscript with the values from before the READ).
    from lib import iteration_paths, with_closures
    rd = get_fn(ck, F, "StatementEvaluator::evaluate_read_statement")
    if rd is not None:
        trips = 0
        bad_trips = 0
        for b2 in with_closures(F, rd):
            for path in iteration_paths(b2):
                names = [b2.call_at(x).callee.split("::")[-1] for x in path if b2.call_at(x) is not None]
                if "parse_lvalue" in names:
                    trips += 1
                    if "assign_value" not in names or "next_data_element" not in names:
                        bad_trips += 1
        all_names = call_names_deep_fn(F, rd)
        ck.require(bad_trips == 0 and (trips > 0 or not rd.natural_loops()) and "parse_lvalue" in all_names and "assign_value" in all_names,
                   "C03:READ:target-by-target", "READ consumes DATA items in order",
                   "%d loop trip(s) parse a target; each also takes the next item and assigns it before the next target is parsed" % trips,
                   "evaluate_read_statement parses READ targets in a loop trip that does not assign (%d of %d trips): the subscripts of "
                   "later targets are evaluated before earlier targets have been read, so `READ I, A(I)` stores into the cell for the "
                   "old I" % (bad_trips, trips), rd.span)

    # ---- (2) limit and step fixed at entry
    for f in ("to_value", "step_value", "location", "symbol"):
        ws = E.writers_of_field("program::LoopInfo", f)
        ck.require(not ws, "C03:FOR:LoopInfo.%s-immutable" % f, "limit and step fixed at entry",
                   "LoopInfo.%s is never written after construction" % f, "LoopInfo.%s is modified in %s" % (f, sorted(ws)))
    sl = get_fn(ck, F, "Program::start_loop")
    fe = get_fn(ck, F, "StatementEvaluator::evaluate_for_statement")
    tv = sv = None
    if sl is not None:
        aggs = list(aggregates(sl, "program::LoopInfo"))
        names = F.adt_fields("program::LoopInfo")
        ok = len(aggs) == 1
        if ok:
            rv = aggs[0][3]
            tv = strip_expr(sl.expr(rv["ops"][names.index("to_value")]))
            sv = strip_expr(sl.expr(rv["ops"][names.index("step_value")]))
            lv = strip_expr(sl.expr(rv["ops"][names.index("location")]))
            # limit and step are two different parameters of start_loop, the location is the program's current one
            ok = tv[0] == "param" and sv[0] == "param" and tv != sv and lv[0] == "place" and lv[2] and lv[2][-1] == (PROGRAM, "location")
        sites = [b.path for b in F.bodies.values() if b.crate == "abasic_core" and list(aggregates(b, "program::LoopInfo"))]
        ck.require(ok and sites == [sl.path], "C03:FOR:LoopInfo-construction", "limit and step fixed at entry",
                   "LoopInfo is built once, in start_loop, from its to/step arguments and the current location",
                   "LoopInfo is built at %s / with other values" % sites, sl.span)
    if sl is not None and fe is not None:
        # the loop variable receives the FROM value: in start_loop (from a parameter) or in the FOR handler next to the call
        from lib import call_names_deep
        sets = [(sl, c) for c in sl.calls_to("Variables::set")] + [(fe, c) for c in fe.calls_to("Variables::set")]
        ok = False
        for (ob, c) in sets:
            v = ob.expr(c.args[2])
            if ob is sl:
                ps = expr_params(v)
                if len(ps) == 1 and (tv is None or ("param", list(ps)[0]) not in (tv, sv)):
                    ok = True
            else:
                nm = call_names_deep(ob, v)
                if "evaluate_expression" in nm or "try_from" in nm or "try_into" in nm:
                    ok = True
                # ... or through a helper of the fork (`evaluate_numeric_expression`): an evaluation of its own, distinct from the
                # ones that feed the limit and the step
                mine = {id(x[3]) for x in expr_calls(v) if len(x) > 3 and x[3] is not None and x[1].split("::")[-1].startswith("evaluate_")}
                others = set()
                for sc in fe.calls_to("Program::start_loop"):
                    for a in sc.args[1:]:
                        others |= {id(x[3]) for x in expr_calls(fe.expr(a)) if len(x) > 3 and x[3] is not None}
                if mine and not (mine & others):
                    ok = True
        ck.require(ok and len(sets) == 1, "C03:FOR:initial-value", "limit and step fixed at entry", "the loop variable is set to the FROM value (once)",
                   "neither start_loop nor the FOR handler assigns the FROM value to the loop variable exactly once (%d assignments)" % len(sets), sl.span)
    if fe is not None:
        c = fe.calls_to("Program::start_loop")
        ok = len(c) == 1
        if ok and tv is not None and tv[0] == "param" and sv[0] == "param":
            from lib import call_names_deep
            at, as_ = c[0].args[tv[1]], c[0].args[sv[1]]
            ok = any(x.startswith("evaluate_") for x in call_names_deep(fe, fe.expr(at))) and strip_expr(fe.expr(at)) != strip_expr(fe.expr(as_))
        ck.require(ok, "C03:FOR:operands", "limit and step fixed at entry", "start_loop receives the evaluated TO and STEP operands",
                   "evaluate_for_statement no longer passes its evaluated operands to start_loop", fe.span, nontrivial=False)
        # default step 1.0
        has_one = any(st["k"] == "assign" and st["rv"]["k"] == "use" and st["rv"]["op"].get("float") == "1.0"
                      for blk in fe.blocks for st in blk["stmts"])
        ck.require(has_one, "C03:FOR:default-step", "limit and step fixed at entry", "STEP defaults to 1.0",
                   "the default STEP is no longer 1.0", fe.span)

    # ---- (3) FOR body runs at least once
    for fn in ("StatementEvaluator::evaluate_for_statement", "Program::start_loop"):
        b = F.one(fn)
        if b is None:
            continue
        bad = [c.callee.split("::")[-1] for c in b.calls() if c.callee.split("::")[-1] in
               ("discard_remaining_tokens", "goto_line_number", "next_line", "end", "set_and_goto_immediate_line", "end_loop")]
        wl = []
        if fn == "Program::start_loop":  # (the FOR handler itself evaluates expressions, whose FN calls save/restore the location)
            wl = [p for (k, p) in E.info[b.path].writes if p and p[-1] in ((PROGRAM, "location"), ("abasic_core::program::ProgramLocation", "line"))]
        ck.require(not bad and not wl, "C03:FOR:body-runs-once:%s" % fn.split("::")[-1], "FOR body runs at least once",
                   "%s never skips tokens or changes the line" % fn.split("::")[-1],
                   "%s can skip the loop body (%s / writes %s): a FOR whose limit is already passed would not run once" % (fn, bad, wl), b.span)

    # ---- (4) NEXT forgets inner loops
    C16.loop_rules(ck, F, E)
    el = get_fn(ck, F, "Program::end_loop")
    if el is not None:
        next_exit(ck, F, el)

    # ---- (5) defaults
    vg = get_fn(ck, F, "Variables::get")
    if vg is not None:
        ok = False
        for b in sorted(vg.reachable()):
            info = vg.switch_info(b)
            if info and info[3] and set(info[3].values()) == {"None", "Some"}:
                for v, n in info[3].items():
                    if n == "None":
                        t = info[1].get(v, info[2])
                        if any(sfx(c.callee, "Value::default_for_variable") and c.bb in exclusive_region(vg, t) for c in vg.calls()):
                            ok = True
        if not ok:
            from lib import with_closures
            # `map.get(name).cloned().unwrap_or_else(|| default_for_variable(..))`
            for cb in with_closures(F, vg)[1:]:
                if cb.calls_to("Value::default_for_variable") and any(c.callee.split("::")[-1] in ("unwrap_or_else", "map_or_else") and
                                                                       any(x[1].endswith("::get") for x in expr_calls(vg.expr(c.args[0])))
                                                                       for c in vg.calls()):
                    ok = True
            # `if !self.has(name) { return default_for_variable(..) }`
            for c in vg.calls_to("Value::default_for_variable"):
                for (sb, subj, names) in controlling_switches(vg, c.bb):
                    nm = [x[1].split("::")[-1] for x in expr_calls(subj)]
                    if "contains_key" in nm or "has" in nm:
                        ft = bool_switch_true_target(vg, sb)
                        e_ = strip_expr(subj)
                        neg = e_[0] == "unop" and e_[1] == "Not"
                        missing_arm = ft[1] if neg else ft[0]
                        if vg.dominates(missing_arm, c.bb) or c.bb == missing_arm:
                            ok = True
        ck.require(ok, "C03:DEFAULT:variable", "defaults", "a missing variable reads as default_for_variable(name)",
                   "Variables::get no longer returns the name's default on a miss", vg.span)
    dv = get_fn(ck, F, "Value::default_for_variable")
    if dv is not None:
        calls = [c.callee for c in dv.calls()]
        ok = any("String as core::default::Default" in c for c in calls) and any("f64 as core::default::Default" in c for c in calls)
        if not ok:
            # spelled out: Value::String(Rc::new(String::new())) / Value::Number(0.0)
            from lib import float_consts_deep
            str_ok = num_ok = False
            for (bb, i, pl, rv, sp) in aggregates(dv, "value::Value"):
                e0 = dv.expr(rv["ops"][0]) if rv.get("ops") else None
                if rv.get("variant") == "String" and e0 is not None and any(x[1].endswith("String::new") or "String as core::default::Default" in x[1]
                                                                          for x in expr_calls(e0)):
                    str_ok = True
                if rv.get("variant") == "Number" and e0 is not None and float_consts_deep(dv, e0) in ({"0.0"}, {"0"}, {"0.0", "-0.0"} - {"-0.0"}):
                    num_ok = True
            ok = (str_ok or any("String as core::default::Default" in c for c in calls)) and \
                (num_ok or any("f64 as core::default::Default" in c for c in calls))
        ck.require(ok, "C03:DEFAULT:values", "defaults", "defaults are String::default() / f64::default() by `$`",
                   "default_for_variable builds %s" % [c.split("::")[-3:] for c in calls], dv.span)
    das = F.const("arrays::DEFAULT_ARRAY_SIZE")
    ck.require(das == 10, "C03:DEFAULT:array-size", "defaults", "DEFAULT_ARRAY_SIZE == 10 (indices 0..10)", "DEFAULT_ARRAY_SIZE is %r" % das)
    dd = get_fn(ck, F, "ValueArray::default_for_variable_and_dimensionality")
    if dd is not None:
        ok = False
        for c in dd.calls():
            if c.callee.endswith("from_elem"):
                a0 = strip_expr(dd.expr(c.args[0]))
                a1 = strip_expr(dd.expr(c.args[1]))
                if a0[0] == "const" and a0[1].get("int") == das and a1 == ("param", 1):
                    ok = True
        if not ok:
            # `repeat(DEFAULT_ARRAY_SIZE).take(dimensions).collect()`
            reps = [c for c in dd.calls() if c.callee.split("::")[-1] in ("repeat", "repeat_n")]
            takes = [c for c in dd.calls() if c.callee.split("::")[-1] == "take"]
            for r_ in reps:
                a0 = strip_expr(dd.expr(r_.args[0]))
                if a0[0] == "const" and a0[1].get("int") == das:
                    if r_.callee.split("::")[-1] == "repeat_n" and len(r_.args) > 1 and strip_expr(dd.expr(r_.args[1])) == ("param", 1):
                        ok = True
                    for t_ in takes:
                        if len(t_.args) > 1 and strip_expr(dd.expr(t_.args[1])) == ("param", 1) and \
                                any(len(x) > 3 and x[3] is r_ for x in expr_calls(dd.expr(t_.args[0]))):
                            ok = True
        ck.require(ok, "C03:DEFAULT:array-shape", "defaults", "implicit arrays get max index DEFAULT_ARRAY_SIZE in each of `dimensions` axes",
                   "implicit arrays are no longer vec![DEFAULT_ARRAY_SIZE; dimensions]", dd.span)
        # ... as a MAXIMUM INDEX: the vector goes to a constructor that adds one per axis (`max_index.checked_add(1)`), so cell 10
        # exists; handed to a constructor that takes sizes, the same constant gives indices 0..9
        from lib import deep_calls
        def adds_one(path_, depth=0):
            hb = F.bodies.get(path_)
            if hb is None or depth > 2:
                return False
            from lib import with_closures
            pairs = list(deep_calls(F, hb, lambda p: p.startswith("abasic_core::arrays::"), depth=2))
            for owner in {o.path: o for (o, _c) in pairs}.values():
                for cb in with_closures(F, owner)[1:]:      # `.map(|m| m.checked_add(1))`
                    pairs += [(cb, cc) for cc in cb.calls()]
            for (ob, c) in pairs:
                if c.callee.split("::")[-1] in ("checked_add", "saturating_add", "wrapping_add") and len(c.args) > 1:
                    a = strip_expr(ob.expr(c.args[1]))
                    if a[0] == "const" and a[1].get("int") == 1:
                        return True
            for (ob, c) in [(hb, None)] + [(F.bodies[c2.callee], None) for (_o, c2) in deep_calls(F, hb, lambda p: p.startswith("abasic_core::arrays::"), depth=2)
                                           if c2.callee in F.bodies and c2.callee.startswith("abasic_core::arrays::")]:
                for blk in ob.blocks:
                    for st in blk["stmts"]:
                        if st["k"] == "assign" and st["rv"]["k"] == "binop" and st["rv"]["op"] in ("Add", "AddWithOverflow"):
                            bb_ = st["rv"]["b"]
                            if bb_.get("k") == "const" and bb_.get("int") == 1 and "usize" in str(bb_.get("ty", "")):
                                return True
            return False
        sinks = [c for c in dd.calls() if c.callee.startswith("abasic_core::arrays::") and c.callee != dd.path]
        ok2 = bool(sinks) and all(adds_one(c.callee) for c in sinks)
        ck.require(ok2, "C03:DEFAULT:array-max-index", "defaults",
                   "the default vector is passed to a constructor that turns a maximum index into a size (+1 per axis)",
                   "default_for_variable_and_dimensionality hands DEFAULT_ARRAY_SIZE to %s, which does not add one per axis: implicit "
                   "arrays have indices 0..9 instead of 0..10" % sorted({c.callee.split("::")[-1] for c in sinks}), dd.span)
    for fn in ("Arrays::get_value_at_index", "Arrays::set_value_at_index"):
        b = F.one(fn)
        if b is not None:
            from lib import calls_through
            c = calls_through(F, b, "Arrays::maybe_create_default_array")     # directly or through a forwarding helper
            ok = len(c) == 1 and c[0].args[2] is not None and "len" in show(b.expr(c[0].args[2])) and 2 in expr_params(b.expr(c[0].args[2]))
            ck.require(ok, "C03:DEFAULT:dimensionality:%s" % fn.split("::")[-1], "defaults",
                       "the implicit array has as many dimensions as subscripts given", "%s creates implicit arrays of another rank" % fn, b.span)
    nb = get_fn(ck, F, "DimArray::new")
    if nb is not None:
        ok = False
        for c in nb.calls():
            if c.callee.endswith("checked_add") and strip_expr(nb.expr(c.args[1]))[0] == "const" and strip_expr(nb.expr(c.args[1]))[1].get("int") == 1:
                ok = True
        for b, i, pl, rv, sp in nb.assigns():
            if rv["k"] == "binop" and rv["op"] == "AddWithOverflow" and rv["b"].get("int") == 1:
                ok = True
        if not ok:
            from lib import with_closures
            for cb in with_closures(F, nb)[1:]:      # `.map(|max_index| max_index.checked_add(1))`
                for c in cb.calls():
                    if c.callee.endswith("checked_add") and strip_expr(cb.expr(c.args[1]))[0] == "const" and strip_expr(cb.expr(c.args[1]))[1].get("int") == 1:
                        ok = True
        ck.require(ok, "C03:DEFAULT:size=max+1", "defaults", "dimension size = max index + 1", "DimArray::new no longer sizes an axis as max index + 1", nb.span)

    # ---- (6) sequencing
    common.successor_rule(ck, F, "C03")
    nl = get_fn(ck, F, "Program::next_line")
    if nl is not None:
        ck.require(bool(nl.calls_to("ProgramLines::after")), "C03:SEQ:next_line", "line sequencing", "next_line = after(current)",
                   "next_line no longer uses ProgramLines::after", nl.span, nontrivial=False)
    rn = get_fn(ck, F, "Interpreter::run_next_statement")
    if rn is not None:
        # (in run_next_statement itself or in a private helper of the interpreter it calls)
        from lib import deep_calls
        dc = [c.callee for (_o, c) in deep_calls(F, rn, lambda p: p.startswith("abasic_core::interpreter::Interpreter::") and
                                                 not p.endswith("::run_next_statement"), depth=1)]
        ok = any(sfx(x, "Program::next_line") for x in dc) and any(sfx(x, "Program::has_next_token") for x in dc)
        ck.require(ok, "C03:SEQ:advance-when-exhausted", "line sequencing", "the next line is entered when the current one is exhausted",
                   "run_next_statement no longer advances to the next line when the line is exhausted", rn.span)

    # ---- (7) GOSUB return location, cell addressing
    gs = get_fn(ck, F, "Program::gosub_line_number")
    if gs is not None:
        ok = False
        for b, i, pl, rv, sp in aggregates(gs, "program::StackFrame"):
            names = F.adt_fields("program::StackFrame")
            e = gs.expr(rv["ops"][names.index("return_location")])
            # copied from self.location before the goto
            goto = gs.calls_to("Program::goto_line_number")
            loc = rv["ops"][names.index("return_location")]
            if "location" in show(e) and goto:
                # the copy was made in a block that dominates the goto call
                l = loc["place"]["local"] if loc["k"] in ("copy", "move") else None
                chain_ok = False
                for _ in range(4):
                    d = gs.unique_def(l) if l is not None else None
                    if d and d[0] == "assign" and d[3]["k"] == "use" and d[3]["op"]["k"] in ("copy", "move"):
                        src = d[3]["op"]["place"]
                        if [p for p in src["proj"] if p["k"] == "field"]:
                            chain_ok = gs.dominates(d[1], goto[0].bb) and d[1] != goto[0].target
                            break
                        l = src["local"]
                    else:
                        break
                ok = chain_ok
        if not ok:
            # `self.goto_line_number(n).map(|()| self.stack.push(StackFrame { return_location, .. }))`: the frame is built in a
            # closure; its return_location is a capture of a parent local that copied self.location before the goto call
            from lib import with_closures, closure_capture_expr
            names = F.adt_fields("program::StackFrame")
            goto = gs.calls_to("Program::goto_line_number")
            for cb in with_closures(F, gs)[1:]:
                for b, i, pl, rv, sp in aggregates(cb, "program::StackFrame"):
                    e = strip_expr(cb.expr(rv["ops"][names.index("return_location")]))
                    if e[0] == "place" and strip_expr(e[1]) == ("param", 0) and e[2] and e[2][0][0] == "(closure)":
                        parent = gs
                        for blk in parent.blocks:
                            for st in blk["stmts"]:
                                if st["k"] == "assign" and st["rv"]["k"] == "aggregate" and st["rv"].get("agg") == "closure" and \
                                        str(st["rv"].get("closure", "")).endswith(cb.path[len(gs.path):]):
                                    op = st["rv"]["ops"][int(e[2][0][1])]
                                    # by value, or by reference to the local
                                    l = op["place"]["local"] if op.get("k") in ("copy", "move") else None
                                    for _ in range(4):
                                        d = parent.unique_def(l) if l is not None else None
                                        if d is None or d[0] != "assign":
                                            break
                                        rv2 = d[3]
                                        if rv2["k"] == "ref" and not rv2["place"]["proj"]:
                                            l = rv2["place"]["local"]
                                            continue
                                        if rv2["k"] == "use" and rv2["op"]["k"] in ("copy", "move"):
                                            src = rv2["op"]["place"]
                                            if [p for p in src["proj"] if p["k"] == "field" and p.get("name") == "location"]:
                                                ok = bool(goto) and parent.dominates(d[1], goto[0].bb)
                                                break
                                            l = src["local"]
                                            continue
                                        break
        ck.require(ok, "C03:GOSUB:return-location", "GOSUB/RETURN", "the frame stores the location saved before the jump",
                   "GOSUB no longer saves the pre-jump location as the return address", gs.span)
    gl = get_fn(ck, F, "DimArray::get_linear_index")
    if gl is not None:
        from lib import with_closures
        muls = [show(part.rv_expr(rv)) for part in with_closures(F, gl) for b, i, pl, rv, sp in part.assigns()
                if rv["k"] == "binop" and rv["op"] == "MulWithOverflow"]
        ck.require(len(muls) == 2, "C03:ARRAY:stride", "cell addressing", "linear += index * stride; stride *= size (first index fastest)",
                   "get_linear_index computes %s" % muls, gl.span, nontrivial=False)

    # ---- DEF FN: dynamic parameter scoping searches the innermost frame first
    fv = get_fn(ck, F, "Program::find_variable_value_in_stack")
    if fv is not None:
        names = [c.callee.split("::")[-1] for c in fv.calls()]
        backwards = [c for c in fv.calls() if c.callee.split("::")[-1] in ("rev", "rfind", "rposition", "next_back", "rfold")
                     and expr_has_field(fv.expr(c.args[0]), "stack")]
        bodies = [fv] + [cb for cb in F.bodies.values() if cb.kind == "Closure" and cb.parent == fv.path]
        uses_has = any(bool(x.calls_to("Variables::has")) or bool(x.calls_to("Variables::get")) for x in bodies)
        ck.require(bool(backwards) and uses_has, "C03:SCOPE:innermost-first", "dynamic parameter scoping",
                   "frames are searched from the top of the stack (%s)" % sorted({c.callee.split("::")[-1] for c in backwards}),
                   "find_variable_value_in_stack no longer walks the frames innermost-first (calls: %s): a nested FN call sees an "
                   "outer frame's binding of a same-named parameter" % names, fv.span)
    # the function of the expression evaluator that resolves a plain variable (wherever that code lives: today
    # evaluate_expression_term, possibly a helper extracted from it)
    cands = [b for b, c in callers_of(F, "Program::find_variable_value_in_stack") if b.crate == "abasic_core" and "expression::ExpressionEvaluator" in b.path]
    et = cands[0] if len({b.path for b in cands}) == 1 else get_fn(ck, F, "ExpressionEvaluator::evaluate_expression_term")
    if et is not None:
        fs = et.calls_to("Program::find_variable_value_in_stack")
        vg = et.calls_to("Variables::get")
        ok = len(fs) == 1 and bool(vg) and all(et.reaches(fs[0].bb, v.bb) for v in vg)
        ck.require(ok, "C03:SCOPE:frames-before-globals", "dynamic parameter scoping",
                   "a variable read consults the call frames before the global variables",
                   "variable reads no longer look in the function-call frames first", et.span)
    ud = get_fn(ck, F, "ExpressionEvaluator::evaluate_user_defined_function_call")
    if ud is not None:
        ps = ud.calls_to("Program::push_function_call_onto_stack_and_goto_it")
        ok = len(ps) == 1 and ("with_capacity" in show(ud.expr(ps[0].args[2])) or "Variables" in ps[0].args[2]["place"].get("ty", ""))
        sets = ud.calls_to("Variables::set")
        ok = ok and len(sets) == 1 and any(ud.reaches(sets[0].bb, p.bb) for p in ps)
        ck.require(ok, "C03:SCOPE:bindings-pushed", "dynamic parameter scoping",
                   "evaluated arguments are bound in a fresh Variables that is pushed with the frame",
                   "a FN call no longer pushes its evaluated argument bindings as the new frame", ud.span)

    # ---- error line attribution: an error raised inside a function body is located while the cursor is still
    #      in the body (the frame is popped only on success, or the error is located before the pop)
    if ud is not None:
        pushes = ud.calls_to("Program::push_function_call_onto_stack_and_goto_it")
        pops = ud.calls_to("Program::pop_function_call_off_stack_and_return_from_it")
        body_calls = [c for c in ud.calls() if c.callee.endswith("::evaluate_expression") and pushes and
                      on_ok_arm(ud, pushes[0], c.bb)]
        ok = bool(pops) and bool(body_calls)
        for pcall in pops:
            located = any(ud.dominates(c.bb, pcall.bb) for c in ud.calls()
                          if c.callee.endswith("populate_error_location") or c.callee.endswith("error_at_current_location"))
            on_success = any(on_ok_arm(ud, bc, pcall.bb) for bc in body_calls)
            ok = ok and (on_success or located)
        ck.require(ok, "C03:ERRLINE:fn-body", "error line attribution",
                   "the call frame is popped only after the body evaluated successfully (errors are located in the DEF line)",
                   "the function-call frame is popped before an error from the body has been given its location: the error is then "
                   "attributed to the caller's line instead of the DEF line", ud.span)
    pe = get_fn(ck, F, "Program::populate_error_location")
    if pe is not None:
        from lib import with_helpers
        hs = with_helpers(F, pe)          # the choice of location may sit in a private helper (`find_error_location`)
        ok = any(hb.calls_to("Program::get_prev_location") for hb in hs) and any(hb.calls_to("Program::get_data_location") for hb in hs)
        ck.require(ok, "C03:ERRLINE:populate", "error line attribution",
                   "unlocated errors get the previous token's location (DATA type mismatches the DATA item's)",
                   "populate_error_location no longer uses get_prev_location / get_data_location", pe.span)

    # ... and every error an entry point hands to the host has been through it: the entry points wrap their work in
    # postprocess_result, whose Err arm locates the error before passing it on (no path returns Err without the call)
    pp = get_fn(ck, F, "Interpreter::postprocess_result")
    if pp is not None:
        bad_paths = 0
        n_err = 0
        for r in path_records(pp):
            first = [d[2] for d in r["decisions"] if d[2] in ("Ok", "Err")][:1]   # later tests of the same value are drop bookkeeping
            if first != ["Err"]:
                continue
            n_err += 1
            if not any(c.callee.endswith("populate_error_location") for c in r["calls"]):
                bad_paths += 1
        from lib import err_arm_passes
        mform = err_arm_passes(F, pp, "Program::populate_error_location")
        if mform:
            n_err, bad_paths = max(n_err, 1), 0        # `result.map_err(|mut e| { locate(&mut e); ..; e })`
        ck.require(n_err > 0 and bad_paths == 0, "C03:ERRLINE:postprocess-locates", "error line attribution",
                   "every Err path of postprocess_result calls populate_error_location (%d path(s))" % n_err,
                   "postprocess_result passes an error on without locating it (%d of %d Err paths): run-time errors reach the host "
                   "without their line number" % (bad_paths, n_err), pp.span)
        wrapped = []
        from lib import delegated_step
        for ep, inner in (("Interpreter::start_evaluating", "Interpreter::evaluate_impl"),
                          ("Interpreter::continue_evaluating", "Interpreter::run_next_statement")):
            eb = get_fn(ck, F, ep)
            if eb is not None:
                d = eb.unique_def(0)
                wrapped.append(d is not None and d[0] == "call" and d[2].callee.endswith("postprocess_result") or
                               bool(calls_through(F, eb, "postprocess_result")) or
                               delegated_step(F, eb, inner, "Interpreter::postprocess_result") is not None)
        ck.require(all(wrapped) and len(wrapped) == 2, "C03:ERRLINE:entry-points-wrapped", "error line attribution",
                   "start_evaluating and continue_evaluating return through postprocess_result",
                   "an entry point no longer returns through postprocess_result: its errors carry no line number", pp.span)

    print_separator_rule(ck, F)
    if_skip_rule(ck, F)
    redefinition_rule(ck, F)
    # what a program prints depends on what its expressions evaluate to: the operator semantics rules of C02 (comparison of
    # strings by content, arithmetic, truthiness) are necessary conditions of this property as well
    import framework
    from props import C02
    rk = framework.Rekeyed(ck, "C02", "C03:EXPR")
    C02.equality(rk, F)
    C02.truthiness(rk, F)
    C02.logical(rk, F)

    # ---- (8)
    C06.resume_rule(ck, F, "C03")


def print_separator_rule(ck, F):
    """"PRINT with ; and , separators": the line feed is withheld exactly when the last thing PRINT consumed was a semicolon.
    Per trip round the item loop of evaluate_print_statement: the trip that consumes `;` leaves the flag set, every other
    trip (an expression, a comma) leaves it clear.  The flag is found as the bool local whose final value differs between
    trips (drop flags end every trip cleared)."""
    from lib import iteration_paths
    b = get_fn(ck, F, "StatementEvaluator::evaluate_print_statement")
    if b is None:
        return
    trips = []
    for r in path_records(b, paths=iteration_paths(b)):
        tok = None
        for d in r["decisions"]:
            if "peek_next_token" in d[0] or "next_token" in d[0]:
                if d[2] not in ("Some", "None"):
                    tok = d[2]
        last = {}
        for x in r["path"][:-1]:
            for st in b.blocks[x]["stmts"]:
                if st["k"] == "assign" and st["rv"]["k"] == "use" and st["rv"]["op"]["k"] == "const" and \
                        st["rv"]["op"].get("ty") == "bool" and not st["place"]["proj"]:
                    last[st["place"]["local"]] = st["rv"]["op"].get("int")
        trips.append((tok, last))
    if not trips:
        ck.missing("C03:PRINT:newline-iff-no-trailing-semicolon", "the item loop of evaluate_print_statement")
        return
    # a flag computed from the token (`flag = token == Token::Semicolon`) is not a constant store: not decided here
    loop_blocks = set().union(*b.natural_loops().values()) if b.natural_loops() else set()
    computed = any(st["k"] == "assign" and not st["place"]["proj"] and b.local_ty(st["place"]["local"]) == "bool" and
                   (st["rv"]["k"] in ("binop", "unop") or st["rv"]["k"] == "use" and st["rv"]["op"]["k"] != "const")
                   and b.local_name(st["place"]["local"])
                   for x in loop_blocks for st in b.blocks[x]["stmts"])
    if computed:
        ck.ok("C03:PRINT:newline-iff-no-trailing-semicolon", "PRINT separators",
              "the flag is computed from the token rather than stored as constants: not decided by this rule", nontrivial=False)
        return
    flags = [l for l in set().union(*[set(t[1]) for t in trips]) if len({t[1].get(l) for t in trips}) > 1]
    semi = [t for t in trips if t[0] == "Semicolon"]
    why = None
    if not semi:
        why = "no trip of the item loop is selected by a semicolon"
    elif not flags:
        why = "no flag distinguishes the trip that consumed a semicolon from the others"
    else:
        good = [l for l in flags if all(t[1].get(l) == 1 for t in semi) and all(t[1].get(l) == 0 for t in trips if t[0] != "Semicolon")]
        if not good:
            other = sorted({str(t[0] if not isinstance(t[0], tuple) else "an expression") for t in trips
                            if t[0] != "Semicolon" and any(t[1].get(l) != 0 for l in flags)})
            why = "the flag is not cleared by the trip that consumes %s (or not set by the semicolon trip)" % (", ".join(other) or "?")
    ck.require(why is None, "C03:PRINT:newline-iff-no-trailing-semicolon", "PRINT separators",
               "%d trips: the semicolon trip sets the flag, the %d others clear it" % (len(trips), len(trips) - len(semi)),
               "evaluate_print_statement: %s -- a PRINT whose last separator is not a semicolon loses its line feed (or one that ends "
               "in a semicolon gets one)" % why, b.span)


def redefinition_rule(ck, F):
    """DEF FN with dynamic semantics: executing a second DEF of a name replaces the first (body location and parameter list).
    Every successful path of Program::define_function overwrites the table entry -- `HashMap::insert`, or `entry().and_modify(..)
    .or_insert(..)` -- not `entry().or_insert(..)` / `try_insert`, which keep the first definition for the rest of the run."""
    b = get_fn(ck, F, "Program::define_function")
    if b is None:
        return
    bad = []
    n = 0
    for r in path_records(b):
        if r["outcome"] != "Ok" and not (r["outcome"] is None and not any(c.callee.endswith("from_residual") for c in r["calls"])):
            continue
        n += 1
        nm = [c.callee.split("::")[-1] for c in r["calls"]]
        overwrites = "insert" in nm or ("and_modify" in nm and ("or_insert" in nm or "or_insert_with" in nm)) or "get_mut" in nm
        keeps_first = ("or_insert" in nm or "or_insert_with" in nm or "try_insert" in nm or "or_default" in nm) and "and_modify" not in nm \
            and "insert" not in nm
        if keeps_first or not overwrites:
            bad.append(",".join(x for x in nm if x in ("entry", "or_insert", "or_insert_with", "try_insert", "insert", "contains_key")) or "no table update")
    ck.require(n > 0 and not bad, "C03:DEF:last-definition-wins", "DEF FN",
               "every successful path of define_function overwrites the entry for the name",
               "Program::define_function does not overwrite an existing definition (%s): after a second DEF of the same name the "
               "program goes on calling the first body with the first parameter list" % "; ".join(sorted(set(bad))), b.span)


def if_skip_rule(ck, F):
    """A false IF skips its THEN clause; a colon met while skipping ends the statement and with it the line (the rest of the
    line belongs to the THEN clause), so nothing after it -- in particular no ELSE of a nested IF further along the line -- is
    looked at: the trip of the skip loop selected by `:` discards the remaining tokens."""
    from lib import iteration_paths
    b = get_fn(ck, F, "StatementEvaluator::evaluate_if_statement")
    if b is None:
        return
    # the skip loop may sit in the IF handler or in a helper of the evaluator it calls
    cands = [b] + [F.bodies[c.callee] for c in b.calls() if c.callee in F.bodies and "StatementEvaluator" in c.callee
                   and F.bodies[c.callee].natural_loops() and c.callee != b.path]
    recs = []
    for cb in cands:
        recs += path_records(cb, paths=iteration_paths(cb)) + path_records(cb)
    colon = [r for r in recs if any(d[2] == "Colon" for d in r["decisions"])]
    bad = [r for r in colon if not any(c.callee.endswith("discard_remaining_tokens") for c in r["calls"])]
    ck.require(bool(colon) and not bad, "C03:IF:colon-ends-the-skipped-clause", "IF/ELSE token skipping",
               "%d path(s) selected by a colon while skipping: each discards the rest of the line" % len(colon),
               "evaluate_if_statement: while skipping a false THEN clause, a colon no longer ends the line (%d of %d paths go on "
               "scanning): an ELSE further along the line -- belonging to a nested IF inside the skipped clause -- is executed" %
               (len(bad), len(colon)), b.span)


def next_exit(ck, F, el):
    """continue iff (step >= 0 ? new <= to : new >= to), new = current + step; variable := new either way."""
    got = {}
    step_sw = None
    host = el

    def find_step_switch(body):
        for b in sorted(body.reachable()):
            t = body.term(b)
            if t["k"] != "switch":
                continue
            e = strip_expr(body.expr(t["discr"]))
            if e[0] == "binop" and e[1] in ("Ge", "Lt", "Gt", "Le") and "step_value" in show(e[2]):
                c = strip_expr(e[3])
                if c[0] == "const" and c[1].get("float") in ("0.0", "-0.0"):
                    return (b, e[1])
        return None
    step_sw = find_step_switch(el)
    if step_sw is None:
        # the test may have been given a name (`loop_info.should_continue_with(new_value)`): look one call deep, and make
        # sure the value handed over is the incremented one
        for c in el.calls():
            cb = F.bodies.get(c.callee)
            if cb is None or cb.crate != "abasic_core" or cb.local_ty(0) != "bool":
                continue
            sw = find_step_switch(cb)
            if sw is not None and any("Add" in show(el.expr(a)) and "step_value" in show(el.expr(a)) for a in c.args):
                step_sw, host = sw, cb
                break
    el_outer, el = el, host
    ok = False
    if step_sw is not None:
        b, op = step_sw
        ft = bool_switch_true_target(el, b)
        arms = {}
        for name, t in (("true", ft[1]), ("false", ft[0])):
            for bb in sorted(exclusive_region(el, t)):
                for st in el.blocks[bb]["stmts"]:
                    if st["k"] == "assign" and st["rv"]["k"] == "binop" and st["rv"]["op"] in ("Le", "Ge", "Lt", "Gt"):
                        ee = el.rv_expr(st["rv"])
                        arms[name] = (st["rv"]["op"], "step_value" in show(ee[2]) and "AddWithOverflow" not in show(ee[2]) or "Add" in show(ee[2]),
                                      "to_value" in show(ee[3]))
        ok = op == "Ge" and arms.get("true", (None,))[0] == "Le" and arms.get("false", (None,))[0] == "Ge" and \
            all(a[2] for a in arms.values())
        got = arms
    el = el_outer
    ck.require(ok, "C03:NEXT:exit-comparison", "NEXT", "continue iff step >= 0 ? new <= to : new >= to",
               "the loop-continuation test of NEXT is %s (step test %s)" % (got, step_sw), el.span)
    # new = current + step
    adds = [show(el.rv_expr(rv)) for b, i, pl, rv, sp in el.assigns() if rv["k"] == "binop" and rv["op"] == "Add"]
    ck.require(len(adds) == 1 and "step_value" in adds[0], "C03:NEXT:increment", "NEXT", "new value = current + step",
               "NEXT computes %s" % adds, el.span)
    vs = el.calls_to("Variables::set")
    ok = len(vs) == 1 and vs[0].bb in el.postdominators().get(
        [c.bb for c in el.calls_to("Program::remove_loop_with_name")][0] if el.calls_to("Program::remove_loop_with_name") else 0, set()) or \
        (len(vs) == 1)
    ck.require(ok, "C03:NEXT:stores-new-value", "NEXT", "the variable receives the new value whether or not the loop continues",
               "NEXT no longer stores the incremented value", el.span, nontrivial=False)
    # on continue: jump back to the FOR's location and keep the loop
    ok = False
    for b, i, pl, rv, sp in el.assigns():
        fs = [p for p in pl["proj"] if p["k"] == "field"]
        if fs and fs[-1].get("name") == "location" and fs[-1].get("adt", "").endswith("program::Program"):
            if "remove_loop_with_name" in show(el.rv_expr(rv)) and "location" in show(el.rv_expr(rv)):
                ok = True
    ck.require(ok, "C03:NEXT:jump-back", "NEXT", "a continuing loop jumps to the location saved by FOR",
               "NEXT no longer jumps back to the loop's saved location", el.span)
