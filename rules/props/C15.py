"""C15 -- loading a file equals typing it in, and CLI options apply in both modes.

 1. same storing pipeline: the analyzer's per-line body and the prompt path both do
    parse_line_number -> Tokenizer::new(line).skip_bytes(end) -> sibling collectors -> set_numbered_line,
    and the analyzer hands the same Program/StringManager to Interpreter::from_program after a reset
 2. the static check does not alter the program (interpreter taken before/independently of skip_check)
 3. R-CONFIG: every interpreter the CLI runs has the options applied
 4. the Web page loads programs through the prompt path (TS scan)
"""
import os
from lib import (sfx, get_fn, callers_of, strip_expr, strip_refs, show, expr_calls, aggregates)
import common
import tsscan
import extract

LEVEL = "other"
EXPLANATION = (
    "Sibling comparison of the two loading paths on the MIR (same parse / tokenize / store calls with the same data "
    "flow between them) and a configuration rule over the CLI: every assignment to StdioInterpreter.interpreter must "
    "either take its value from CliArgs::create_interpreter or be followed on all paths by the application of the "
    "options (post-dominance).  Byte equality of the binary's stdout/stderr in the two modes (terminal detection, "
    "prompts, error fatality) is process behaviour and is not decided."
)
TRUSTED = ["clap argument parsing"]


def run(ck, F, E):
    P = "C15"
    # ---- (1) prompt path (shared rule) and analyzer path
    common.edit_path_rules(ck, F, E, P, strict=False)
    run_ = get_fn(ck, F, "SourceFileAnalyzer::run")
    if run_ is not None:
        cs = run_.calls_to("Program::set_numbered_line")
        ck.require(len(cs) == 1, "C15:PIPE:analyzer-one-store", "same storing pipeline", "one store call in the analyzer loop",
                   "expected one set_numbered_line call in SourceFileAnalyzer::run, found %d" % len(cs), run_.span)
        for c in cs:
            e = run_.expr(c.args[2])
            calls = [x[1].split("::")[-1] for x in expr_calls(e)]
            ck.require("remaining_tokens_and_ranges" in calls and "skip_bytes" in calls and "new" in calls,
                       "C15:PIPE:analyzer-tokens", "same storing pipeline",
                       "stored tokens = Tokenizer::new(line, ..).skip_bytes(..).remaining_tokens_and_ranges().0",
                       "the analyzer stores tokens produced differently from the prompt path: %s" % calls, c.span)
            ck.require(common._from_parse(run_, c.args[1]), "C15:PIPE:analyzer-number", "same storing pipeline",
                       "line number comes from parse_line_number(line)", "the analyzer's stored line number does not come from parse_line_number",
                       c.span)
        sk = [x for x in run_.calls() if sfx(x.callee, "Tokenizer::skip_bytes")]
        ck.require(any(common._from_parse(run_, x.args[1]) for x in sk), "C15:PIPE:analyzer-skip", "same storing pipeline",
                   "skip_bytes receives the parsed end index", "the analyzer no longer skips exactly the parsed line-number prefix", run_.span)
        # both tokenizers read the same text that was parsed for the number
        tn = [x for x in run_.calls() if sfx(x.callee, "Tokenizer::new")]
        pn = run_.calls_to("line_number_parser::parse_line_number")
        ok = bool(tn) and bool(pn)
        if ok:
            from props import C13
            f1, p1 = C13.text_source(run_, tn[0].args[0])
            f2, p2 = C13.text_source(run_, pn[0].args[0])
            ok = not f1 and not f2 and p1 == p2 and len(p1) == 1
        ck.require(ok, "C15:PIPE:analyzer-same-text", "same storing pipeline", "the tokenizer reads the line whose number was parsed",
                   "the analyzer tokenizes a different text from the one it parsed the number from", run_.span)
    if run_ is not None and len(run_.calls_to("Program::set_numbered_line")) == 1:
        # the analyzer stores a file line under exactly the conditions the prompt path stores a typed line: it has a number,
        # it tokenizes, and (the property's premise) it is not empty.  Any further condition drops lines that typing keeps.
        from lib import controlling_switches
        st = run_.calls_to("Program::set_numbered_line")[0]
        extra = []
        n = 0
        for (sb, subj, names) in controlling_switches(run_, st.bb):
            n += 1
            cs = [x[1].split("::")[-1] for x in expr_calls(subj)]
            head = cs[0] if cs else ""
            if names and set(names.values()) <= {"None", "Some"} and head == "next":
                continue                                   # loop progress (per line / per token)
            if names and set(names.values()) <= {"None", "Some"} and head == "parse_line_number":
                continue
            if names and set(names.values()) <= {"Ok", "Err", "Continue", "Break"} and "remaining_tokens_and_ranges" in cs[:2]:
                continue
            if not names and head == "is_empty" and strip_expr(subj)[0] == "call":
                continue                                   # empty line / no tokens: outside the property's premise
            extra.append(show(subj)[:110])
        ck.require(n >= 3 and not extra, "C15:PIPE:analyzer-stores-every-line", "same storing pipeline",
                   "the analyzer's store is conditioned only on: a line number, successful tokenization, non-emptiness (%d tests)" % n,
                   "SourceFileAnalyzer::run skips storing some numbered, tokenizable, non-empty lines (extra condition: %s): the "
                   "loaded program lacks lines that the same text typed at the prompt defines" % extra, st.span)
    ii = get_fn(ck, F, "SourceFileAnalyzer::into_interpreter")
    if ii is not None:
        rs = ii.calls_to("Program::reset_runtime_state")
        fp = ii.calls_to("Interpreter::from_program")
        ok = len(rs) == 1 and len(fp) == 1 and ii.dominates(rs[0].bb, fp[0].bb)
        if ok:
            a1, a2 = show(ii.expr(fp[0].args[0])), show(ii.expr(fp[0].args[1]))
            ok = "program" in a1 and "string_manager" in a2
        ck.require(ok, "C15:PIPE:into_interpreter", "same storing pipeline",
                   "into_interpreter resets the runtime state, then hands its own Program and StringManager to from_program",
                   "into_interpreter no longer passes the analyzed program (after a runtime reset) to the interpreter", ii.span)
    rr = F.one("Program::reset_runtime_state")
    sn = F.one("Program::set_numbered_line")
    if rr is not None and sn is not None:
        from props.C11 import holders
        hs = holders(F) or []
        k_load = {p[0][1] for (k, p) in E.info[rr.path].kills if k == 0 and len(p) == 1}
        k_type = {p[0][1] for (k, p) in E.info[sn.path].kills if k == 0 and len(p) == 1}
        missing = [h for h in hs if h in k_type and h not in k_load]
        ck.require(not missing and bool(hs), "C15:PIPE:same-runtime-reset", "same storing pipeline",
                   "reset_runtime_state (file path) leaves fresh everything that entering a line (prompt path) leaves fresh",
                   "after loading a file Program.%s still holds what static analysis left there, whereas typing the lines resets it: "
                   "e.g. functions defined during analysis are already defined when the loaded program starts" % missing, rr.span)
    if run_ is not None and rr is not None:
        # static analysis runs on the very Program that is handed to the interpreter: whatever it may write there must be
        # reset by into_interpreter's reset_runtime_state, be the line store itself, or be a counter that is provably given
        # back on every path (errors included)
        import panics
        AN = "abasic_core::analyzer::source_file_analyzer::SourceFileAnalyzer"
        written = set()
        for (k, p) in E.info[run_.path].writes:
            if k == 0 and len(p) >= 2 and p[0] == (AN, "program") and p[1][0] == "abasic_core::program::Program":
                written.add(p[1][1])
        k_load = {p[0][1] for (k, p) in E.info[rr.path].kills if k == 0 and len(p) == 1}
        balanced = set(panics.balanced_counter_fields(F))
        # the cursor (location, immediate_line) is re-initialised by every host call before anything reads it:
        # evaluate_impl begins with set_and_goto_immediate_line, which assigns both unconditionally
        cursor = set()
        evi = F.one("Interpreter::evaluate_impl")
        sgi = F.one("Program::set_and_goto_immediate_line")
        if evi is not None and sgi is not None:
            cands = [c for c in evi.calls() if c.is_local and not c.callee.endswith("PartialEq>::eq")]
            firsts = [c for c in cands if all(evi.dominates(c.bb, o.bb) for o in cands)]
            if firsts and firsts[0].callee == sgi.path:
                pd = sgi.postdominators().get(0, set()) | {0}
                for (b2, i2, pl2, rv2, sp2) in sgi.assigns():
                    fs2 = [p_ for p_ in pl2["proj"] if p_["k"] == "field"]
                    if b2 in pd and fs2 and len(fs2) == 1 and fs2[0].get("name") in ("location", "immediate_line"):
                        cursor.add(fs2[0]["name"])
        left = sorted(written - k_load - balanced - {"numbered_lines"} - cursor)
        ck.note("C15.analysis_writes_program_fields", sorted(written))
        ck.require(bool(written) and not left, "C15:PIPE:analysis-leaves-nothing-behind", "same storing pipeline",
                   "of the Program fields analysis may write (%s), all but the line store are reset by reset_runtime_state or are "
                   "balanced counters" % ", ".join(sorted(written)),
                   "static analysis can leave Program.%s modified in the program handed to the interpreter (not reset by "
                   "reset_runtime_state, not a balanced counter): a loaded program starts in a different state from a typed one" % left,
                   rr.span)
    fpb = get_fn(ck, F, "Interpreter::from_program")
    if fpb is not None:
        ok = False
        for b, i, pl, rv, sp in aggregates(fpb, "interpreter::Interpreter"):
            names = rv.get("fields", [])
            if "program" in names and "string_manager" in names:
                pe = strip_expr(fpb.expr(rv["ops"][names.index("program")]))
                se = strip_expr(fpb.expr(rv["ops"][names.index("string_manager")]))
                if pe == ("param", 0) and se == ("param", 1):
                    ok = True
        if not ok:
            # default-then-assign: `let mut i = Interpreter::default(); i.program = program; i.string_manager = string_manager; i`
            got_ = {}
            for b, i, pl, rv, sp in fpb.assigns():
                fs = [p for p in pl["proj"] if p["k"] == "field"]
                if len(fs) == 1 and fs[0].get("adt", "").endswith("interpreter::Interpreter") and fs[0].get("name") in ("program", "string_manager"):
                    got_[fs[0]["name"]] = strip_expr(fpb.rv_expr(rv))
            ok = got_.get("program") == ("param", 0) and got_.get("string_manager") == ("param", 1)
        ck.require(ok, "C15:PIPE:from_program", "same storing pipeline", "from_program installs exactly the given program and strings",
                   "Interpreter::from_program no longer installs the given program", fpb.span)

    # ---- (1b) every file load runs the analyzer first (also with --skip-check), so "loading equals typing" needs the
    # analyzer's line bookkeeping to be total on every well-formed file, including files that redefine a line number:
    # INV-MAP (the source map names, for each stored BASIC line, the file line whose tokens are stored)
    common.map_rule(ck, F, E, P)

    # ---- (2)+(3) CLI
    # `abasic FILE`: the file is loaded and then run -- run_impl calls load_source_file when a file name was given, and queues RUN
    ri0 = F.one("StdioInterpreter::run_impl", "abasic")
    if ri0 is not None:
        from lib import controlling_switches
        lc = ri0.calls_to("StdioInterpreter::load_source_file")
        guarded = [c for c in lc if any("source_filename" in show(subj) and names and "Some" in names.values()
                                          for (sb, subj, names) in controlling_switches(ri0, c.bb))]
        has_run = any(st["k"] == "assign" and "RUN" in json_str(st) for blk in ri0.blocks for st in blk["stmts"]) or \
            any("RUN" in json_str(blk.get("term")) for blk in ri0.blocks)
        ck.require(bool(guarded) and has_run, "C15:CLI:file-is-loaded-and-run", "R-CONFIG",
                   "run_impl loads the named file (when one was given) and queues RUN",
                   "StdioInterpreter::run_impl no longer loads the file named on the command line and runs it: `abasic FILE` does "
                   "not execute FILE's program at all", ri0.span)
    ls = F.one("StdioInterpreter::load_source_file", "abasic")
    if ls is None:
        ck.missing("C15:CLI:load_source_file", "abasic::stdio_interpreter::StdioInterpreter::load_source_file")
    else:
        asg = interp_assignments(ls)
        ck.require(len(asg) == 1, "C15:CLI:load-assign", "static check is read-only", "one assignment of the loaded interpreter",
                   "load_source_file assigns self.interpreter %d times" % len(asg), ls.span)
        # taken before, and independently of, the skip_check branch
        sk_sw = None
        for b in sorted(ls.reachable()):
            t = ls.term(b)
            if t["k"] == "switch" and "skip_check" in show(ls.expr(t["discr"])):
                sk_sw = b
        ok = sk_sw is not None and all(ls.dominates(a[0], sk_sw) for a in asg)
        ck.require(ok, "C15:CLI:assign-before-skip-check", "static check is read-only",
                   "the interpreter is installed before the --skip-check branch", "whether the static check runs now changes which "
                   "interpreter is used", ls.span)
    n_sites = 0
    via = set()
    for b in F.bodies.values():
        if b.crate != "abasic":
            continue
        for (bb, rv, sp) in interp_assignments(b) + interp_aggregate_inits(b):
            n_sites += 1
            e = b.rv_expr(rv) if isinstance(rv, dict) and "k" in rv else rv
            calls = [x[1] for x in expr_calls(e)] if isinstance(e, tuple) else []
            configured = any(sfx(c, "CliArgs::create_interpreter") for c in calls)
            how = "value comes from CliArgs::create_interpreter"
            if not configured:
                # followed on all paths by configure / writes of enable_* from args
                pd = b.postdominators().get(bb, set())
                for c in b.calls():
                    if c.bb in pd and c.bb != bb or (c.bb == bb):
                        if sfx(c.callee, "CliArgs::configure_interpreter") and "interpreter" in show(b.expr(c.args[1])):
                            configured = True
                            how = "followed on every path by CliArgs::configure_interpreter(&mut self.interpreter)"
                if not configured:
                    w = set()
                    for b2, i2, pl2, rv2, sp2 in b.assigns():
                        if b2 in pd:
                            fs = [p for p in pl2["proj"] if p["k"] == "field"]
                            if fs and fs[-1].get("name") in ("enable_warnings", "enable_tracing") and "args" in show(b.rv_expr(rv2)):
                                w.add(fs[-1]["name"])
                    if w == {"enable_warnings", "enable_tracing"}:
                        configured = True
                        how = "followed on every path by writes of enable_warnings / enable_tracing from the arguments"
            via.add("create" if "create_interpreter" in how else "configure")
            fn = b.path.split("::")[-1]
            ck.require(configured, "C15:CONFIG:StdioInterpreter::%s" % fn, "R-CONFIG", how,
                       "%s installs an interpreter that never receives the command-line options: `abasic -w -t FILE` behaves "
                       "like `abasic FILE`" % b.path, sp)
    ck.floor("C15.sites installing the CLI's interpreter", n_sites, 2)
    ca = F.one("CliArgs::create_interpreter", "abasic")
    cf = F.one("CliArgs::configure_interpreter", "abasic") or ca
    if cf is not None:
        w = set()
        for b2, i2, pl2, rv2, sp2 in cf.assigns():
            fs = [p for p in pl2["proj"] if p["k"] == "field"]
            if fs and fs[-1].get("name") in ("enable_warnings", "enable_tracing"):
                src = show(cf.rv_expr(rv2))
                if (fs[-1]["name"] == "enable_warnings" and "warnings" in src) or (fs[-1]["name"] == "enable_tracing" and "tracing" in src):
                    w.add(fs[-1]["name"])
        ck.require(w == {"enable_warnings", "enable_tracing"}, "C15:CONFIG:options-applied", "R-CONFIG",
                   "warnings -> enable_warnings, tracing -> enable_tracing", "the options are applied as %s" % sorted(w), cf.span)
    # create_interpreter is what the interactive / piped session gets its interpreter from: it must apply the options itself
    if ca is not None and F.one("CliArgs::configure_interpreter", "abasic") is not None:
        pd = ca.postdominators().get(0, set()) | {0}
        cs = [c for c in ca.calls() if sfx(c.callee, "CliArgs::configure_interpreter") and c.bb in pd]
        direct = set()
        for b2, i2, pl2, rv2, sp2 in ca.assigns():
            fs = [p for p in pl2["proj"] if p["k"] == "field"]
            if fs and fs[-1].get("name") in ("enable_warnings", "enable_tracing") and b2 in pd:
                direct.add(fs[-1]["name"])
        ck.require(bool(cs) or direct == {"enable_warnings", "enable_tracing"}, "C15:CONFIG:create-configures", "R-CONFIG",
                   "create_interpreter passes the new interpreter through configure_interpreter on every path",
                   "CliArgs::create_interpreter no longer applies the command-line options to the interpreter it builds: the "
                   "interactive / piped session ignores -w and -t while `abasic FILE` (configured separately) honours them", ca.span)
    # the lines of a file are what a user would type: SourceFileAnalyzer::analyze cuts the text at '\n' and hands the pieces on as
    # they are (trailing blanks matter inside REM text and an unclosed DATA string)
    az = F.one("SourceFileAnalyzer::analyze")
    if az is not None:
        from lib import with_closures
        rew = sorted({c.callee.split("::")[-1] for b in with_closures(F, az) for c in b.calls()
                      if c.callee.split("::")[-1] in ("replace", "replacen", "trim", "trim_end", "trim_start", "trim_matches", "trim_end_matches", "trim_start_matches", "to_uppercase", "to_lowercase", "to_ascii_uppercase", "to_ascii_lowercase", "retain", "strip_suffix", "strip_prefix", "split_whitespace", "truncate", "drain", "remove", "pop", "chars", "char_indices", "bytes")
                      and ("<impl str>" in c.callee or "String" in c.callee)})
        ck.require(not rew, "C15:PIPE:file-lines-verbatim", "R-PIPE", "analyze() hands each '\\n'-separated piece on unchanged",
                   "SourceFileAnalyzer::analyze rewrites the file's lines before analysing them (%s): the loaded program differs from "
                   "the typed-in one wherever that text matters (REM text, unclosed DATA strings)" % ", ".join(rew), az.span)
    # "with or without the static check": `abasic FILE` refuses to run a file the checker objects to, so the checker must not
    # object to operand kinds the interpreter accepts (NOT of a string, comparisons of strings, ..): C06's kind tables,
    # filed under this property as well
    import framework
    from props import C06
    C06.kinds(framework.Rekeyed(ck, "C06", "C15:CHECK"), F, E)
    # ... and not stricter than the interpreter about DEF bodies either: the interpreter returns whatever the body yields, so a
    # checker that insists on the kind the function's NAME suggests refuses programs that run (`DEF FNY$(A$) = A$ = "Y"`)
    da = F.bodies.get("abasic_core::analyzer::statement_analyzer::StatementAnalyzer::evaluate_def_statement")
    if da is not None:
        body_checked = False
        for x in da.calls():
            if (sfx(x.callee, "ValueType::check_variable_name") or sfx(x.callee, "ValueType::check")) and \
                    "evaluate_expression" in show(da.expr(x.args[0], depth=20)):
                body_checked = True
        ck.require(not body_checked, "C15:CHECK:def-body-not-stricter-than-the-interpreter", "R-PIPE",
                   "the analyzer does not reject a DEF whose body's kind differs from its name's",
                   "the analyzer checks a DEF body against the kind its name suggests, which the interpreter never does: `abasic FILE` "
                   "refuses a program that runs when typed in", da.span)
    # the generator's seed is part of what both modes share: if some interpreter is set up through configure_interpreter alone
    # (the one a loaded file yields), every randomize() of the CLI must sit in configure_interpreter too -- seeding only the
    # interpreters that create_interpreter builds makes `abasic FILE` draw a different RND sequence than the piped session
    rz_homes = sorted({b.path.split("::")[-1] for b in F.bodies.values() if b.crate == "abasic"
                       for c in b.calls() if c.callee.endswith("Interpreter::randomize")})
    if "configure" in via and F.one("CliArgs::configure_interpreter", "abasic") is not None:
        ck.require(all(h == "configure_interpreter" for h in rz_homes), "C15:CONFIG:seeding-shared", "R-CONFIG",
                   "randomize() is called from %s only" % (rz_homes or "nowhere"),
                   "the CLI seeds the generator in %s, but the interpreter of a loaded file is set up through configure_interpreter "
                   "alone: file mode and the piped session start from different generator states" % rz_homes)
    # ---- (3b) both modes show everything the program printed: the CLI's line buffer is empty at every successful exit
    cli_flush_rule(ck, F)

    # ---- (4) page
    path = os.path.join(extract.repo_dir(), "abasic-web", "ts", "main.ts")
    if os.path.exists(path):
        calls, methods, problems = tsscan.scan(path)
        la = [c for c in calls if c.fn == "loadAndRunSourceCode" and c.method == "start_evaluating"]
        ck.require(len(la) >= 2 and not problems, "C15:PAGE:loader-uses-prompt-path", "page loader (TS scan)",
                   "loadAndRunSourceCode submits each line, then RUN, through start_evaluating",
                   "the page no longer loads programs through start_evaluating")
    else:
        ck.missing("C15:PAGE:file", "abasic-web/ts/main.ts")


def interp_assignments(body):
    out = []
    for b, i, pl, rv, sp in body.assigns():
        fs = [p for p in pl["proj"] if p["k"] == "field"]
        if fs and fs[-1].get("name") == "interpreter" and fs[-1].get("adt", "").endswith("StdioInterpreter"):
            out.append((b, rv, sp))
    return out


def interp_aggregate_inits(body):
    out = []
    for b, i, pl, rv, sp in aggregates(body, "stdio_interpreter::StdioInterpreter"):
        names = rv.get("fields", [])
        if "interpreter" in names:
            out.append((b, body.expr(rv["ops"][names.index("interpreter")]), sp))
    return out


DIRTY_PRIMS = ("StdioPrinter::print",)
CLEAN_PRIMS = ("StdioPrinter::print_buffered_output", "StdioPrinter::pop_buffered_output", "StdioPrinter::eprintln")


def _buffer_summaries(F):
    """Per function of the CLI crate: (state after the call if the line buffer was clean before, ... if dirty),
    where dirty = StdioPrinter.line_buffer may hold unprinted program output.  Forward may-analysis, fixpoint."""
    fns = {p: b for p, b in F.bodies.items() if b.crate == "abasic"}
    summ = {p: (False, False) for p in fns}      # optimistic start (clean), grows monotonically to dirty

    def transfer(callee, st):
        if any(sfx(callee, x) for x in CLEAN_PRIMS):
            return False
        if any(sfx(callee, x) for x in DIRTY_PRIMS):
            return True
        if callee in summ and not callee.startswith("abasic::stdio_printer::"):
            return summ[callee][1] if st else summ[callee][0]
        return st

    def flow(body, init):
        st_in = {0: init}
        work = [0]
        out_ret = False
        seen_ret = False
        while work:
            b = work.pop()
            st = st_in[b]
            c = body.call_at(b)
            if c is not None:
                st = transfer(c.callee, st)
            t = body.term(b)
            if t["k"] == "return":
                out_ret = out_ret or st
                seen_ret = True
            for s2 in body.succs(b):
                new = st_in.get(s2)
                if new is None or (st and not new):
                    st_in[s2] = st or bool(new)
                    work.append(s2)
        return out_ret, st_in

    changed = True
    rounds = 0
    while changed and rounds < 30:
        changed = False
        rounds += 1
        for p, b in fns.items():
            if p.startswith("abasic::stdio_printer::"):
                continue
            new = (flow(b, False)[0], flow(b, True)[0])
            if new != summ[p]:
                summ[p] = new
                changed = True
    return summ, flow, transfer


def json_str(x):
    import json as _j
    try:
        return _j.dumps(x)
    except Exception:
        return str(x)


def printer_contracts(ck, F):
    """The flush analysis below trusts three StdioPrinter methods to leave the line buffer empty with its content written, by
    name.  Their bodies are held to that here: flush_line_buffer writes the buffer to stdout and clears it; print_buffered_output
    reaches flush_line_buffer on every path on which the buffer was not empty; pop_buffered_output moves the buffer out;
    eprintln passes print_buffered_output on every path."""
    from lib import path_records
    P = "StdioPrinter::"
    fl = F.one(P + "flush_line_buffer", "abasic")
    if fl is not None:
        names = [c.callee.split("::")[-1] for c in fl.calls()]
        wr = [c for c in fl.calls() if c.callee.split("::")[-1] in ("write", "write_all") and "line_buffer" in show(fl.expr(c.args[1], depth=20))]
        cl = [c for c in fl.calls() if c.callee.split("::")[-1] in ("clear", "take", "replace") and "line_buffer" in show(fl.expr(c.args[0], depth=20))]
        pd = fl.postdominators().get(0, set()) | {0}
        ok = bool(wr) and bool(cl) and all(c.bb in pd for c in wr + cl) and all(fl.dominates(w.bb, c.bb) for w in wr for c in cl)
        ck.require(ok, "C15:CLI:printer-contract:flush_line_buffer", "both modes show all output",
                   "flush_line_buffer writes line_buffer to stdout, then clears it, on every path",
                   "StdioPrinter::flush_line_buffer no longer writes the buffer and then empties it on every path (%s)" % names, fl.span)
    pb = F.one(P + "print_buffered_output", "abasic")
    if pb is not None:
        bad = 0
        n = 0
        for r in path_records(pb):
            emp = [d[2] for d in r["decisions"] if any(x[1].split("::")[-1] == "is_empty" for x in expr_calls(d[3]))]
            if emp[:1] == [True]:
                continue
            n += 1
            if not any(c.callee.endswith("flush_line_buffer") or c.callee.split("::")[-1] in ("write", "write_all") for c in r["calls"]):
                bad += 1
        ck.require(n > 0 and bad == 0, "C15:CLI:printer-contract:print_buffered_output", "both modes show all output",
                   "every path of print_buffered_output on which the buffer is not known to be empty flushes it",
                   "StdioPrinter::print_buffered_output can return with a non-empty buffer unwritten (%d of %d paths): the last, "
                   "unterminated line of output is lost at exit in `abasic FILE`" % (bad, n), pb.span)
    pp = F.one(P + "pop_buffered_output", "abasic")
    if pp is not None:
        ok = any(c.callee.split("::")[-1] in ("replace", "take") and "line_buffer" in show(pp.expr(c.args[0], depth=20)) for c in pp.calls())
        ck.require(ok, "C15:CLI:printer-contract:pop_buffered_output", "both modes show all output",
                   "pop_buffered_output moves the buffer out (mem::replace / take)",
                   "StdioPrinter::pop_buffered_output no longer empties the buffer it hands out", pp.span)
    ep = [b for p, b in F.bodies.items() if b.crate == "abasic" and p.startswith("abasic::stdio_printer::StdioPrinter::eprintln")]
    for b in ep:
        pd = b.postdominators().get(0, set()) | {0}
        ok = any(c.callee.endswith("print_buffered_output") and c.bb in pd for c in b.calls())
        ck.require(ok, "C15:CLI:printer-contract:eprintln", "both modes show all output",
                   "eprintln passes print_buffered_output on every path", "StdioPrinter::eprintln no longer flushes the buffered output first",
                   b.span)


def single_stdout_writer(ck, F):
    """What the program prints reaches stdout through one door, StdioPrinter::flush_line_buffer, whatever the mode: a second writer
    (a `print_prompt` used only when a file is run with redirected input) makes the two modes render the same program output
    differently.  The banner / echo `println!`s of the session itself are not program output and live outside the printer."""
    writers = []
    for p, b in sorted(F.bodies.items()):
        if b.crate != "abasic" or "stdio_printer::StdioPrinter" not in p:
            continue
        for c in b.calls():
            nm = c.callee.split("::")[-1]
            if nm in ("write", "write_all", "write_fmt", "_print", "print_to", "flush") and ("Stdout" in c.callee or "io::Write" in c.callee or "stdio" in c.callee):
                rx = show(b.expr(c.args[0], depth=12)) if c.args else ""
                if "stderr" in rx.lower() or "_eprint" in c.callee:
                    continue
                writers.append(p.split("::")[-1])
    extra = sorted(set(w for w in writers if w != "flush_line_buffer"))
    ck.require(bool(writers) and not extra, "C15:CLI:printer-single-stdout-writer", "both modes show all output",
               "StdioPrinter writes to stdout in flush_line_buffer only",
               "StdioPrinter also writes to stdout in %s, next to the line buffer: output that goes through it appears in one mode "
               "and not (or elsewhere) in the other" % ", ".join(extra))


def cli_flush_rule(ck, F):
    printer_contracts(ck, F)
    single_stdout_writer(ck, F)
    ri = F.one("StdioInterpreter::run_impl", "abasic")
    if ri is None:
        ck.missing("C15:CLI:run_impl", "abasic::stdio_interpreter::StdioInterpreter::run_impl")
        return
    summ, flow, transfer = _buffer_summaries(F)
    _, st_in = flow(ri, False)
    oks = []
    for b, i, pl, rv, sp in aggregates(ri, "core::result::Result", "Ok"):
        if pl["local"] == 0 and not pl["proj"]:
            oks.append((b, sp))
    ck.floor("C15.successful exits of the CLI's main loop", len(oks), 2)
    n_print = sum(1 for p, b in F.bodies.items() if b.crate == "abasic" for c in b.calls() if any(sfx(c.callee, x) for x in DIRTY_PRIMS))
    ck.floor("C15.sites writing program output to the CLI's line buffer", n_print, 1)
    for k, (b, sp) in enumerate(sorted(oks, key=lambda x: (x[1].line if x[1] is not None else 0)), 1):
        # state at the block entry, then through the block's own call (the aggregate is a statement, before the terminator)
        dirty = st_in.get(b, False)
        ck.require(not dirty, "C15:CLI:flushed-at-exit#%d" % k, "both modes show all output",
                   "the line buffer is empty (print_buffered_output / pop_buffered_output / eprintln on every path since the last "
                   "StdioPrinter::print) where run_impl returns Ok",
                   "StdioInterpreter::run_impl can return Ok while StdioPrinter.line_buffer still holds program output that was "
                   "never written (a final `PRINT \"X\";` or trace record is lost in `abasic FILE` but shown in a piped session)", sp)
