"""C19 -- the Web adapter is a faithful, trap-free wrapper under the page's protocol.

Rust side: trap sites = C01's set + the adapter's own; latch discipline of latest_error; the transient
NewInterpreterRequested state is never observable; enum/record mappings are the identity on names;
both error arms build the same text.  Page side (A10, syntactic TS scan): every precondition-bearing
adapter call sits under a get_state() guard that implies its precondition.
"""
import os
from lib import (sfx, get_fn, callers_of, strip_expr, strip_refs, show, aggregates, expr_calls, region_aggregates,
                 exclusive_region, switch_arms_on, arm_target)
import panics
import vetted
import tsscan
import extract

LEVEL = "other"
EXPLANATION = (
    "Typestate argument for the adapter on its MIR (who writes latest_error and on which arm, must-pass-through of "
    "maybe_replace_interpreter on every Ok path, identity of the enum mappings by table extraction, sibling "
    "comparison of the two error arms) plus the panic-site inventory from the adapter's user-written methods, and a "
    "structural scan of ts/main.ts that places every start_evaluating / continue_evaluating / provide_input / "
    "take_latest_error call under the state guard that implies the adapter's assertion.  The TS scan is syntactic "
    "(no TypeScript front end is installed); transcript equality with the core is not decided."
)
TRUSTED = ["wasm-bindgen generated glue (excluded by from_expansion)", "ts/main.ts is parsed structurally, not type-checked"]

JSI = "abasic_web::JsInterpreter"


def web_roots(F):
    out = []
    for b in F.bodies.values():
        if b.crate != "abasic_web" or b.span.exp or "__wasm" in b.path or "__wbg" in b.path:
            continue
        if b.kind in ("AssocFn", "Fn") and "::_::" not in b.path and not b.path.startswith("<"):
            out.append(b.path)
    return out


def run(ck, F, E):
    roots = web_roots(F)
    ck.note("web_roots", roots)
    ck.floor("C19.user-written adapter functions", len(roots), 10)
    G, seen, T = panics.panic_freedom(
        ck, F, E, "C19", roots, vetted.ROWS, vetted.INV_DEPENDS,
        protocol_fns=("Interpreter::provide_input", "Interpreter::continue_evaluating", "Interpreter::evaluate_impl",
                      "JsInterpreter::start_evaluating", "JsInterpreter::continue_evaluating"),
        floor_sites=60, skip_fn=lambda p: "__wasm" in p or "__wbg" in p)
    panics.recursion_rule(ck, F, G, seen, "C19")
    latch(ck, F, E)
    transient(ck, F, E)
    mappings(ck, F)
    line_forwarding(ck, F)
    error_arms(ck, F)
    page_side(ck)


def latch(ck, F, E):
    ws = E.writers_of_field("abasic_web::JsInterpreter", "latest_error")
    names = sorted(ws)
    allowed = ("JsInterpreter::start_evaluating", "JsInterpreter::continue_evaluating", "JsInterpreter::take_latest_error")
    from lib import allowed_via_callers
    ck.require(bool(names) and all(allowed_via_callers(F, n, allowed) for n in names), "C19:LATCH:writers", "latch discipline",
               "latest_error is written only by %s" % [n.split("::")[-1] for n in names],
               "latest_error is written in %s" % names)
    for fn in ("JsInterpreter::start_evaluating", "JsInterpreter::continue_evaluating"):
        b = F.one(fn, "abasic_web")
        if b is None:
            ck.missing("C19:LATCH:%s" % fn, fn)
            continue
        b = result_handler(F, b)[0]
        ok = False
        # helpers of the adapter that latch an error on every path (`fn set_latest_error(..) { ..; self.latest_error = Some(..) }`)
        setters = set()
        for hb in F.bodies.values():
            if hb.crate != "abasic_web" or hb.path == b.path:
                continue
            pd = hb.postdominators().get(0, set()) | {0}
            for bb3, i3, pl3, rv3, sp3 in hb.assigns():
                fs3 = [p for p in pl3["proj"] if p["k"] == "field"]
                if fs3 and fs3[-1].get("name") == "latest_error" and bb3 in pd:
                    e3 = hb.rv_expr(rv3)
                    if e3[0] == "agg" and e3[2] == "Some":
                        setters.add(hb.path)
        for (bb, subject, targets, otherwise, names_) in switch_arms_on(b, lambda s, n: n and set(n.values()) == {"Ok", "Err"}):
            et = arm_target(targets, otherwise, names_, "Err")
            ot = arm_target(targets, otherwise, names_, "Ok")
            ereg, oreg = exclusive_region(b, et), exclusive_region(b, ot)
            sets_err = any(c.callee in setters and c.bb in ereg for c in b.calls())
            sets_ok = any(c.callee in setters and c.bb in oreg for c in b.calls())
            for bb2, i, pl, rv, sp in b.assigns():
                fs = [p for p in pl["proj"] if p["k"] == "field"]
                if fs and fs[-1].get("name") == "latest_error":
                    e = b.rv_expr(rv)
                    if bb2 in ereg and e[0] == "agg" and e[2] == "Some":
                        sets_err = True
                    if bb2 in oreg:
                        sets_ok = True
            if sets_err and not sets_ok:
                ok = True
        ck.require(ok, "C19:LATCH:%s" % fn.split("::")[-1], "latch discipline",
                   "latest_error = Some(..) exactly on the Err arm", "%s does not latch the error exactly on its Err arm" % fn, b.span)
    # the entry points assert that no error is latched: the assertion fires on `latest_error.is_some()`, not the other way round
    # (a flipped test traps on every ordinary call and lets the protocol violation through)
    from lib import bool_switch_true_target
    n_assert = 0
    for fn in ("JsInterpreter::start_evaluating", "JsInterpreter::continue_evaluating"):
        b = F.one(fn, "abasic_web")
        if b is None:
            continue
        for c in b.calls():
            nm = c.callee.split("::")[-1]
            if nm not in ("is_none", "is_some") or "latest_error" not in show(b.expr(c.args[0])) or c.target is None:
                continue
            if b.term(c.target)["k"] != "switch":
                continue
            ft = bool_switch_true_target(b, c.target)
            if not ft:
                continue

            def panics(start):
                for x in sorted(b.blocks_reachable_from(start) | {start}):
                    if not b.dominates(start, x):
                        continue
                    cc = b.call_at(x)
                    if cc is not None and "panicking" in cc.callee and cc.target is None:
                        return True
                return False
            pf, pt = panics(ft[0]), panics(ft[1])      # (false target, true target)
            if not (pt or pf):
                continue
            n_assert += 1
            good = (nm == "is_none" and pf and not pt) or (nm == "is_some" and pt and not pf)
            ck.require(good, "C19:LATCH:assert-polarity:%s" % fn.split("::")[-1], "latch discipline",
                       "%s panics exactly when an error is still latched" % fn.split("::")[-1],
                       "%s asserts the opposite of `no error is latched`: it traps whenever the page calls it in the ordinary way "
                       "(latch empty) and carries on when the page forgot to take a latched error" % fn, c.span)
    ck.floor("C19.latch assertions in the adapter's entry points", n_assert, 2)
    tk = F.one("JsInterpreter::take_latest_error", "abasic_web")
    if tk is not None:
        ok = any(c.callee.endswith("Option::take") or (c.callee.endswith("mem::take") and "latest_error" in show(tk.expr(c.args[0])))
                 for c in tk.calls())
        ck.require(ok, "C19:LATCH:take", "latch discipline", "take_latest_error() is Option::take",
                   "take_latest_error no longer clears the latch", tk.span)
    gs = F.one("JsInterpreter::get_state", "abasic_web")
    if gs is not None:
        ok = False
        for c in gs.calls():
            if c.callee.endswith("Option::is_some") and "latest_error" in show(gs.expr(c.args[0])) and c.target is not None:
                t = gs.term(c.target)
                if t["k"] == "switch":
                    tg = {int(v): x for v, x in t["targets"]}
                    true_t = t["otherwise"] if 0 in tg else tg.get(1)
                    aggs = region_aggregates(gs, exclusive_region(gs, true_t))
                    if any(a[1] == "Errored" for a in aggs):
                        others = region_aggregates(gs, exclusive_region(gs, tg.get(0, t["otherwise"])))
                        if not any(a[1] == "Errored" for a in others):
                            ok = True
        if not ok:
            # `match &self.latest_error { Some(_) => Errored, None => .. }`
            for sb in sorted(gs.reachable()):
                info = gs.switch_info(sb)
                if info and info[3] and set(info[3].values()) == {"None", "Some"} and "latest_error" in show(info[0]):
                    st = [info[1].get(v, info[2]) for v, n in info[3].items() if n == "Some"]
                    nt = [info[1].get(v, info[2]) for v, n in info[3].items() if n == "None"]
                    if st and nt and st[0] is not None and nt[0] is not None:
                        if any(a[1] == "Errored" for a in region_aggregates(gs, exclusive_region(gs, st[0]))) and \
                                not any(a[1] == "Errored" for a in region_aggregates(gs, exclusive_region(gs, nt[0]))):
                            ok = True
        ck.require(ok, "C19:LATCH:get_state-errored", "latch discipline", "get_state reports Errored iff latest_error.is_some()",
                   "get_state no longer reports Errored exactly when an error is latched", gs.span)


def result_handler(F, b):
    """The body that looks at the core's Result for entry point `b`: `b` itself, or -- when `b` hands the result of the core
    call to a helper of the adapter on every path (`self.handle_evaluation_result(result, line)`) -- that helper, with the call."""
    if b is None:
        return None, None
    if list(switch_arms_on(b, lambda s_, n: n and set(n.values()) == {"Ok", "Err"})):
        return b, None
    pd = b.postdominators().get(0, set()) | {0}
    for c in b.calls():
        hb = F.bodies.get(c.callee)
        if hb is None or hb.crate != "abasic_web" or c.bb not in pd:
            continue
        for a in c.args:
            if any(x[1].endswith("Interpreter::start_evaluating") or x[1].endswith("Interpreter::continue_evaluating")
                   for x in expr_calls(b.expr(a, depth=20))):
                if list(switch_arms_on(hb, lambda s_, n: n and set(n.values()) == {"Ok", "Err"})):
                    return hb, c
    return b, None


def transient(ck, F, E):
    for fn in ("JsInterpreter::start_evaluating", "JsInterpreter::continue_evaluating"):
        b = F.one(fn, "abasic_web")
        if b is None:
            continue
        b = result_handler(F, b)[0]
        ok = False
        for (bb, subject, targets, otherwise, names_) in switch_arms_on(b, lambda s, n: n and set(n.values()) == {"Ok", "Err"}):
            ot = arm_target(targets, otherwise, names_, "Ok")
            calls = [c for c in b.calls() if sfx(c.callee, "JsInterpreter::maybe_replace_interpreter") and c.bb in exclusive_region(b, ot)]
            if calls:
                rets = [r for r in b.return_blocks() if r in b.blocks_reachable_from(ot)]
                from props.C01 import _reaches_avoiding
                if all(not _reaches_avoiding(b, ot, r, {c.bb for c in calls}) for r in rets):
                    ok = True
        ck.require(ok, "C19:TRANSIENT:%s" % fn.split("::")[-1], "transient state",
                   "every Ok path passes maybe_replace_interpreter before returning",
                   "%s can return Ok without swapping a NEW-requested interpreter: get_state() would hit its panic arm" % fn, b.span)
    mr = F.one("JsInterpreter::maybe_replace_interpreter", "abasic_web")
    if mr is None:
        ck.missing("C19:TRANSIENT:maybe_replace", "JsInterpreter::maybe_replace_interpreter")
    else:
        ok = False
        for bb, i, pl, rv, sp in mr.assigns():
            fs = [p for p in pl["proj"] if p["k"] == "field"]
            if fs and fs[-1].get("name") == "interpreter":
                e = strip_expr(mr.rv_expr(rv))
                if e[0] == "call" and e[1].endswith("Interpreter as core::default::Default>::default"):
                    ok = True
        tested = any("NewInterpreterRequested" in show(mr.expr(a)) for c in mr.calls() if c.callee.endswith("::eq")
                     for a in c.args)
        if not tested:
            # `match self.interpreter.get_state() { NewInterpreterRequested => replace, _ => {} }`
            for sb in sorted(mr.reachable()):
                info = mr.switch_info(sb)
                if info and info[3] and "NewInterpreterRequested" in info[3].values():
                    t_new = [info[1].get(v, info[2]) for v, n in info[3].items() if n == "NewInterpreterRequested"]
                    stores = [bb for bb, i, pl, rv, sp in mr.assigns() if [p for p in pl["proj"] if p["k"] == "field"] and
                              [p for p in pl["proj"] if p["k"] == "field"][-1].get("name") == "interpreter"]
                    if t_new and t_new[0] is not None and stores and all(bb == t_new[0] or mr.dominates(t_new[0], bb) for bb in stores):
                        tested = True
        if not tested:
            # `let requested = matches!(state, NewInterpreterRequested); if requested { replace }`: per feasible path (constants
            # propagated through the flag), the interpreter is replaced exactly when the state's discriminant was the transient one
            from lib import path_records
            try:
                paths = [p for (p, stop) in mr.const_paths(0, set())]
                recs = path_records(mr, paths=paths)
            except OverflowError:
                recs = []
            stores = {bb for bb, i, pl, rv, sp in mr.assigns() if [p for p in pl["proj"] if p["k"] == "field"] and
                      [p for p in pl["proj"] if p["k"] == "field"][-1].get("name") == "interpreter"}
            seen_new = False
            agree = bool(recs)
            for r in recs:
                vs = [d[2] for d in r["decisions"] if "get_state" in d[0] and isinstance(d[2], (str, tuple))]
                is_new = "NewInterpreterRequested" in vs
                seen_new = seen_new or is_new
                if bool(stores & set(r["path"])) != is_new:
                    agree = False
            tested = agree and seen_new
        ck.require(ok and tested, "C19:TRANSIENT:replace-with-default", "transient state",
                   "on NewInterpreterRequested the interpreter is replaced by Interpreter::default()",
                   "maybe_replace_interpreter no longer installs a fresh default interpreter on NEW", mr.span)
    nw = F.one("JsInterpreter::new", "abasic_web")
    if nw is not None:
        ok = any(c.callee.endswith("JsInterpreter as core::default::Default>::default") for c in nw.calls())
        ck.require(ok, "C19:TRANSIENT:new-is-default", "transient state", "JsInterpreter::new() is the derived Default",
                   "JsInterpreter::new no longer builds the default adapter (NEW would differ from new)", nw.span)


def variant_table(body):
    """switch on an enum discriminant -> {variant: [variants of aggregates built in its arm]}"""
    out = {}
    for b in sorted(body.reachable()):
        info = body.switch_info(b)
        if not info or not info[3] or len(info[3]) < 3:
            continue
        subject, targets, otherwise, names = info
        for v, n in names.items():
            t = targets.get(v, otherwise)
            aggs = region_aggregates(body, exclusive_region(body, t))
            out[n] = [a[1] for a in aggs if a[0].startswith("abasic_web::")]
    return out


def mappings(ck, F):
    cv = F.one("convert_interpreter_output_for_js", "abasic_web")
    if cv is None:
        ck.missing("C19:MAP:output", "convert_interpreter_output_for_js")
    else:
        tab = variant_table(cv)
        if not tab:
            # the type table may sit in a helper of the adapter the converter calls (`js_output_type(&value)`) or a From impl
            for c in cv.calls():
                hb = F.bodies.get(c.callee)
                if hb is not None and hb.crate == "abasic_web":
                    t2 = variant_table(hb)
                    if len(t2) >= 3:
                        tab = t2
        want = F.adt("interpreter_output::InterpreterOutput")
        names = [v["name"] for v in want["variants"]] if want else []
        ck.floor("C19.output record variants", len(names), 6)
        for n in names:
            ck.require(tab.get(n) == [n], "C19:MAP:output:%s" % n, "faithful mapping", "%s -> %s" % (n, n),
                       "InterpreterOutput::%s is mapped to %s" % (n, tab.get(n)), cv.span)
        ok = any(c.callee.endswith("ToString>::to_string") for c in cv.calls())
        ck.require(ok, "C19:MAP:output:text", "faithful mapping", "record text is InterpreterOutput::to_string()",
                   "the record text is no longer the core's Display text", cv.span)
    gs = F.one("JsInterpreter::get_state", "abasic_web")
    if gs is not None:
        tab = variant_table(gs)
        for n in ("Idle", "Running", "AwaitingInput"):
            ck.require(tab.get(n) == [n], "C19:MAP:state:%s" % n, "faithful mapping", "%s -> %s" % (n, n),
                       "InterpreterState::%s is reported as %s" % (n, tab.get(n)), gs.span)
    tl = F.one("JsInterpreter::take_latest_output", "abasic_web")
    if tl is not None:
        names = [c.callee.split("::")[-1] for c in tl.calls()]
        ok = "take_output" in names and not any(n in ("rev", "sort", "sort_by", "filter", "skip", "take_while", "dedup") for n in names)
        ck.require(ok, "C19:MAP:order", "faithful mapping", "take_latest_output maps take_output() in order, unfiltered",
                   "take_latest_output reorders or filters the core's output (%s)" % names, tl.span)
    for fn, core in (("randomize", "Interpreter::randomize"), ("provide_input", "Interpreter::provide_input"),
                     ("break_at_current_location", "Interpreter::break_at_current_location")):
        b = F.one("JsInterpreter::" + fn, "abasic_web")
        if b is None:
            ck.missing("C19:FORWARD:%s" % fn, "JsInterpreter::" + fn)
            continue
        cs = b.calls_to(core)
        ok = len(cs) == 1 and all(strip_expr(b.expr(a)) == ("param", i) or i == 0 for i, a in enumerate(cs[0].args))
        ck.require(ok, "C19:FORWARD:%s" % fn, "faithful mapping", "%s forwards its arguments unchanged" % fn,
                   "JsInterpreter::%s no longer forwards to the core unchanged" % fn, b.span)
        if len(cs) == 1:
            # ... and on every path that returns: an adapter that swallows the call in some states no longer exposes what
            # the core produces for the same calls (a break while INPUT is awaited gives BREAK and Idle in the core)
            pd = b.postdominators()
            always = cs[0].bb == 0 or cs[0].bb in pd.get(0, set())
            ck.require(always, "C19:FORWARD:%s:unconditional" % fn, "faithful mapping",
                       "every returning path of %s passes the call of the core" % fn,
                       "JsInterpreter::%s forwards to the core only on some paths: for the states it filters out, the adapter's state "
                       "and output differ from what the core produces for the same call" % fn, cs[0].span)


def line_forwarding(ck, F):
    """start_evaluating hands the core exactly the submitted line, and shows the caret against that same line."""
    from lib import expr_calls, expr_params
    b = F.one("JsInterpreter::start_evaluating", "abasic_web")
    if b is None:
        ck.missing("C19:FORWARD:start_evaluating", "JsInterpreter::start_evaluating")
        return
    cs = b.calls_to("Interpreter::start_evaluating")
    ok = len(cs) == 1
    why = "%d calls of the core's start_evaluating" % len(cs)
    if ok:
        e = b.expr(cs[0].args[1])
        foreign = [x[1].split("::")[-1] for x in expr_calls(e) if x[1].split("::")[-1] not in ("as_ref", "deref", "as_str", "borrow")]
        ok = not foreign and expr_params(e) == {1}
        why = "line argument is derived through %s from parameters %s" % (foreign, sorted(expr_params(e)))
    ck.require(ok, "C19:FORWARD:start_evaluating", "faithful mapping", "the submitted line reaches the core unchanged",
               "JsInterpreter::start_evaluating does not pass the submitted line to the core as given (%s): lines whose "
               "exact text matters (REM / string / DATA text, trailing characters the core rejects) behave differently "
               "from the core" % why, b.span)
    from lib import calls_through
    gl = calls_through(F, b, "get_line_with_pointer_caret")
    ok2 = bool(gl)
    if not gl:
        # the caret lines are built in the shared result handler: its `line` parameter is what start_evaluating passes
        hb, hc = result_handler(F, b)
        if hc is not None:
            ok2 = False
            for c in hb.calls():
                if c.callee.endswith("get_line_with_pointer_caret") and len(c.args) > 2:
                    pe = strip_expr(hb.expr(c.args[2]))
                    if pe[0] == "param" and pe[1] < len(hc.args):
                        e = b.expr(hc.args[pe[1]])
                        foreign = [x[1].split("::")[-1] for x in expr_calls(e) if x[1].split("::")[-1] not in ("as_ref", "deref", "as_str", "borrow", "clone")]
                        ok2 = not foreign and expr_params(e) == {1}
    for c in gl:
        if len(c.args) < 3 or c.args[2] is None:
            ok2 = False
            continue
        e = b.expr(c.args[2])
        foreign = [x[1].split("::")[-1] for x in expr_calls(e) if x[1].split("::")[-1] not in ("as_ref", "deref", "as_str", "borrow", "clone")]
        if foreign or expr_params(e) != {1}:
            ok2 = False
    ck.require(ok2, "C19:FORWARD:caret-line", "faithful mapping", "the caret lines are computed against the submitted line",
               "the source line handed to get_line_with_pointer_caret is not the submitted line", b.span)


def error_arms(ck, F):
    sigs = {}
    for fn in ("JsInterpreter::start_evaluating", "JsInterpreter::continue_evaluating"):
        b = F.one(fn, "abasic_web")
        if b is None:
            continue
        b = result_handler(F, b)[0]
        for (bb, subject, targets, otherwise, names_) in switch_arms_on(b, lambda s, n: n and set(n.values()) == {"Ok", "Err"}):
            et = arm_target(targets, otherwise, names_, "Err")
            reg = exclusive_region(b, et)
            from lib import deep_calls
            names = []
            for c in b.calls():
                if c.bb not in reg:
                    continue
                names.append(c.callee.split("::")[-1])
                hb = F.bodies.get(c.callee)
                if hb is not None and hb.crate == "abasic_web":      # an adapter helper called on the error arm: look inside
                    names += [c2.callee.split("::")[-1] for (_o, c2) in deep_calls(F, hb, lambda p: p in F.bodies and F.bodies[p].crate == "abasic_web")]
            sigs[fn] = [n for n in names if n in ("to_string", "get_line_with_pointer_caret", "join", "extend")]
    a = sigs.get("JsInterpreter::start_evaluating")
    c = sigs.get("JsInterpreter::continue_evaluating")
    ok = a is not None and c is not None and "get_line_with_pointer_caret" in a and "get_line_with_pointer_caret" in c \
        and "to_string" in a and "to_string" in c
    b = F.one("JsInterpreter::continue_evaluating", "abasic_web")
    ck.require(ok, "C19:ERRTEXT:JsInterpreter::continue_evaluating", "sibling error arms",
               "both error arms build message + get_line_with_pointer_caret lines (%s / %s)" % (a, c),
               "the two evaluating methods build their error text differently (start: %s, continue: %s): run-time "
               "errors lose the source line and caret the core produces" % (a, c), b.span if b else None)


def page_side(ck):
    path = os.path.join(extract.repo_dir(), "abasic-web", "ts", "main.ts")
    if not os.path.exists(path):
        ck.missing("C19:TS:file", "abasic-web/ts/main.ts")
        return
    calls, methods, problems = tsscan.scan(path)
    ck.require(not problems, "C19:TS:parsed", "page protocol (TS scan)", "class Interpreter parsed (%d methods)" % len(methods),
               "the structural scan could not parse ts/main.ts: %s -- every adapter call counts as unguarded" % problems)
    need = [c for c in calls if c.method in tsscan.REQUIRES]
    ck.floor("C19.precondition-bearing adapter calls in main.ts", len(need), 5)
    seen = {}
    for c in need:
        n = seen.get((c.fn, c.method), 0) + 1
        seen[(c.fn, c.method)] = n
        key = "C19:TS:%s:%s:unguarded" % (c.fn, c.method) + ("" if n == 1 else "#%d" % n)
        ok, how = tsscan.guard_ok(c, methods, calls)
        ck.require(ok, key, "page protocol (TS scan)", "impl.%s in %s(): %s" % (c.method, c.fn, how),
                   "impl.%s() in %s() (main.ts:%d) is not under the state guard that implies the adapter's precondition: %s. "
                   "If the previous call latched an error (or the interpreter is not idle) the adapter's assertion traps"
                   % (c.method, c.fn, c.line, how), "abasic-web/ts/main.ts:%d" % c.line)
    # Errored is handled by taking the error first
    ok = any(c.method == "take_latest_error" for c in calls)
    ck.require(ok, "C19:TS:errored-takes-error", "page protocol (TS scan)", "the Errored state is cleared with take_latest_error()",
               "main.ts never calls take_latest_error(): the latch is never cleared")
    # the page loads programs through the prompt path (shared with C15)
    la = [c for c in calls if c.fn == "loadAndRunSourceCode" and c.method == "start_evaluating"]
    ck.require(len(la) >= 2, "C19:TS:loader-uses-prompt-path", "page protocol (TS scan)",
               "loadAndRunSourceCode submits lines and RUN through start_evaluating",
               "loadAndRunSourceCode no longer loads programs through start_evaluating")


def run_thorough(ck, F, E):
    import clippy_xref
    clippy_xref.cross_reference(ck, F, "C19", package="abasic-web", crate="abasic_web")
