"""C02 -- expressions evaluate per the language's precedence, associativity and typing.

Decided by extraction from the MIR and comparison with the rule list of the property:
 1. grammar: one left-folding loop per binary tier, in the stated precedence order; a single optional
    prefix operator; parentheses transparent
 2. operator tables: token -> operator, operator -> machine operation with operand order
 3. typing table: operator x operand kinds -> Ok / TYPE MISMATCH; DIVISION BY ZERO guard
 4. truthiness and the 1/0 encoding of booleans
 5. ABS / INT / PRINT number formatting
"""
from lib import (sfx, get_fn, strip_expr, strip_refs, show, aggregates, expr_calls, expr_params, path_records,
                 bool_switch_true_target, exclusive_region, region_aggregates)
import grammar
import tables

LEVEL = "other"
EXPLANATION = (
    "Conformance of the extracted grammar and operator tables to the specification in the property: for each of the six "
    "binary tiers the MIR skeleton must be `first := next(); loop { accept op; rhs := next(); acc := combine(acc, rhs) }` "
    "with the stated operator set and the next tighter tier as operand (left association = a loop, not a self call); the "
    "token->operator tables, the operator->operation tables (resolved trait methods, operand order left,right) and the "
    "operand-kind truth tables are enumerated by path analysis over enum discriminants.  IEEE-754 results of + - * / powf, "
    "str ordering and f64 Display are std semantics (trusted): the check shows the evaluator is the specified fold, not that "
    "a sampled expression prints a given value."
)
TRUSTED = ["f64 arithmetic / powf / Display, str comparison (std)"]

EV = "ExpressionEvaluator::"
TIERS = [
    # fn, operator acceptance, next tighter tier, combiner
    ("evaluate_logical_or_expression", ("accept_next_token", "Or"), "evaluate_logical_and_expression", "operators::evaluate_logical_or"),
    ("evaluate_logical_and_expression", ("accept_next_token", "And"), "evaluate_equality_expression", "operators::evaluate_logical_and"),
    ("evaluate_equality_expression", ("try_next_token", "EqualityOp::from_token"), "evaluate_plus_or_minus_expression", "EqualityOp::evaluate"),
    ("evaluate_plus_or_minus_expression", ("try_next_token", "AddOrSubtractOp::from_token"), "evaluate_multiply_or_divide_expression", "AddOrSubtractOp::evaluate"),
    ("evaluate_multiply_or_divide_expression", ("try_next_token", "MultiplyOrDivideOp::from_token"), "evaluate_exponent_expression", "MultiplyOrDivideOp::evaluate"),
    ("evaluate_exponent_expression", ("accept_next_token", "Caret"), "evaluate_unary_operator", "operators::evaluate_exponent"),
]
FROM_TOKEN = {
    "operators::AddOrSubtractOp": {"Plus": "Add", "Minus": "Subtract"},
    "operators::MultiplyOrDivideOp": {"Multiply": "Multiply", "Divide": "Divide"},
    "operators::EqualityOp": {"Equals": "EqualTo", "NotEquals": "NotEqualTo", "LessThan": "LessThan",
                              "LessThanOrEqualTo": "LessThanOrEqualTo", "GreaterThan": "GreaterThan",
                              "GreaterThanOrEqualTo": "GreaterThanOrEqualTo"},
    "operators::UnaryOp": {"Plus": "Positive", "Minus": "Negative", "Not": "Not"},
}


def run(ck, F, E):
    grammar_rules(ck, F)
    # "ABS and INT are absolute value and floor" whatever the program has defined: a called name is looked up among the builtins
    # before the user's DEF table (C06's resolution rule, filed under this property too)
    import framework
    from props import C06
    C06.resolution_order(framework.Rekeyed(ck, "C06", "C02:BUILTIN"), F)
    for enum, want in FROM_TOKEN.items():
        got = tables.from_token_table(F, enum)
        ck.require(got == want, "C02:TOKEN-TABLE:%s" % enum.split("::")[-1], "operator tables",
                   "%s::from_token = %s" % (enum.split("::")[-1], want),
                   "%s::from_token maps %s, the language says %s" % (enum, got, want))
    arith_op(ck, F, "operators::AddOrSubtractOp", {"Add": "add", "Subtract": "sub"})
    arith_op(ck, F, "operators::MultiplyOrDivideOp", {"Multiply": "mul", "Divide": "div"})
    equality(ck, F)
    exponent(ck, F)
    unary(ck, F)
    logical(ck, F)
    truthiness(ck, F)
    builtins(ck, F)
    print_format(ck, F)


# ---------------------------------------------------------------------------------- grammar

    # ---- the value of an expression does not depend on what was evaluated before: the only state the evaluator keeps
    # between expressions is the depth counter, and that is returned to its starting value on every path (errors included)
    import panics
    counters = panics.counter_guard_fns(F)
    balanced = panics.balanced_counter_fields(F)
    for g, (field, limit, leaves) in sorted(counters.items()):
        ck.require(field in balanced, "C02:DEPTH:%s:balanced" % field, "history independence",
                   balanced.get(field, ""), "the depth counter Program.%s (guard %s) is not given back on every path of its users: "
                   "after enough failed evaluations a well-formed expression reports OUT OF MEMORY instead of its value" % (field, g))


def grammar_rules(ck, F):
    top = get_fn(ck, F, EV + "evaluate_expression")
    if top is not None:
        sk = grammar.skeleton(top)
        ck.require(sk == [("call", TIERS[0][0], False)], "C02:GRAMMAR:entry", "grammar",
                   "evaluate_expression = %s" % TIERS[0][0], "evaluate_expression no longer starts at the OR tier: %s" % sk, top.span)
    for (fn, op, nxt, comb) in TIERS:
        b = get_fn(ck, F, EV + fn)
        if b is None:
            continue
        s = grammar.tier_summary(b)
        K = "C02:GRAMMAR:%s" % fn
        ck.require(s["first"] == nxt and s["loop_operand"] == nxt, K + ":operands", "grammar",
                   "both operands are parsed by the next tighter tier %s" % nxt,
                   "%s parses its operands with %s / %s instead of %s: precedence order changed" % (fn, s["first"], s["loop_operand"], nxt), b.span)
        ck.require(s["loop_op"] == op, K + ":operator", "grammar", "repeats while %s(%s)" % op,
                   "%s repeats on %s instead of %s" % (fn, s["loop_op"], op), b.span)
        ck.require(not s["self_call"] and s["loop_op"] is not None, K + ":left-assoc", "grammar",
                   "repetition is a loop in the same function (groups left to right)",
                   "%s recurses into itself (right association) or has no loop" % fn, b.span)
        ck.require(s["combiner"] == comb and s["left_is_acc"] and s["right_is_fresh"] and s["result_to_acc"], K + ":fold", "grammar",
                   "acc = %s(acc, rhs)" % comb,
                   "%s does not fold as acc = %s(acc, rhs): combiner=%s left_is_acc=%s right_is_fresh=%s result_to_acc=%s"
                   % (fn, comb, s["combiner"], s["left_is_acc"], s["right_is_fresh"], s["result_to_acc"]), b.span)
        sk = [x for x in s["skeleton"]]
        ck.require(len(sk) == 3, K + ":shape", "grammar", "skeleton is first; loop(op; rhs)",
                   "%s consumes tokens beyond `first (op rhs)*`: %s" % (fn, sk), b.span, nontrivial=False)
    un = get_fn(ck, F, EV + "evaluate_unary_operator")
    if un is not None:
        # the operand grammar `( expr ) | term` may be its own function or written out in place: compare with it expanded
        sk = grammar.skeleton(un, F=F, inline=lambda p: p.endswith("::evaluate_parenthesized_expression"))
        want = [("try_next_token", "UnaryOp::from_token", False), ("accept_next_token", "LeftParen", False),
                ("call", "evaluate_expression", False), ("expect_next_token", "RightParen", False),
                ("call", "evaluate_expression_term", False)]
        ck.require(sk == want, "C02:GRAMMAR:unary", "grammar", "at most one prefix operator, then a parenthesised expression or term",
                   "evaluate_unary_operator skeleton is %s" % sk, un.span)
        from lib import call_names_deep
        cs = un.calls_to("UnaryOp::evaluate")
        ok = False
        if len(cs) == 1:
            operand = call_names_deep(un, un.expr(cs[0].args[1]))
            ok = bool(operand & {"evaluate_parenthesized_expression", "evaluate_expression", "evaluate_expression_term"}) and \
                "try_next_token" in call_names_deep(un, un.expr(cs[0].args[0]))
        ck.require(ok, "C02:GRAMMAR:unary-apply", "grammar", "the accepted prefix operator is applied to the operand's value",
                   "evaluate_unary_operator no longer applies the accepted operator to the parsed operand", un.span)
    pa = F.one(EV + "evaluate_parenthesized_expression")
    if pa is None:
        ck.ok("C02:GRAMMAR:parens", "grammar", "`( expr ) | term` is written out inside evaluate_unary_operator (checked with its skeleton)")
    if pa is not None:
        sk = grammar.skeleton(pa)
        want = [("accept_next_token", "LeftParen", False), ("call", "evaluate_expression", False),
                ("expect_next_token", "RightParen", False), ("call", "evaluate_expression_term", False)]
        ck.require(sk == want, "C02:GRAMMAR:parens", "grammar", "( expr ) | term", "evaluate_parenthesized_expression skeleton is %s" % sk, pa.span)
        # transparent: the Ok value on the paren path is the inner expression's value
        ok = False
        for b, i, pl, rv, sp in aggregates(pa, "core::result::Result", "Ok"):
            e = pa.expr(rv["ops"][0])
            calls = [x[1].split("::")[-1] for x in expr_calls(e)]
            if "evaluate_expression" in calls and not any(c in calls for c in ("evaluate", "from_bool", "neg", "abs")):
                ok = True
        ck.require(ok, "C02:GRAMMAR:parens-transparent", "grammar", "( expr ) returns the inner value unchanged",
                   "a parenthesised expression no longer returns the inner value unchanged", pa.span)


# ---------------------------------------------------------------------------------- operator semantics
def kinds(dec, param):
    """variant decided on the value passed as `param` on this path (String/Number) or None."""
    for (txt, ps, val, subj) in dec:
        if ps == frozenset([param]) and val in ("String", "Number"):
            return val
    return None


def op_variant(dec):
    for (txt, ps, val, subj) in dec:
        if ps == frozenset([0]) and isinstance(val, str) and val not in ("String", "Number"):
            return val
    return None


def arith_op(ck, F, enum, want):
    b = get_fn(ck, F, enum + "::evaluate")
    if b is None:
        return
    short = enum.split("::")[-1]
    seen = {}
    typing = {}
    for r in path_records(b):
        l, rr = kinds(r["decisions"], 1), kinds(r["decisions"], 2)
        opv = op_variant(r["decisions"])
        arith = [c for c in r["calls"] if "core::ops::arith::" in c.callee]
        if l == "Number" and rr == "Number" and opv:
            for c in arith:
                nm = c.callee.split("::")[-1]
                a0, a1 = expr_params(b.expr(c.args[0])), expr_params(b.expr(c.args[1]))
                seen.setdefault(opv, set()).add((nm, a0 == {1}, a1 == {2}, r["outcome"]))
            if not arith:
                seen.setdefault(opv, set()).add(("none", None, None, r["outcome"]))
        if l is not None and (l == "String" or rr is not None):
            typing.setdefault((l, rr if l == "Number" else "*"), set()).add(r["outcome"])
    for opv, method in want.items():
        got = seen.get(opv, set())
        good = {(method, True, True, "Ok")}
        extra = {x for x in got if x[0] != "none"}
        ck.require(extra == good, "C02:OP:%s::%s" % (short, opv), "operator semantics",
                   "%s -> f64::%s(left, right)" % (opv, method),
                   "%s::%s performs %s; expected %s(left, right)" % (short, opv, sorted(map(str, got)), method), b.span)
    want_t = {("Number", "Number"): "ok", ("Number", "String"): "TypeMismatch", ("String", "*"): "TypeMismatch"}
    for cell, exp in want_t.items():
        got = typing.get(cell, set())
        if exp == "ok":
            good = bool(got) and all(o in ("Ok", "Err:DivisionByZero") for o in got) and "Ok" in got
        else:
            good = got == {"Err:TypeMismatch"}
        ck.require(good, "C02:TYPING:%s[%s,%s]" % (short, cell[0][0], cell[1][0]), "typing table",
                   "(%s, %s) -> %s" % (cell[0], cell[1], exp), "%s on (%s, %s) gives %s, expected %s" % (short, cell[0], cell[1], sorted(map(str, got)), exp),
                   b.span)
    if "Divide" in want:
        # the division happens only on the false arm of `right == 0.0`, whose true arm is DIVISION BY ZERO
        ok = False
        for bb in sorted(b.reachable()):
            t = b.term(bb)
            if t["k"] != "switch":
                continue
            e = strip_expr(b.expr(t["discr"]))
            if e[0] == "binop" and e[1] == "Eq" and expr_params(e[2]) == {2}:
                c = strip_expr(e[3])
                if c[0] == "const" and c[1].get("float") in ("0.0", "-0.0"):
                    ft = bool_switch_true_target(b, bb)
                    errs = [a for a in region_aggregates(b, exclusive_region(b, ft[1])) if a[1] == "DivisionByZero"]
                    divs = [c2 for c2 in b.calls() if c2.callee.endswith("::div")]
                    if errs and divs and all(b.dominates(ft[0], d.bb) for d in divs):
                        ok = True
        ck.require(ok, "C02:OP:Divide:zero-guard", "operator semantics", "`right == 0.0 -> DIVISION BY ZERO` guards the division",
                   "division is no longer guarded by the `right == 0.0 -> DivisionByZero` test", b.span)


def equality(ck, F):
    b = get_fn(ck, F, "operators::EqualityOp::evaluate")
    po = get_fn(ck, F, "operators::EqualityOp::evaluate_partial_ord")
    if b is not None:
        typing = {}
        for r in path_records(b):
            l, rr = kinds(r["decisions"], 1), kinds(r["decisions"], 2)
            if l and rr:
                cmpc = [c for c in r["calls"] if sfx(c.callee, "EqualityOp::evaluate_partial_ord")]
                order = all(expr_params(b.expr(c.args[1])) == {1} and expr_params(b.expr(c.args[2])) == {2} for c in cmpc)
                typing.setdefault((l, rr), set()).add((r["outcome"], bool(cmpc), order))
        want = {("String", "String"): True, ("Number", "Number"): True, ("String", "Number"): False, ("Number", "String"): False}
        for cell, okk in want.items():
            got = typing.get(cell, set())
            if okk:
                good = bool(got) and all(o == ("Ok", True, True) for o in got)
            else:
                good = bool(got) and all(o[0] == "Err:TypeMismatch" and not o[1] for o in got)
            ck.require(good, "C02:TYPING:EqualityOp[%s,%s]" % (cell[0][0], cell[1][0]), "typing table",
                       "(%s, %s) -> %s" % (cell[0], cell[1], "compare(left, right)" if okk else "TypeMismatch"),
                       "comparison on (%s, %s) gives %s" % (cell[0], cell[1], sorted(map(str, got))), b.span)
        # result encoded as 1.0 / 0.0
        consts = set()
        for c in b.calls():
            if "From<f64>>::from" in c.callee or c.callee.endswith("Value::from_bool"):
                from lib import float_consts_deep
                consts |= float_consts_deep(b, b.expr(c.args[0]))
                if c.callee.endswith("Value::from_bool"):
                    consts |= {"1.0", "0.0"}
        ck.require(consts == {"1.0", "0.0"}, "C02:BOOL:comparison-encoding", "boolean encoding", "comparison yields 1.0 or 0.0",
                   "a comparison yields %s instead of 1 / 0" % sorted(consts), b.span)
    if po is not None:
        want = {"EqualTo": "eq", "LessThan": "lt", "LessThanOrEqualTo": "le", "GreaterThan": "gt",
                "GreaterThanOrEqualTo": "ge", "NotEqualTo": "ne"}
        got = {}
        for r in path_records(po):
            opv = op_variant(r["decisions"])
            for c in r["calls"]:
                nm = c.callee.split("::")[-1]
                if nm in ("eq", "ne", "lt", "le", "gt", "ge") and len(c.args) == 2:
                    a0, a1 = expr_params(po.expr(c.args[0])), expr_params(po.expr(c.args[1]))
                    got.setdefault(opv, set()).add((nm, a0 == {1}, a1 == {2}))
        # the same table written through `left.partial_cmp(&right)` and tests on the Option<Ordering>: per operator, the set
        # of orderings (Less / Equal / Greater / None = unordered) for which it yields true
        via_ordering = ordering_truth_sets(po)
        if via_ordering is not None:
            WANT_SETS = {"EqualTo": {"Equal"}, "LessThan": {"Less"}, "LessThanOrEqualTo": {"Less", "Equal"}, "GreaterThan": {"Greater"},
                         "GreaterThanOrEqualTo": {"Greater", "Equal"}, "NotEqualTo": {"Less", "Greater", "None"}}
            for opv, m in want.items():
                if got.get(opv) != {(m, True, True)} and via_ordering.get(opv) == WANT_SETS[opv]:
                    got[opv] = {(m, True, True)}
        for opv, m in want.items():
            ck.require(got.get(opv) == {(m, True, True)}, "C02:OP:EqualityOp::%s" % opv, "operator semantics",
                       "%s -> left.%s(right)" % (opv, m), "EqualityOp::%s performs %s" % (opv, sorted(map(str, got.get(opv, [])))), po.span)


def ordering_truth_sets(po):
    """{operator variant: set of orderings for which evaluate_partial_ord returns true} when the function compares through
    `partial_cmp(left, right)`; None when it does not."""
    pcs = [c for c in po.calls() if c.callee.split("::")[-1] == "partial_cmp"]
    if len(pcs) != 1:
        return None
    pc = pcs[0]
    if expr_params(po.expr(pc.args[0])) != {1} or expr_params(po.expr(pc.args[1])) != {2}:
        return None
    if pc.dest["proj"]:
        return None
    ordl = pc.dest["local"]
    ALL = frozenset(["Less", "Equal", "Greater", "None"])

    def is_ord_place(pl, inner):
        if pl["local"] != ordl:
            # a reference / copy of the ordering local
            d = po.unique_def(pl["local"])
            return False
        projs = [p["k"] for p in pl["proj"]]
        return (projs == []) if not inner else (projs[:1] == ["downcast"] and len(projs) == 2)

    def is_ord(e):
        """the expression is the value partial_cmp returned (possibly borrowed)"""
        for _ in range(6):
            e = strip_expr(e)
            if e[0] == "ref":
                e = e[1]
            elif e[0] == "place" and not e[2]:
                e = e[1]
            else:
                break
        return e == ("local", ordl) or (e[0] == "call" and len(e) > 3 and e[3] is pc)

    def promoted_ordering(op):
        e = strip_expr(po.expr(op))
        while e[0] == "ref":
            e = strip_expr(e[1])
        if e[0] == "agg" and e[2] == "Some" and e[3]:
            inner = strip_expr(e[3][0])
            if inner[0] == "agg" and inner[2] in ("Less", "Equal", "Greater"):
                return inner[2]
        if e[0] == "agg" and e[2] == "None":
            return "None"
        return None

    def explore(bb, state, seen):
        """-> set of orderings (subset of state) for which true is returned from bb on"""
        if not state or (bb, state) in seen:
            return set()
        seen = seen | {(bb, state)}
        out = set()
        result_const = None
        for st in po.blocks[bb]["stmts"]:
            if st["k"] == "assign" and st["place"]["local"] == 0 and not st["place"]["proj"] and st["rv"]["k"] == "use" and \
                    st["rv"]["op"].get("k") == "const":
                result_const = bool(st["rv"]["op"].get("int"))
        t = po.term(bb)
        if result_const is not None and t["k"] in ("goto", "return", "drop"):
            return set(state) if result_const else set()
        c = po.call_at(bb)
        if c is not None and c.dest["local"] == 0 and not c.dest["proj"] and c.callee.split("::")[-1] in ("eq", "ne") and len(c.args) == 2:
            x = promoted_ordering(c.args[1])
            lhs = strip_expr(po.expr(c.args[0]))
            while lhs[0] in ("ref",):
                lhs = strip_expr(lhs[1])
            if x is None or not is_ord(lhs):
                return {"?"}
            hit = {x} & set(state)
            return hit if c.callee.split("::")[-1] == "eq" else set(state) - hit
        if t["k"] == "switch":
            info = po.switch_info(bb)
            subj = info[0]
            names = info[3]
            if names and subj[0] == "discr":
                pe = strip_expr(subj[1])
                if is_ord(pe) and not (pe[0] == "place" and pe[2]) and set(names.values()) <= {"None", "Some"}:
                    parts = {}
                    for v, n in names.items():
                        tg = info[1].get(v, info[2])
                        parts.setdefault(tg, set()).update({"None"} if n == "None" else {"Less", "Equal", "Greater"})
                    for tg, ss in parts.items():
                        out |= explore(tg, frozenset(ss & set(state)), seen)
                    return out
                if pe[0] == "place" and pe[2] and is_ord(pe[1]) and set(names.values()) <= {"Less", "Equal", "Greater"}:
                    parts = {}
                    for v, n in names.items():
                        tg = info[1].get(v, info[2])
                        parts.setdefault(tg, set()).add(n)
                    for tg, ss in parts.items():
                        out |= explore(tg, frozenset(ss & set(state)), seen)
                    return out
            return {"?"}
        for s_ in po.succs(bb):
            out |= explore(s_, state, seen)
        return out

    res = {}
    for bb in sorted(po.reachable()):
        info = po.switch_info(bb)
        if info and info[3] and "EqualTo" in info[3].values():
            for v, n in info[3].items():
                tg = info[1].get(v, info[2])
                if tg is not None:
                    res[n] = explore(tg, ALL, frozenset())
    return res or None


def exponent(ck, F):
    b = get_fn(ck, F, "operators::evaluate_exponent")
    if b is None:
        return
    pw = [c for c in b.calls() if c.callee.endswith("<impl f64>::powf")]
    ok = len(pw) == 1 and expr_params(b.expr(pw[0].args[0])) == {0} and expr_params(b.expr(pw[0].args[1])) == {1}
    ck.require(ok, "C02:OP:exponent", "operator semantics", "^ -> f64::powf(left, right)",
               "evaluate_exponent no longer computes left.powf(right)", b.span)
    # ... on every successful path, and by nothing else: `powi` for whole exponents multiplies step by step and rounds
    # differently from powf (0.3 ^ 3, 3 ^ 34, 10 ^ -30 print other digits)
    other = []
    n_okp = 0
    for r in path_records(b):
        if r["outcome"] != "Ok":
            continue
        n_okp += 1
        nm = [c.callee.split("::")[-1] for c in r["calls"] if "<impl f64>" in c.callee or "<impl f32>" in c.callee]
        if "powf" not in nm or [x for x in nm if x in ("powi", "exp", "exp2", "ln", "log2", "log10", "sqrt", "cbrt", "mul_add", "recip", "exp_m1")]:
            other.append(",".join(nm) or "no f64 call")
    ck.require(n_okp >= 1 and not other, "C02:OP:exponent-all-paths", "operator semantics", "every successful path computes powf and no other power routine",
               "evaluate_exponent has a success path that does not compute left.powf(right) (%s): whole-number exponents through powi "
               "are rounded differently and print other digits" % "; ".join(sorted(set(other))), b.span)
    tf = [c for c in b.calls() if "TryFrom<abasic_core::value::Value> for f64" in c.callee]
    # the checked conversion, or its spelled-out form `let Value::Number(x) = operand else { return Err(TypeMismatch) }`
    spelled = set()
    for r in path_records(b):
        if str(r["outcome"]).startswith("Err:TypeMismatch"):
            for d in r["decisions"]:
                if d[2] == "String" and len(d[1]) == 1:
                    spelled |= set(d[1])
    ck.require(len(tf) + len(spelled) == 2, "C02:TYPING:exponent", "typing table", "both operands are converted with TryFrom<Value> for f64 (TYPE MISMATCH on strings)",
               "evaluate_exponent converts %d operands through the checked f64 conversion" % (len(tf) + len(spelled)), b.span)
    bad = 0
    n_ok = 0
    for r in path_records(b):
        if r["outcome"] != "Ok":
            continue
        n_ok += 1
        conv = [c for c in r["calls"] if "TryFrom<abasic_core::value::Value> for f64" in c.callee]
        params = set()
        for c in conv:
            params |= expr_params(b.expr(c.args[0]))
        for d in r["decisions"]:
            if d[2] == "Number" and len(d[1]) == 1:
                params |= set(d[1])
        if params != {0, 1}:
            bad += 1
    ck.require(n_ok >= 1 and bad == 0, "C02:TYPING:exponent-all-paths", "typing table",
               "every successful path converts BOTH operands through the checked f64 conversion",
               "evaluate_exponent has a success path (%d of %d) that skips the numeric check of an operand: e.g. a fast path "
               "for a zero exponent lets `\"abc\" ^ 0` evaluate instead of raising TYPE MISMATCH" % (bad, n_ok), b.span)
    tfb = F.one("abasic_core::value::<impl core::convert::TryFrom<abasic_core::value::Value> for f64>::try_from")
    if tfb is None:
        ck.missing("C02:TYPING:f64-try_from", "impl TryFrom<Value> for f64")
    else:
        tab = {}
        for r in path_records(tfb):
            k = kinds(r["decisions"], 0)
            if k:
                tab.setdefault(k, set()).add(r["outcome"])
        ck.require(tab == {"Number": {"Ok"}, "String": {"Err:TypeMismatch"}}, "C02:TYPING:f64-try_from", "typing table",
                   "Number -> Ok, String -> TYPE MISMATCH", "TryFrom<Value> for f64 gives %s" % tab, tfb.span)


def unary(ck, F):
    b = get_fn(ck, F, "operators::UnaryOp::evaluate")
    if b is None:
        return
    got = {}
    for r in path_records(b):
        opv = op_variant(r["decisions"])
        names = [c.callee.split("::")[-1] for c in r["calls"] if not c.callee.endswith("::branch") and "from_residual" not in c.callee]
        negs = [st for bb in r["path"] for st in b.blocks[bb]["stmts"] if st["k"] == "assign" and st["rv"]["k"] == "unop" and st["rv"]["op"] == "Neg"]
        nots = [st for bb in r["path"] for st in b.blocks[bb]["stmts"] if st["k"] == "assign" and st["rv"]["k"] == "unop" and st["rv"]["op"] == "Not"]
        outcome = r["outcome"]
        if outcome is None and any(c.callee.split("::")[-1] == "map" and "Result" in c.callee for c in r["calls"]):
            # `value.try_into().map(|n: f64| (-n).into())`: the conversion's Ok value goes through the closure
            from lib import with_closures
            for cb in with_closures(F, b)[1:]:
                names += [c.callee.split("::")[-1] for c in cb.calls()]
                negs += [st for blk in cb.blocks for st in blk["stmts"] if st["k"] == "assign" and st["rv"]["k"] == "unop" and st["rv"]["op"] == "Neg"]
                nots += [st for blk in cb.blocks for st in blk["stmts"] if st["k"] == "assign" and st["rv"]["k"] == "unop" and st["rv"]["op"] == "Not"]
            names = [n for n in names if n != "map"]
            outcome = "Ok"
        if outcome == "Ok":
            sig = tuple(n for n in names if n in ("try_from", "to_bool", "from_bool", "from"))
            # `let Value::Number(n) = value else { TYPE MISMATCH }; Value::Number(-n)` is the checked conversion and the wrapping
            # spelled out: a decision `Number` on the operand stands for try_from, a Value::Number construction for from
            if opv == "Negative":
                checked = "try_from" in sig or any(d[2] == "Number" for d in r["decisions"])
                wrapped = "from" in sig or any(a[0].endswith("value::Value") and a[1] == "Number" for a in r["aggs"])
                sig = (("try_from",) if checked else ()) + (("from",) if wrapped else ())
            got.setdefault(opv, set()).add((sig, bool(negs), bool(nots)))
    ck.require(got.get("Positive") == {((), False, False)}, "C02:OP:unary-plus", "operator semantics", "+x returns x unchanged (any kind)",
               "unary plus does %s" % got.get("Positive"), b.span)
    ck.require(got.get("Negative") == {(("try_from", "from"), True, False)}, "C02:OP:unary-minus", "operator semantics",
               "-x = Neg(f64::try_from(x)?)", "unary minus does %s" % got.get("Negative"), b.span)
    ck.require(got.get("Not") == {(("to_bool", "from_bool"), False, True)}, "C02:OP:not", "operator semantics",
               "NOT x = from_bool(!to_bool(x))", "NOT does %s" % got.get("Not"), b.span)


def _track_bool(body, st, env):
    if st["k"] != "assign" or st["place"]["proj"] or body.local_ty(st["place"]["local"]) != "bool":
        return
    l, rv = st["place"]["local"], st["rv"]
    if rv["k"] == "use" and rv["op"].get("k") == "const":
        env[l] = bool(rv["op"].get("int"))
    elif rv["k"] == "use" and rv["op"].get("k") in ("copy", "move") and not rv["op"]["place"]["proj"]:
        env[l] = env.get(rv["op"]["place"]["local"], "other")
    else:
        env[l] = "other"


def logical(ck, F):
    for fn, short_on in (("operators::evaluate_logical_or", True), ("operators::evaluate_logical_and", False)):
        b = get_fn(ck, F, fn)
        if b is None:
            continue
        # truth table over (to_bool(left), to_bool(right)) -> value passed to from_bool
        table = {}
        for r in path_records(b):
            lv = rv_ = None
            for (txt, ps, val, subj) in r["decisions"]:
                if "to_bool" in txt and ps == frozenset([0]) and isinstance(val, bool):
                    lv = val
                if "to_bool" in txt and ps == frozenset([1]) and isinstance(val, bool):
                    rv_ = val
            fb = [c for c in r["calls"] if sfx(c.callee, "Value::from_bool")]
            # the bool fed to from_bool on this path: follow constant assignments
            val = None
            if fb:
                loc = fb[0].args[0]["place"]["local"] if fb[0].args[0]["k"] in ("copy", "move") else None
                env = {}       # what each bool local holds along this path: True / False / "left" / "right" / "other"
                for bb in r["path"]:
                    if bb == fb[0].bb:
                        for st in b.blocks[bb]["stmts"]:
                            _track_bool(b, st, env)
                        break
                    for st in b.blocks[bb]["stmts"]:
                        _track_bool(b, st, env)
                    c = b.call_at(bb)
                    if c is not None and not c.dest["proj"] and sfx(c.callee, "Value::to_bool"):
                        env[c.dest["local"]] = "right" if expr_params(b.expr(c.args[0])) == {1} else "left"
                val = env.get(loc)
                if val == "other":
                    val = "right"
            table[(lv, rv_)] = (val, r["outcome"])
        if short_on:   # OR: left true -> true ; else right
            good = table.get((True, None), (None,))[0] is True and all(v[0] == "right" for k, v in table.items() if k[0] is False)
        else:          # AND: left false -> false ; else right
            good = table.get((False, None), (None,))[0] is False and all(v[0] == "right" for k, v in table.items() if k[0] is True)
        good = good and all(v[1] == "Ok" for v in table.values()) and len(table) >= 2
        errs = [a for a in region_aggregates(b, b.reachable()) if a[0].endswith("InterpreterError")]
        ck.require(good and not errs, "C02:OP:%s" % fn.split("::")[-1], "operator semantics",
                   "%s = from_bool(to_bool(left) %s to_bool(right)), never a type error" % (fn.split("_")[-1].upper(), "||" if short_on else "&&"),
                   "%s truth table is %s (errors: %s)" % (fn, table, errs), b.span)


def truthiness(ck, F):
    b = get_fn(ck, F, "Value::to_bool")
    if b is not None:
        got = {}
        for r in path_records(b):
            k = kinds(r["decisions"], 0)
            names = [c.callee.split("::")[-1] for c in r["calls"]]
            ops = [(st["rv"]["op"], st["rv"]["b"].get("float")) for bb in r["path"] for st in b.blocks[bb]["stmts"]
                   if st["k"] == "assign" and st["rv"]["k"] == "binop"]
            nots = [1 for bb in r["path"] for st in b.blocks[bb]["stmts"] if st["k"] == "assign" and st["rv"]["k"] == "unop" and st["rv"]["op"] == "Not"]
            got[k] = (tuple(n for n in names if n in ("is_empty",)), tuple(ops), len(nots))
        ck.require(got.get("String") == (("is_empty",), (), 1), "C02:TRUTH:string", "truthiness", "string is true iff !is_empty()",
                   "string truthiness is %s" % (got.get("String"),), b.span)
        ck.require(got.get("Number") == ((), (("Ne", "0.0"),), 0), "C02:TRUTH:number", "truthiness", "number is true iff != 0.0",
                   "number truthiness is %s" % (got.get("Number"),), b.span)
    fb = get_fn(ck, F, "Value::from_bool")
    if fb is not None:
        vals = {}
        for r in path_records(fb):
            bv = None
            for (txt, ps, val, subj) in r["decisions"]:
                if ps == frozenset([0]) and isinstance(val, bool):
                    bv = val
            floats = set()
            for bb in r["path"]:
                for st in fb.blocks[bb]["stmts"]:
                    if st["k"] == "assign":
                        rv = st["rv"]
                        ops = [rv.get("op")] if rv["k"] == "use" else rv.get("ops", [])
                        for o in ops:
                            if isinstance(o, dict) and o.get("k") == "const" and "float" in o:
                                floats.add(o["float"])
                c = fb.call_at(bb)
                if c is not None:
                    for a_ in c.args:
                        if a_.get("k") == "const" and "float" in a_:
                            floats.add(a_["float"])
            if bv is not None and len(floats) == 1:
                vals[bv] = next(iter(floats))
        ck.require(vals == {True: "1.0", False: "0.0"}, "C02:BOOL:from_bool", "boolean encoding", "true -> 1.0, false -> 0.0",
                   "from_bool encodes %s" % vals, fb.span)


def builtins(ck, F):
    bt = get_fn(ck, F, "builtins::Builtin::try_from")
    if bt is not None:
        got = {}
        for c in bt.calls():
            if c.callee.endswith("::eq") and c.target is not None:
                s = [a.get("str") for a in c.args if a.get("k") == "const"]
                ft = bool_switch_true_target(bt, c.target)
                aggs = [a[1] for a in region_aggregates(bt, exclusive_region(bt, ft[1])) if a[0].endswith("Builtin")]
                if s and aggs:
                    got[s[0]] = aggs[0]
        ck.require(got == {"ABS": "Abs", "INT": "Int", "RND": "Rnd"}, "C02:BUILTIN:names", "builtins", "ABS/INT/RND -> Abs/Int/Rnd",
                   "builtin name table is %s" % got, bt.span)
    fc = get_fn(ck, F, EV + "evaluate_function_call")
    if fc is not None:
        got = {}
        for bb in sorted(fc.reachable()):
            info = fc.switch_info(bb)
            if not info or not info[3] or set(info[3].values()) != {"Abs", "Int", "Rnd"}:
                continue
            subject, targets, otherwise, names = info
            for v, n in names.items():
                t = targets.get(v, otherwise)
                reg = exclusive_region(fc, t)
                for bb2 in sorted(reg):
                    for st in fc.blocks[bb2]["stmts"]:
                        if st["k"] == "assign" and st["rv"]["k"] == "aggregate" and st["rv"].get("agg") == "closure":
                            cb = F.bodies.get(__import__("mir").norm(st["rv"]["closure"]))
                            if cb is not None:
                                got[n] = [c.callee.split("::")[-1] for c in cb.calls()]
                    c = fc.call_at(bb2)
                    if c is not None and sfx(c.callee, "Rng::rnd"):
                        got[n] = ["rnd"]
                    # the function passed by name: `self.evaluate_unary_number_function(f64::abs)`
                    if c is not None and n not in got:
                        for a in c.args:
                            e_ = strip_expr(fc.expr(a))
                            while e_[0] == "cast":
                                e_ = strip_expr(e_[2])
                            if e_[0] == "const" and "fn" in e_[1] and e_[1]["fn"].split("::")[-1] in ("abs", "floor"):
                                got[n] = [e_[1]["fn"].split("::")[-1]]
        ck.require(got.get("Abs") == ["abs"] and got.get("Int") == ["floor"] and got.get("Rnd") == ["rnd"], "C02:BUILTIN:semantics",
                   "builtins", "ABS -> f64::abs, INT -> f64::floor, RND -> Rng::rnd", "builtin semantics are %s" % got, fc.span)


def print_format(ck, F):
    b = get_fn(ck, F, "StatementEvaluator::evaluate_print_statement")
    if b is None:
        return
    ok = False
    from lib import with_helpers
    for c in [c for hb in with_helpers(F, b) for c in hb.calls()]:      # the formatting may sit in a helper next to the handler
        if c.callee.endswith("Argument::new_display") and "f64" in c.gargs:
            ok = True
        # `number.to_string()` is `<f64 as Display>` as well
        if c.callee.endswith("ToString>::to_string") and (c.gargs[:1] == ["f64"] or "f64" in str(c.args[0].get("place", {}).get("ty", ""))):
            ok = True
    # ... and with nothing else: an integer formatter on some path (`(n as i64).to_string()` for whole numbers) saturates at
    # +-2^63 and prints other digits than f64's Display beyond 2^53
    INTS = ("i8", "i16", "i32", "i64", "i128", "isize", "u8", "u16", "u32", "u64", "u128", "usize")
    others = sorted({(c.gargs or ["?"])[0] for hb in with_helpers(F, b) for c in hb.calls()
                     if (c.callee.endswith("ToString>::to_string") or c.callee.endswith("Argument::new_display") or
                         c.callee.endswith("Argument::new_debug")) and (c.gargs or ["?"])[0] in INTS})
    ck.require(not others, "C02:PRINT:number-display-only", "PRINT formatting", "no integer formatter in PRINT",
               "evaluate_print_statement also formats values as %s: numbers take a detour through an integer type on some path and "
               "print differently from f64's Display (saturation at 2^63, other digits beyond 2^53, -0 as 0)" % ", ".join(others), b.span)
    ck.require(ok, "C02:PRINT:number-display", "PRINT formatting", "numbers are formatted with <f64 as Display>",
               "PRINT no longer formats numbers with f64's Display", b.span)
