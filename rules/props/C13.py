"""C13 -- every token's reported source range is exact.

 1. monotone cursor: every write to Tokenizer.index is `index += e` (unsigned) or a restore of a value
    copied from index earlier in the same function
 2. start after blanks: chomp_leading_whitespace dominates chomp_next_token, whose first action saves
    index; the returned range is (that copy)..(index at return)
 3. provenance of every advance: a LineCruncher position, the byte length of text consumed verbatim,
    or the parsed line-number prefix  (INV-CURSOR / INV-CHARBOUNDARY)
 4. error positions are cursor values; a range end computed as start + literal needs an ASCII test
 5. the two collectors are the same iteration
"""
from lib import (sfx, get_fn, callers_of, strip_expr, strip_refs, show, aggregates, expr_calls, expr_params)

LEVEL = "other"
EXPLANATION = (
    "Structural cursor discipline read off the MIR: all writes to Tokenizer.index are enumerated and each must be an "
    "addition of a classified non-negative quantity (cruncher position counting the byte just returned, byte length "
    "of text taken verbatim, bytes_chomped whose own increments are char::len_utf8, or the ASCII line-number prefix) "
    "or a restore of a saved copy; range start is saved after the blank-chomp and end is the cursor at return.  This "
    "gives ordered, non-overlapping ranges on char boundaries.  The behavioural round trip (re-tokenising a range "
    "yields the same token) is not decided."
)
TRUSTED = ["str::find returns a byte offset on a char boundary; char::len_utf8 is the encoded length"]

TOK = "abasic_core::tokenizer::Tokenizer"


def is_index_place(pl):
    fs = [p for p in pl["proj"] if p["k"] == "field"]
    return bool(fs) and fs[-1].get("name") == "index" and fs[-1].get("adt", "").endswith("tokenizer::Tokenizer")


def split_add(e):
    """(index + e) in checked form -> e ; None otherwise"""
    e = strip_expr(e)
    if e[0] == "place" and e[1][0] == "binop" and e[1][1] == "AddWithOverflow":
        a, b = e[1][2], e[1][3]
    elif e[0] == "binop" and e[1] in ("Add", "AddUnchecked"):
        a, b = e[2], e[3]
    elif e[0] == "call" and e[1].split("::")[-1] in ("wrapping_add", "saturating_add"):
        a, b = e[2][0], e[2][1]
    else:
        return None
    sa = strip_expr(a)
    if sa[0] == "place" and sa[2] and sa[2][-1] == (TOK, "index"):
        return b
    sb = strip_expr(b)
    if sb[0] == "place" and sb[2] and sb[2][-1] == (TOK, "index"):
        return a
    return None


def classify_advance(F, body, e, depth=0):
    """Provenance of an advance amount; returns a description or None."""
    s = strip_expr(e)
    # `let pos = latest_pos?;` on an Option: the Continue payload of Try::branch(x) is the Some payload of x
    if s[0] == "place" and isinstance(s[1], tuple) and s[1][0] == "call" and s[1][1].endswith("Try>::branch") and s[1][2] and depth < 4:
        inner = strip_expr(s[1][2][0])
        r = classify_advance(F, body, inner, depth + 1)
        if r:
            return r
    txt = show(s)
    if s[0] == "const" and s[1].get("int") is not None:
        return "literal %d" % s[1]["int"]
    # tuple field .1 of a LineCruncher item
    if s[0] == "place" and s[2] and s[2][-1] == ("(tuple)", "1"):
        base = strip_expr(s[1])
        calls = [c[1] for c in expr_calls(s)]
        if any("LineCruncher as core::iter::traits::iterator::Iterator>::next" in c for c in calls):
            return "cruncher position (counts the byte just returned)"
        # the cruncher behind a std adaptor that only drops items (`crunch_remaining_bytes().take_while(..)`)
        if any(c.endswith("Iterator>::next") and ("TakeWhile" in c or "Peekable" in c or "Take as" in c or "Fuse" in c) for c in calls) and \
                any(c.endswith("Tokenizer::crunch_remaining_bytes") or c.endswith("LineCruncher::new") for c in calls):
            return "cruncher position (counts the byte just returned)"
        if any(sfx(c, "data::parse_data_until_colon") for c in calls):
            return "bytes_chomped returned by the DATA parser"
    if s[0] == "place" and s[2] and s[2][-1] == ("(tuple)", "1") or s[0] in ("local",) or \
            (s[0] == "place" and s[1][0] == "local"):
        # user variable (`pos`, `latest_pos`): every definition must itself be classified
        loc = None
        if s[0] == "local":
            loc = s[1]
        elif s[1][0] == "local":
            loc = s[1][1]
        if loc is not None and depth < 4:
            defs = body.defs().get(loc, [])
            descs = []
            for d in defs:
                if d[0] in ("assign", "partial"):
                    ee = body.rv_expr(d[3])
                    if ee[0] == "agg" and ee[2] in ("Some",):
                        ee = ee[3][0]
                    if ee[0] == "agg" and ee[2] in ("None",):
                        continue
                    r = classify_advance(F, body, ee, depth + 1)
                    if r is None:
                        # pattern bindings: `(byte, pos)` copied out of the iterator item
                        t2 = show(ee)
                        names2 = [x[1] for x in expr_calls(ee)]
                        if "LineCruncher" in t2 and "next" in t2:
                            r = "cruncher position (counts the byte just returned)"
                        elif any(n.endswith("Iterator>::next") for n in names2) and any(n.endswith("Tokenizer::crunch_remaining_bytes") for n in names2):
                            r = "cruncher position (counts the byte just returned)"
                    if r is None:
                        return None
                    descs.append(r)
                elif d[0] in ("call", "partial-call"):
                    c = d[2]
                    if "LineCruncher as core::iter::traits::iterator::Iterator>::next" in c.callee:
                        descs.append("cruncher position (counts the byte just returned)")
                    elif c.callee.endswith("Iterator>::next") and c.args and \
                            any(x[1].endswith("Tokenizer::crunch_remaining_bytes") for x in expr_calls(body.expr(c.args[0], depth=30))):
                        descs.append("cruncher position (counts the byte just returned)")
                    else:
                        return None
            if descs:
                # `let mut last = 0; .. last = pos; .. index += last`: the initial literal 0 advances nothing
                real = [x for x in descs if x != "literal 0"]
                if real and all(x == real[0] for x in real):
                    return real[0]
                return descs[0]
    if s[0] == "call":
        if sfx(s[1], "LineCruncher::pos"):
            return "cruncher pos()"
        if s[1].endswith("String::len") or s[1].endswith("<impl str>::len"):
            # ... of the remaining text itself, not of a trimmed / split piece of it (REM and DATA extend to the end of their text:
            # advancing by `text.trim_end().len()` leaves the token's range short of what the token consumed)
            cut = [x[1].split("::")[-1] for x in expr_calls(s[2][0]) if x[1].split("::")[-1] in
                   ("trim", "trim_end", "trim_start", "trim_matches", "trim_end_matches", "trim_start_matches", "strip_suffix", "strip_prefix",
                    "split", "split_once", "rsplit", "split_whitespace", "replace", "to_uppercase", "to_lowercase", "lines")]
            if cut:
                return None
            return "byte length of text consumed verbatim"
    if s[0] == "place" and s[1][0] == "binop" and s[1][1] in ("AddWithOverflow", "SubWithOverflow"):
        a = classify_advance(F, body, s[1][2], depth + 1)
        b = classify_advance(F, body, s[1][3], depth + 1)
        if a and b:
            return "%s %s %s" % (a, "+" if s[1][1].startswith("Add") else "-", b)
    if s[0] == "place" and any(p[0] == "field" and p[2] == "Some" for p in s[4]):
        base = strip_expr(s[1])
        if base[0] == "call" and base[1].endswith("<impl str>::find"):
            return "offset returned by str::find (char boundary)"
    if s[0] == "param":
        # skip_bytes(bytes): all callers pass the end index of the parsed line number
        cs = callers_of(F, body.path.split("::", 1)[1] if False else body.path)
        if not cs:
            cs = [(b, c) for b in F.bodies.values() for c in b.calls() if c.callee == body.path]
        ok = bool(cs)
        import common
        for cb, c in cs:
            if not common._from_parse(cb, c.args[s[1]]):
                ok = False
        if ok:
            return "end of the ASCII line-number prefix (parse_line_number), at every caller"
    return None


def context_free_rule(ck, F, E):
    """"tokenizing the text of a range on its own yields exactly that one token": what a stretch of text tokenizes to may not
    depend on what came before it.  The tokenizer's only state that changes from token to token is the cursor (`index`) and
    the error latch (`errored`, which only ends the iteration); a further field that is written while tokenizing (a
    "statement start" flag, a mode, the previous token) makes the matchers context dependent.  Fields that are only set when
    the tokenizer is built (a cached length) are not state in this sense."""
    fields = F.adt_fields("tokenizer::Tokenizer")
    if not fields:
        ck.missing("C13:CONTEXT-FREE", "struct Tokenizer")
        return
    extra = {}
    for fld in fields:
        if fld in ("index", "errored"):
            continue
        w = E.writers_of_field("tokenizer::Tokenizer", fld)
        w = {k: v for k, v in w.items() if "::tests" not in k}
        if w:
            extra[fld] = sorted(k.split("::")[-1] for k in w)
    ck.require(not extra, "C13:CONTEXT-FREE:tokenizer-state", "ranges re-tokenize to the same token",
               "of Tokenizer's %d fields only the cursor and the error latch are written after construction" % len(fields),
               "Tokenizer carries state besides the cursor from one token to the next (%s): what a piece of text tokenizes to depends "
               "on the tokens before it, so the text of a reported range does not re-tokenize to that token on its own" %
               "; ".join("%s written in %s" % (k, ",".join(v)) for k, v in sorted(extra.items())))


def single_text_rule(ck, F):
    """Every offset the tokenizer reports is an offset into the one string it was given.  The tokenizer therefore holds one text:
    a second text field (an upper-cased or otherwise normalised copy to match keywords against) has its own byte offsets --
    `to_uppercase()` is not length-preserving -- and positions computed on it are reported against the caller's line."""
    a = F.adt("tokenizer::Tokenizer")
    if a is None:
        ck.missing("C13:TEXT:single-source", "struct Tokenizer")
        return
    import re as _re
    texts = [f["name"] for f in a["variants"][0]["fields"]
             if _re.search(r"\bString\b|&'?\w* ?str\b|Vec<u8>|\[u8\]|Cow<|Box<str>|Rc<str>|Vec<char>", str(f.get("ty", ""))) and
             f["name"] not in ("string", "string_manager")]
    ck.require(not texts, "C13:TEXT:single-source", "ranges refer to the caller's text",
               "Tokenizer holds no text besides the string it was given",
               "Tokenizer keeps a second text (%s) next to the string it was given: offsets found in a transformed copy are not "
               "offsets into the caller's line (an upper-cased copy is longer or shorter wherever case mapping changes the UTF-8 "
               "length)" % ", ".join(texts))


def run(ck, F, E):
    context_free_rule(ck, F, E)
    single_text_rule(ck, F)
    # the ranges handed to editors are per file line: the analyzer keeps exactly one token-range entry per file line on every
    # path of its loop, or every later line is highlighted with its successor's ranges (rule shared with C05 / C15)
    import common
    common.map_rule(ck, F, E, "C13")
    # ---- (1)+(3) cursor writes
    n_writes = 0
    for body in F.bodies.values():
        if body.crate != "abasic_core":
            continue
        k = 0
        for b, i, pl, rv, sp in body.assigns():
            if not is_index_place(pl):
                continue
            n_writes += 1
            k += 1
            key = "C13:CURSOR:%s#%d" % (body.path.split("::")[-1], k)
            e = body.rv_expr(rv)
            adv = split_add(e)
            if adv is not None:
                desc = classify_advance(F, body, adv)
                ck.require(desc is not None, "C13:ADVANCE:%s#%d" % (body.path.split("::")[-1], k), "advance provenance",
                           "index += %s" % desc,
                           "Tokenizer.index is advanced in %s by a quantity of unknown provenance (%s): the cursor may "
                           "leave a char boundary or run past the token, so reported ranges are no longer exact"
                           % (body.path, show(adv)), sp)
                # a matcher must stop right behind a byte the cruncher handed out (a non-blank one); LineCruncher::pos()
                # also counts blanks it skipped without finding another byte, so only the blank skipper may use it
                fnname = body.path.split("::")[-1]
                ck.require(not (desc and "cruncher pos()" in desc) or fnname == "chomp_leading_whitespace",
                           "C13:END:%s#%d" % (fnname, k), "tokens end on a non-blank",
                           "the advance is the position of a returned (non-blank) byte" if fnname != "chomp_leading_whitespace"
                           else "only the blank skipper advances by LineCruncher::pos()",
                           "Tokenizer::%s advances the cursor by LineCruncher::pos(), which includes blanks skipped after the last "
                           "byte of the token: the token's reported range ends on a blank (e.g. an identifier at the end of a line "
                           "with trailing blanks)" % fnname, sp, nontrivial=False)
                ck.ok(key, "monotone cursor", "index += (unsigned)", "", sp, nontrivial=False)
                continue
            # restore of a saved copy: `index = copy _saved` where every def of _saved copies index, earlier
            ok = False
            loc = None
            if rv["k"] == "use" and rv["op"]["k"] in ("copy", "move") and not rv["op"]["place"]["proj"]:
                loc = rv["op"]["place"]["local"]
            if loc is not None:
                ok = _saved_index(body, loc, b, 0)
            ck.require(ok, key, "monotone cursor", "restore of a value copied from index earlier in the same function",
                       "Tokenizer.index is assigned in %s with something that is neither `index + e` nor a saved copy "
                       "of index (%s): the cursor is no longer monotone" % (body.path, show(e)), sp)
        # constructor
        for b, i, pl, rv, sp in aggregates(body, "tokenizer::Tokenizer"):
            names = F.adt_fields("tokenizer::Tokenizer")
            v = strip_expr(body.expr(rv["ops"][names.index("index")]))
            fresh = v[0] == "const" and v[1].get("int") == 0
            if not fresh:
                # `Tokenizer { index: self.index + e, ..self }`: the functional-update spelling of `self.index += e` (skip_bytes)
                amt = split_add(body.expr(rv["ops"][names.index("index")]))
                if amt is not None and classify_advance(F, body, amt) is not None:
                    fresh = True
            ck.require(fresh, "C13:CURSOR:new-zero", "monotone cursor",
                       "Tokenizer starts with index 0 (or is rebuilt from itself with the cursor advanced by a classified amount)",
                       "Tokenizer is constructed with a non-zero cursor", sp)
    ck.floor("C13.writes to Tokenizer.index", n_writes, 8)

    # a token matcher never skips blanks on its own: chomp_leading_whitespace() (the only function that may advance by
    # LineCruncher::pos()) is called before a token starts, by the iterator / chomp_next_token, not from inside a matcher --
    # otherwise a token that is not extended after the blanks ends on them
    for body in F.bodies.values():
        if body.crate != "abasic_core" or body.self_adt != "abasic_core::tokenizer::Tokenizer":
            continue
        fnname = body.path.split("::")[-1]
        if not fnname.startswith("chomp_") or fnname in ("chomp_leading_whitespace", "chomp_next_token"):
            continue
        skips = body.calls_to("Tokenizer::chomp_leading_whitespace")
        ck.require(not skips, "C13:END:%s:skips-blanks" % fnname, "tokens end on a non-blank",
                   "%s does not call the blank skipper" % fnname,
                   "Tokenizer::%s skips blanks itself (chomp_leading_whitespace) after its token has started: when nothing "
                   "that extends the token follows, the reported range ends on those blanks" % fnname,
                   skips[0].span if skips else body.span, nontrivial=False)

    # LineCruncher: position counts the byte just returned; increments by 1 only
    lc = F.one("<abasic_core::line_cruncher::LineCruncher as core::iter::traits::iterator::Iterator>::next")
    if lc is None:
        ck.missing("C13:CRUNCHER", "LineCruncher's Iterator::next")
    else:
        incs = []
        for b, i, pl, rv, sp in lc.assigns():
            fs = [p for p in pl["proj"] if p["k"] == "field"]
            if fs and fs[-1].get("name") == "index":
                e = strip_expr(lc.rv_expr(rv))
                incs.append(show(e))
                ok = e[0] == "place" and e[1][0] == "binop" and e[1][1] == "AddWithOverflow" and \
                    strip_expr(e[1][3])[0] == "const" and strip_expr(e[1][3])[1].get("int") == 1
                how = "LineCruncher.index += 1"
                if not ok:
                    # the same walk written with `position`: index += p + 1 where p is the offset, within bytes[index..], of
                    # the byte that is returned; or index = bytes.len() when nothing but blanks is left
                    names_ = [x[1].split("::")[-1] for x in expr_calls(e)]
                    if e[0] == "call" and e[1].endswith("::len") and "bytes" in show(e):
                        ok, how = True, "index = bytes.len() (only blanks were left)"
                    elif e[0] == "place" and e[1][0] == "binop" and e[1][1] == "AddWithOverflow" and "position" in names_ and \
                            "index" in show(strip_expr(e[1][2])):
                        inner = strip_expr(e[1][3])
                        if inner[0] == "place" and inner[1][0] == "binop" and inner[1][1] == "AddWithOverflow" and \
                                strip_expr(inner[1][3])[0] == "const" and strip_expr(inner[1][3])[1].get("int") == 1:
                            ok, how = True, "index += position(..) + 1 over bytes[index..]"
                ck.require(ok, "C13:CRUNCHER:step", "cruncher", how,
                           "LineCruncher advances by something other than one byte: %s" % show(e), sp)
        somes = list(aggregates(lc, "core::option::Option", "Some"))
        ok = False
        for (b, i, pl, rv, sp) in somes:
            e = strip_expr(lc.expr(rv["ops"][0]))
            if e[0] == "agg" and len(e[3]) == 2 and "index" in show(e[3][1]):
                # the increment happened on the way to this block
                ok = any(lc.dominates(bi, b) for bi, i2, pl2, rv2, sp2 in lc.assigns()
                         if [p for p in pl2["proj"] if p["k"] == "field"] and
                         [p for p in pl2["proj"] if p["k"] == "field"][-1].get("name") == "index")
        ck.require(ok, "C13:CRUNCHER:pos-after-byte", "cruncher",
                   "the reported position is index after consuming the returned byte",
                   "LineCruncher no longer reports the position just after the returned byte", lc.span)
    # DataParser.bytes_chomped increments by len_utf8 only
    for body in F.bodies.values():
        if body.crate != "abasic_core":
            continue
        for b, i, pl, rv, sp in body.assigns():
            fs = [p for p in pl["proj"] if p["k"] == "field"]
            if fs and fs[-1].get("name") == "bytes_chomped":
                e = strip_expr(body.rv_expr(rv))
                ok = e[0] == "place" and e[1][0] == "binop" and e[1][1] == "AddWithOverflow" and \
                    "len_utf8" in show(e[1][3])
                ck.require(ok, "C13:DATA:bytes_chomped", "advance provenance", "bytes_chomped += char.len_utf8()",
                           "DataParser.bytes_chomped is updated by %s, not by the UTF-8 length of the consumed char" % show(e), sp)

    # ---- (2) start after blanks
    nx = F.one("<abasic_core::tokenizer::Tokenizer as core::iter::traits::iterator::Iterator>::next")
    cn = get_fn(ck, F, "Tokenizer::chomp_next_token")
    if nx is None:
        ck.missing("C13:START:next", "Tokenizer's Iterator::next")
    elif cn is not None:
        w = nx.calls_to("Tokenizer::chomp_leading_whitespace")
        c = nx.calls_to("Tokenizer::chomp_next_token")
        ok = len(w) >= 1 and len(c) == 1 and all(nx.dominates(x.bb, c[0].bb) for x in w[:1])
        ck.require(ok, "C13:START:blank-chomp-dominates", "range start",
                   "chomp_leading_whitespace dominates chomp_next_token in Iterator::next",
                   "a token can now start before leading blanks were skipped", nx.span)
        cs = [b.path for b, _ in callers_of(F, "Tokenizer::chomp_next_token")]
        ck.require(cs == [nx.path], "C13:START:single-caller", "range start", "chomp_next_token has one caller",
                   "chomp_next_token is also called from %s" % cs)
        # saved start: a copy of index in the entry block, before any call
        first_calls = [x.bb for x in cn.calls()]
        saved = None
        for b, i, pl, rv, sp in cn.assigns():
            e = strip_expr(cn.rv_expr(rv))
            if not pl["proj"] and e[0] == "place" and e[2] and e[2][-1] == (TOK, "index") and \
                    all(cn.dominates(b, fb) for fb in first_calls):
                if saved is None:
                    saved = pl["local"]
        ranges = list(aggregates(cn, "core::ops::range::Range"))
        ok = saved is not None and len(ranges) >= 1
        for (b, i, pl, rv, sp) in ranges:
            st = rv["ops"][0]
            en = strip_expr(cn.expr(rv["ops"][1]))
            st_ok = st["k"] in ("copy", "move") and (st["place"]["local"] == saved or _copy_of(cn, st["place"]["local"], saved))
            en_ok = en[0] == "place" and en[2] and en[2][-1] == (TOK, "index")
            ok = ok and st_ok and en_ok
        ck.require(ok, "C13:START:range=saved..index", "range start",
                   "range = (index saved before any matcher)..(index at return)",
                   "chomp_next_token no longer reports (saved start)..(cursor at return)", cn.span)

    # ---- (4) error positions
    errpos_rules(ck, F, "C13")
    range_rule(ck, F, "C13")

    # ---- (4c) ranges are reported against the text the caller keeps: the tokenizer is given the line itself
    same_text_rule(ck, F, "C13")

    # ---- (5) sibling collectors
    a = get_fn(ck, F, "Tokenizer::remaining_tokens")
    b2 = get_fn(ck, F, "Tokenizer::remaining_tokens_and_ranges")
    if a is not None and b2 is not None:
        def complete_iteration(body, n_push):
            """the collector hands out every item of the token iterator, stopping at the first error: either a loop
            `for item in &mut self { let x = item?; push.. }` or `(&mut self)[.map(..)].collect::<Result<Vec<_>, _>>()`"""
            names = [c.callee.split("::")[-1] for c in body.calls()]
            banned = [n for n in names if n in ("filter", "filter_map", "skip", "take", "step_by", "rev", "take_while", "skip_while",
                                                "nth", "last", "find", "dedup", "truncate", "pop", "remove")]
            if banned:
                return None
            if body.natural_loops():
                if names.count("next") == 1 and names.count("branch") == 1 and names.count("push") == n_push:
                    return "loop: next, `?`, push x%d" % n_push
                return None
            cols = [c for c in body.calls() if c.callee.split("::")[-1] == "collect"]
            if len(cols) == 1 and any("Result<" in g and "Vec<" in g for g in cols[0].gargs) and 1 in {0} | set() or \
                    (len(cols) == 1 and any("Result<" in g and "Vec<" in g for g in cols[0].gargs)):
                return "collect::<Result<Vec<_>, _>>() over the whole iterator"
            return None
        sa, sb = complete_iteration(a, 1), complete_iteration(b2, 2)
        ck.require(sa is not None and sb is not None, "C13:SIBLING:collectors", "sibling collectors",
                   "both collectors hand out every token up to the first error (%s / %s)" % (sa, sb),
                   "remaining_tokens and remaining_tokens_and_ranges no longer both iterate the whole token stream "
                   "(tokens: %s, tokens+ranges: %s)" % (sa, sb), a.span)


TRANSPORT = ("as_ref", "deref", "as_str", "borrow", "next", "into_iter", "enumerate", "iter", "as_bytes")


def text_source(body, op):
    """(calls other than pure borrowing / iteration through which the text operand is derived, parameters it comes from)"""
    e = body.expr(op, depth=40)
    calls = [x[1].split("::")[-1] for x in expr_calls(e)]
    return [x for x in calls if x not in TRANSPORT], expr_params(e)


def same_text_rule(ck, F, P, only=None):
    """Every byte range is an offset into the string the tokenizer was given.  The callers that report ranges
    (the edit path, the source-file analyzer) must hand the tokenizer, the line-number parser and their own length
    bookkeeping the very line they keep / were given -- not a trimmed, stripped or re-encoded copy."""
    n = 0
    for body in F.bodies.values():
        if body.crate != "abasic_core" or "::tests::" in body.path or "::test" in body.path.split("::")[-2:][0]:
            continue
        if body.self_adt == "abasic_core::tokenizer::Tokenizer":
            continue
        if only is not None and body.path.split("::")[-1] not in only:
            continue
        sites = [c for c in body.calls() if c.callee.endswith("tokenizer::Tokenizer::new") or
                 c.callee.endswith("line_number_parser::parse_line_number")]
        if not sites:
            continue
        roots = set()
        for c in sites:
            foreign, ps = text_source(body, c.args[0])
            n += 1
            ck.require(not foreign and len(ps) == 1,
                       "%s:TEXT:%s:%s" % (P, body.path.split("::")[-1], c.callee.split("::")[-1]), "ranges refer to the caller's text",
                       "the text is parameter %s itself (only borrowed / iterated)" % sorted(ps),
                       "%s passes %s a text derived through %s (from parameters %s) instead of the line it keeps: every reported "
                       "range and error position is then an offset into a different string than the caller's line" %
                       (body.path, c.callee.split("::")[-1], foreign or "nothing", sorted(ps)), c.span)
            roots |= set(ps)
        ck.require(len(roots) == 1, "%s:TEXT:%s:one-source" % (P, body.path.split("::")[-1]), "ranges refer to the caller's text",
                   "line-number parser and tokenizer read the same parameter", "%s feeds the line-number parser and the "
                   "tokenizer from different parameters %s" % (body.path, sorted(roots)), body.span)
    ck.floor("%s.callers handing text to the tokenizer / line-number parser" % P, n, 2 if only is None else 2 * len(only))


def errpos_rules(ck, F, P):
    """Tokenization error positions are cursor values (shared with C05)."""
    n_err = 0
    for body in F.bodies.values():
        if body.crate != "abasic_core" or "tokenizer::Tokenizer" not in body.path:
            continue
        for variant in ("IllegalCharacter", "UnterminatedStringLiteral"):
            for b, i, pl, rv, sp in aggregates(body, "syntax_error::TokenizationError", variant):
                n_err += 1
                from lib import resolve_captures
                e = strip_expr(resolve_captures(F, body, body.expr(rv["ops"][0])))
                ok = e[0] == "place" and e[2] and e[2][-1] == (TOK, "index")
                ck.require(ok, "%s:ERRPOS:%s" % (P, variant), "error position", "%s(self.index)" % variant,
                           "%s carries %s instead of the cursor" % (variant, show(e)), sp)
        for b, i, pl, rv, sp in aggregates(body, "syntax_error::TokenizationError", "InvalidNumber"):
            n_err += 1
            e = strip_expr(body.expr(rv["ops"][0]))
            ok = False
            if e[0] == "agg" and str(e[1]).endswith("Range"):
                st = strip_expr(e[3][0])
                en = split_add(e[3][1])
                ok = st[0] == "place" and st[2] and st[2][-1] == (TOK, "index") and en is not None and \
                    classify_advance(F, body, en) is not None
            ck.require(ok, "%s:ERRPOS:InvalidNumber" % P, "error position", "InvalidNumber(index..index+pos)",
                       "InvalidNumber carries %s" % show(e), sp)
    ck.floor("%s.tokenization error sites" % P, n_err, 3)


def _saved_index(body, loc, use_bb, depth):
    """Every definition of `loc` copies Tokenizer.index (directly or through other such locals), earlier."""
    ds = body.defs().get(loc, [])
    if not ds or depth > 4:
        return False
    for d in ds:
        if not (d[0] == "assign" and d[3]["k"] == "use" and d[3]["op"]["k"] in ("copy", "move")):
            return False
        src = d[3]["op"]["place"]
        if is_index_place(src):
            if not body.dominates(d[1], use_bb):
                return False
        elif not src["proj"]:
            if not _saved_index(body, src["local"], use_bb, depth + 1):
                return False
        else:
            return False
    return True


def _copy_of(body, local, saved):
    d = body.unique_def(local)
    if d and d[0] == "assign" and d[3]["k"] == "use" and d[3]["op"]["k"] in ("copy", "move"):
        p = d[3]["op"]["place"]
        return not p["proj"] and (p["local"] == saved or _copy_of(body, p["local"], saved))
    return False


def range_rule(ck, F, P):
    """Every Range<usize> that describes source text (tokenization-error ranges and the ranges handed out by the
    source map): an end computed as `something + literal` must be justified by an ASCII test on the byte there,
    otherwise it may split a character or leave the line (shared with C05)."""
    fns = ("TokenizationError::string_range", "SourceFileMap::map_location_to_source", "SourceFileMap::map_to_source")
    for fn in fns:
        sr = get_fn(ck, F, fn)
        if sr is None:
            continue
        k = 0
        for b, i, pl, rv, sp in aggregates(sr, "core::ops::range::Range"):
            k += 1
            en = strip_expr(sr.expr(rv["ops"][1]))
            st = strip_expr(sr.expr(rv["ops"][0]))
            # which variant arm are we in? (only meaningful for string_range)
            variant = None
            for bb in sorted(sr.reachable()):
                info = sr.switch_info(bb)
                if info and info[3] and len(info[3]) == 3:
                    for v, n in info[3].items():
                        t = info[1].get(v, info[2])
                        if sr.dominates(t, b) and (v in info[1] or t == info[2]):
                            variant = n
            lit = None
            shape = ""
            for (which, e) in (("end", en), ("start", st)):
                if e[0] == "place" and e[1][0] == "binop" and e[1][1] in ("AddWithOverflow", "SubWithOverflow"):
                    c = strip_expr(e[1][3])
                    if c[0] == "const" and c[1].get("int") is not None:
                        lit = c[1]["int"]
                        shape += "%s%s%s" % (which, "+" if e[1][1].startswith("Add") else "-", lit)
                if e[0] == "binop" and e[1] in ("Add", "Sub"):
                    c = strip_expr(e[3])
                    if c[0] == "const":
                        lit = c[1].get("int")
                        shape += "%s%s%s" % (which, "+" if e[1] == "Add" else "-", lit)
                if e[0] == "call" and e[1].split("::")[-1] in ("saturating_add", "wrapping_add", "checked_add", "saturating_sub"):
                    lit = "call"
            short = fn.split("::")[-1]
            if lit == 0:
                lit = None      # bound + 0 is the bound
            if lit is not None:
                key = "%s:RANGE:syntax_error::TokenizationError::string_range:%s" % (P, variant) if short == "string_range" \
                    else "%s:RANGE:%s#%d" % (P, short, k)
                # the recorded finding is the range i..i+1; any other arithmetic at the same site is a different violation
                if short == "string_range" and shape not in ("end+1", ""):
                    key += ":" + shape
                ck.bad(key, "range construction",
                       "%s builds a source range whose bound is another bound +/- %s: the offending character may be multi-byte "
                       "(`10 é` gives 3..4, which splits a 2-byte char) or the range may leave the line (an end-of-line error "
                       "reported one past the last token)" % (fn, lit), sp)
            else:
                key = "%s:RANGE:string_range:%s" % (P, variant) if short == "string_range" else "%s:RANGE:%s#%d" % (P, short, k)
                ck.ok(key, "range construction", "range bounds are cursor values / stored token ranges / the line length (%s)" % show(en)[:80],
                      "", sp)
