"""C18 -- RND is a pure, in-range function of the seed.

 1. constants by const-eval;  2. the only write to Rng.seed outside construction is the LCG step
 (MIR expression tree);  3. interval argument: every value stored in Rng.seed is < MODULUS, hence the
 step cannot overflow u64 and seed/MODULUS is in [0,1);  4. argument dispatch;  5. purity and seeding API.
"""
from lib import (sfx, get_fn, callers_of, strip_expr, strip_refs, show, aggregates, expr_calls,
                 bool_switch_true_target, region_aggregates, exclusive_region)

LEVEL = "proof"
EXPLANATION = (
    "Replaces the 2^33-state sweep by an interval argument over the MIR: the constants are const-evaluated; every "
    "value ever stored in Rng.seed (constructor aggregate and the single field assignment) is shown to be `x % "
    "MODULUS` (or 0), so seed <= 2^33-1 at every read; with that bound MULTIPLIER*seed+INCREMENT < 2^64 (computed), "
    "the u64->f64 conversions are exact below 2^53 and division by 2^33 is exact, so the result lies in [0,1).  "
    "The dispatch on the argument is read off the CFG: the negative arm returns Unimplemented before any call, the "
    "zero arm calls only the &self accessor, every other value calls the step exactly once."
)
TRUSTED = [
    "u64 -> f64 conversion is exact below 2^53; IEEE division by a power of two is exact",
    "NaN arguments cannot be written in BASIC (`/` rejects a zero divisor) -- stated, not checked",
]

RNG = "abasic_core::random::Rng"


def const_of(e):
    e = strip_expr(e)
    if e[0] == "const":
        return e[1].get("int")
    return None


def is_mod_reduced(body, e, modulus):
    """e == (something % MODULUS) or a constant below MODULUS"""
    e = strip_expr(e)
    c = const_of(e)
    if c is not None:
        return c < modulus, "constant %d" % c
    if e[0] == "call" and e[1].endswith("Default>::default") and not e[2]:
        return True, "u64::default() == 0"
    if e[0] == "binop" and e[1] == "Rem" and const_of(e[3]) == modulus:
        return True, "x %% %d" % modulus
    if e[0] == "binop" and e[1] == "BitAnd" and const_of(e[3]) == modulus - 1:
        return True, "x & %d" % (modulus - 1)
    if e[0] == "call" and e[1].endswith("::rem") and const_of(e[2][1]) == modulus:
        return True, "x %% %d" % modulus
    if e[0] == "call" and (e[1].endswith("rem_euclid") or e[1].endswith("wrapping_rem")) and const_of(e[2][1]) == modulus:
        return True, "x rem %d" % modulus
    return False, show(e)


def step_formula(e, mult, inc, mod):
    """Match Rem(Add(Mul(MULT, seed), INC), MOD) in checked / wrapping / plain spellings.
    Returns (ok, kind) where kind in {'checked','wrapping','plain'}"""
    e = strip_expr(e)
    if not (e[0] == "binop" and e[1] == "Rem" and const_of(e[3]) == mod):
        return False, "outer operation is not `% MODULUS`: " + show(e)
    add = strip_expr(e[2])
    kind = "plain"

    def unwrap_checked(x, opname):
        nonlocal kind
        x = strip_expr(x)
        if x[0] == "place" and x[1][0] == "binop" and x[1][1] == opname + "WithOverflow":
            kind = "checked"
            return x[1][2], x[1][3]
        if x[0] == "binop" and x[1] in (opname, opname + "Unchecked"):
            return x[2], x[3]
        if x[0] == "call" and x[1].endswith("wrapping_" + opname.lower()):
            kind = "wrapping"
            return x[2][0], x[2][1]
        return None

    ab = unwrap_checked(add, "Add")
    if ab is None:
        return False, "no addition under the remainder: " + show(add)
    a, b = ab
    if const_of(b) == inc:
        mul = a
    elif const_of(a) == inc:
        mul = b
    else:
        return False, "increment is not INCREMENT: " + show(add)
    mn = unwrap_checked(mul, "Mul")
    if mn is None:
        return False, "no multiplication: " + show(mul)
    m, n = mn
    if const_of(m) == mult:
        seed = strip_expr(n)
    elif const_of(n) == mult:
        seed = strip_expr(m)
    else:
        return False, "multiplier is not MULTIPLIER: " + show(mul)
    if not (seed[0] == "place" and seed[2] and seed[2][-1] == (RNG, "seed")):
        return False, "multiplicand is not self.seed: " + show(seed)
    return True, kind


def rnd_after_syntax(ck, F):
    """The generator advances only for an RND call that has been parsed completely: nothing that can still reject the call's
    syntax (`expect_next_token`) runs after Rng::rnd within the builtin's evaluation.  A helper that applies the builtin as soon as
    the argument is known and checks the closing parenthesis afterwards lets a rejected line (`X = RND(1`) consume an element."""
    n = 0
    for p, b in sorted(F.bodies.items()):
        if b.crate != "abasic_core" or "::tests" in p:
            continue
        for c in b.calls():
            if not c.callee.endswith("random::Rng::rnd"):
                continue
            n += 1
            hosts = []          # (body, block after which syntax checks must not follow)
            if "::{closure" not in p:
                hosts.append((b, c.bb))
            else:
                parent = F.bodies.get(p.split("::{closure", 1)[0])
                if parent is not None:
                    for pc in parent.calls():
                        for a in pc.args:
                            ae = strip_expr(parent.expr(a))
                            if ae[0] == "agg" and ae[1] == p:
                                hosts.append((parent, pc.bb))                 # after the helper returns, in the parent
                                hb = F.bodies.get(pc.callee)
                                if hb is not None:                             # and inside the helper, after it invokes the closure
                                    for hc in hb.calls():
                                        if hc.indirect or hc.callee.split("::")[-1] in ("call_once", "call_mut", "call"):
                                            hosts.append((hb, hc.bb))
            late = []
            for (hb, bb) in hosts:
                after = hb.blocks_reachable_from(bb) - {bb}
                late += [x.callee.split("::")[-1] for x in hb.calls() if x.bb in after and
                         x.callee.split("::")[-1] in ("expect_next_token",)]
            ck.require(not late, "C18:STATE:rnd-after-the-call-is-parsed:%s" % p.split("::{closure")[0].split("::")[-1], "generator state",
                       "no syntax check of the call follows Rng::rnd",
                       "%s draws from the generator before the rest of the RND call has been parsed (%s follows): a line that is then "
                       "rejected has already consumed an element of the sequence" % (p, ", ".join(sorted(set(late)))), c.span)
    ck.floor("C18.call sites of Rng::rnd", n, 1)


def run(ck, F, E):
    rnd_after_syntax(ck, F)
    _run(ck, F, E)


def _run(ck, F, E):
    mult, inc, mod = F.const("random::MULTIPLIER"), F.const("random::INCREMENT"), F.const("random::MODULUS")
    ck.require(mult == 1664525, "C18:CONST:MULTIPLIER", "constants", "MULTIPLIER == 1664525", "MULTIPLIER is %r" % mult)
    ck.require(inc == 1013904223, "C18:CONST:INCREMENT", "constants", "INCREMENT == 1013904223", "INCREMENT is %r" % inc)
    ck.require(mod == 2 ** 33, "C18:CONST:MODULUS", "constants", "MODULUS == 2^33", "MODULUS is %r" % mod)
    if None in (mult, inc, mod):
        return

    # ---- every value ever stored in Rng.seed
    stores = []
    for body in F.bodies.values():
        for b, i, pl, rv, sp in aggregates(body, "random::Rng"):
            stores.append((body, "construct", body.expr(rv["ops"][0]), sp))
        for b, i, pl, rv, sp in body.assigns():
            fs = [p for p in pl["proj"] if p["k"] == "field"]
            if fs and fs[-1].get("name") == "seed" and fs[-1].get("adt", "").endswith("random::Rng"):
                stores.append((body, "assign", body.rv_expr(rv), sp))
    ck.floor("C18.stores into Rng.seed", len(stores), 2)
    writers = sorted({s[0].path for s in stores})
    ck.note("seed_stores", [(s[0].path, s[1], show(s[2])) for s in stores])
    allowed = ("Rng::new", "Rng::random", "<abasic_core::random::Rng as core::default::Default>::default")
    for (body, how, e, sp) in stores:
        ck.require(any(sfx(body.path, a) for a in allowed), "C18:SEEDWRITER:%s" % body.path, "seed writers",
                   "seed is stored by %s" % body.path.split("::")[-1],
                   "Rng.seed is written in %s: only Rng::new and Rng::random may" % body.path, sp)
        okr, why = is_mod_reduced(body, e, mod)
        ck.require(okr, "C18:RANGE:random::Rng.seed:%s" % body.path.split("::")[-1], "seed interval",
                   "value stored in Rng.seed is reduced modulo 2^33 (%s)" % why,
                   "%s stores an unreduced 64-bit value in Rng.seed (%s): for seeds >= 2^33 RND(0) returns values "
                   ">= 1 (randomize(1<<40) -> 128) and for seeds above ~2^43.3 MULTIPLIER*seed overflows u64 "
                   "(panic in debug builds)" % (body.path, why), sp)
    all_reduced = all(is_mod_reduced(s[0], s[2], mod)[0] for s in stores)

    # ---- step formula
    rb = get_fn(ck, F, "Rng::random")
    if rb is not None:
        st = [s for s in stores if s[0] is rb and s[1] == "assign"]
        ck.require(len(st) == 1, "C18:STEP:one-store", "LCG step", "random() stores the seed once",
                   "random() stores the seed %d times" % len(st), rb.span)
        if st:
            ok, kind = step_formula(st[0][2], mult, inc, mod)
            ck.require(ok, "C18:STEP:formula", "LCG step",
                       "seed' = (MULTIPLIER * seed + INCREMENT) %% MODULUS  (%s arithmetic)" % kind,
                       "the generator step is not (1664525*seed + 1013904223) mod 2^33: %s" % kind, st[0][3])
            # interval: with seed <= mod-1 the checked product+sum fits u64
            fits = mult * (mod - 1) + inc < 2 ** 64
            if ok and kind in ("checked", "plain"):
                ck.require(all_reduced and fits, "C18:OVF:random::Rng::random:Mul", "seed interval",
                           "seed in [0, 2^33-1] at every read, so MULTIPLIER*seed+INCREMENT <= %d < 2^64"
                           % (mult * (mod - 1) + inc),
                           "MULTIPLIER * seed can overflow u64 because Rng.seed is not confined to [0, 2^33-1] "
                           "(randomize(u64::MAX) then RND(1) panics in debug builds)", st[0][3])
        # returns latest_random
        d = rb.unique_def(0)
        ck.require(d is not None and d[0] == "call" and sfx(d[2].callee, "Rng::latest_random"), "C18:STEP:returns-scaled",
                   "LCG step", "random() returns latest_random()", "random() no longer returns the scaled new state", rb.span)
    lb = get_fn(ck, F, "Rng::latest_random")
    if lb is not None:
        ck.require(lb.local_ty(1).startswith("&") and not lb.local_ty(1).startswith("&mut"), "C18:SCALE:shared-self",
                   "scaling", "latest_random takes &self (cannot advance)", "latest_random takes a mutable receiver", lb.span)
        e0 = None
        for b, i, pl, rv, sp in lb.assigns():
            if not pl["proj"] and pl["local"] == 0:
                e0 = lb.rv_expr(rv)
        ok = False
        if e0 is not None:
            e0s = strip_refs(e0)
            if e0s[0] == "binop" and e0s[1] == "Div":
                num, den = e0s[2], e0s[3]
                n_ok = num[0] == "cast" and "seed" in show(num[2]) and num[3] == "f64"
                dc = den
                d_ok = (dc[0] == "cast" and const_of(dc[2]) == mod) or (dc[0] == "const" and dc[1].get("float") == str(float(mod)))
                ok = n_ok and d_ok
        ck.require(ok, "C18:SCALE:formula", "scaling", "latest_random = seed as f64 / MODULUS as f64",
                   "latest_random is no longer seed/2^33: %s" % (show(e0) if e0 else "?"), lb.span)

    # ---- dispatch
    rn = get_fn(ck, F, "Rng::rnd")
    if rn is not None:
        dispatch(ck, rn)
        # purity: nothing but the two generator functions (and error conversion) is called
        extern = [c.callee for c in rn.calls() if not (sfx(c.callee, "Rng::random") or sfx(c.callee, "Rng::latest_random")
                                                         or "convert" in c.callee)]
        ck.require(not extern, "C18:PURE:rnd-callees", "purity", "rnd() calls only random()/latest_random()",
                   "rnd() now also calls %s: the result may depend on something other than the seed" % extern, rn.span)
    for fn in ("Rng::random", "Rng::latest_random"):
        b = F.one(fn)
        if b is not None:
            extern = [c.callee for c in b.calls() if not sfx(c.callee, "Rng::latest_random")
                      and not c.callee.startswith("core::num::")]
            ck.require(not extern, "C18:PURE:%s-callees" % fn, "purity", "%s calls nothing external" % fn,
                       "%s calls %s" % (fn, extern), b.span)

    # ---- seeding API
    rz = get_fn(ck, F, "Interpreter::randomize")
    if rz is not None:
        ok = False
        for b, i, pl, rv, sp in rz.assigns():
            fs = [p for p in pl["proj"] if p["k"] == "field"]
            if fs and fs[-1].get("name") == "rng":
                e = rz.rv_expr(rv)
                if e[0] == "call" and sfx(e[1], "Rng::new") and strip_expr(e[2][0]) == ("param", 1):
                    ok = True
        ck.require(ok, "C18:SEED:randomize", "seeding", "randomize(seed) replaces rng with Rng::new(seed)",
                   "Interpreter::randomize no longer installs Rng::new(seed)", rz.span)
        # ... for every seed: no returning path skips the store (a "seed 0 is the default anyway" shortcut leaves a generator
        # that has already drawn numbers where it is)
        pd = rz.postdominators()
        from lib import field_stores
        st = [b for (b, e, sp) in field_stores(F, rz, "rng")]
        always = any(b == 0 or b in pd.get(0, set()) for b in st)
        ck.require(always, "C18:SEED:randomize:every-seed", "seeding", "every returning path of randomize stores the new generator",
                   "Interpreter::randomize installs the new generator only on some paths: for the seeds it filters out the sequence "
                   "continues from wherever the generator was, so equal seeds no longer give equal sequences", rz.span)
    wz = F.one("JsInterpreter::randomize", "abasic_web")
    if wz is None:
        ck.missing("C18:SEED:web", "abasic_web::JsInterpreter::randomize")
    else:
        cs = wz.calls_to("Interpreter::randomize")
        ok = len(cs) == 1 and strip_expr(wz.expr(cs[0].args[1])) == ("param", 1) and wz.local_ty(2) == "u64"
        ck.require(ok, "C18:SEED:web-forwards", "seeding", "the Web adapter forwards its u64 seed unchanged",
                   "JsInterpreter::randomize no longer forwards the 64-bit seed unchanged", wz.span)
    whole_overwrites(ck, F)
    # who else touches Interpreter.rng
    ws = E.writers_of_field("interpreter::Interpreter", "rng")
    names = sorted(ws)
    allowed = ("Interpreter::randomize", "ExpressionEvaluator::evaluate_function_call")
    ck.require(all(any(sfx(n, a) for a in allowed) for n in names), "C18:SEED:rng-writers", "seeding",
               "Interpreter.rng is touched only by randomize and the RND builtin (%s)" % names,
               "Interpreter.rng is modified in %s" % names)


def whole_overwrites(ck, F):
    """The field-wise writer rule does not see `*self = Interpreter { .. }` (or mem::replace / swap / take of the whole
    struct), which replaces the generator along with everything else: inside the core nothing may overwrite a whole
    Interpreter or a whole Rng except the constructors."""
    bad = []
    n = 0
    for body in F.bodies.values():
        if body.crate != "abasic_core":
            continue
        for b, i, pl, rv, sp in body.assigns():
            if [p["k"] for p in pl["proj"]] != ["deref"]:
                continue
            ty = body.local_ty(pl["local"])
            n += 1
            if ty.startswith("&mut abasic_core::interpreter::Interpreter") or ty.startswith("&mut abasic_core::random::Rng"):
                bad.append("%s assigns *%s" % (body.path, body.local_name(pl["local"]) or "_%d" % pl["local"]))
        for c in body.calls():
            if c.callee.split("::")[-1] in ("replace", "swap", "take") and c.callee.startswith("core::mem::") and c.args:
                a0 = c.args[0]
                if a0.get("k") in ("copy", "move"):
                    ty = a0["place"].get("ty", "")
                    if ty.startswith("&mut abasic_core::interpreter::Interpreter") or ty.startswith("&mut abasic_core::random::Rng"):
                        bad.append("%s calls %s on the whole value" % (body.path, c.callee))
    ck.require(not bad, "C18:SEED:no-whole-overwrite", "seeding",
               "no function of the core overwrites a whole Interpreter / Rng in place",
               "the generator state can be replaced wholesale, bypassing randomize(): %s" % "; ".join(bad[:3]))


def dispatch(ck, rn):
    # find `number < 0.0` and `number == 0.0` switches
    lt = eq = None
    for b in sorted(rn.reachable()):
        t = rn.term(b)
        if t["k"] != "switch":
            continue
        e = strip_expr(rn.expr(t["discr"]))
        if e[0] == "binop" and strip_expr(e[2]) == ("param", 1):
            c = strip_expr(e[3])
            if c[0] == "const" and c[1].get("float") in ("0.0", "-0.0"):
                if e[1] == "Lt":
                    lt = b
                elif e[1] == "Eq":
                    eq = b
    ck.require(lt is not None and eq is not None, "C18:DISPATCH:tests", "argument dispatch",
               "rnd() tests `number < 0.0` and `number == 0.0`", "rnd() lost one of its sign tests", rn.span)
    if lt is None or eq is None:
        return
    f_lt, t_lt = bool_switch_true_target(rn, lt)
    neg = exclusive_region(rn, t_lt)
    neg_calls = [c for c in rn.calls() if c.bb in neg and (sfx(c.callee, "Rng::random") or sfx(c.callee, "Rng::latest_random"))]
    errs = [a for a in region_aggregates(rn, neg) if a[1] == "Unimplemented"]
    # nothing that advances happens before the negative test either
    before = [c for c in rn.calls() if sfx(c.callee, "Rng::random") and not rn.dominates(f_lt, c.bb)]
    ck.require(bool(errs) and not neg_calls and not before, "C18:DISPATCH:negative", "argument dispatch",
               "negative argument -> Err(Unimplemented) with no generator call on or before that arm",
               "a negative argument no longer returns Unimplemented without touching the generator", rn.span)
    f_eq, t_eq = bool_switch_true_target(rn, eq)
    zero = exclusive_region(rn, t_eq)
    zc = [c.callee.split("::")[-1] for c in rn.calls() if c.bb in zero and not "convert" in c.callee]
    ck.require(zc == ["latest_random"], "C18:DISPATCH:zero", "argument dispatch",
               "RND(0) calls only latest_random (&self: cannot advance)",
               "the zero-argument arm calls %s" % zc, rn.span)
    pos = exclusive_region(rn, f_eq)
    pc = [c.callee.split("::")[-1] for c in rn.calls() if c.bb in pos and not "convert" in c.callee]
    in_loop = any(c.bb in blk for blk in rn.natural_loops().values() for c in rn.calls() if sfx(c.callee, "Rng::random"))
    ck.require(pc == ["random"] and not in_loop, "C18:DISPATCH:positive", "argument dispatch",
               "any other argument calls random() exactly once",
               "the positive-argument arm calls %s%s" % (pc, " inside a loop" if in_loop else ""), rn.span)
