"""C12 -- spacing and letter case outside literal text never change meaning (non-interference).

Outside the protected regions the tokenizer's decisions depend on the input only through the crunched,
upper-cased byte view:
 1. raw-byte readers are exactly the protected regions (string literal, REM text, DATA items)
 2. the cruncher returns a byte only when it is not BASIC whitespace (space / tab, not newline)
 3. keyword matching upper-cases the input byte; all keyword constants are upper-case ASCII; symbol bytes are
    upper-cased; the other matchers compare against non-alphabetic constants only
 4. every advance in the crunching matchers is a cruncher position (skipped blanks are consumed with the token)
 5. DATA: all emptiness tests on the current item look at the trimmed text; unquoted items are trimmed
"""
from lib import (sfx, get_fn, callers_of, expr_params, strip_expr, strip_refs, show, aggregates, expr_calls, expr_const_str,
                 bool_switch_true_target, exclusive_region, region_aggregates)
import tables
from props import C13

LEVEL = "other"
EXPLANATION = (
    "Information-flow argument on the tokenizer's MIR: the set of Tokenizer methods that touch the raw bytes of the "
    "line (calls of bytes()/remaining_bytes()/as_bytes on the `string` field) is computed and must equal the protected "
    "readers; every other matcher obtains bytes only from crunch_remaining_bytes(), whose iterator yields a byte only on "
    "the false arm of is_basic_whitespace; the keyword comparison is on to_ascii_uppercase(byte) against constants that "
    "are all upper-case ASCII; advances are cruncher positions.  Equal crunched views giving equal numeral values "
    "relies on str::parse::<f64>."
)
TRUSTED = ["u8::is_ascii_whitespace / to_ascii_uppercase semantics"]

TOK = "abasic_core::tokenizer::Tokenizer"
RAW_OK = {
    "bytes": "accessor", "remaining_bytes": "accessor", "crunch_remaining_bytes": "builds the cruncher",
    "chomp_leading_whitespace": "builds a cruncher to skip blanks", "chomp_string": "string literal (protected)",
    "chomp_remark": "REM text (protected)", "chomp_data": "DATA items (protected)", "next": "reads only the length",
}
CRUNCHING = ("chomp_keyword", "chomp_one_or_two_characters", "chomp_symbol", "chomp_number")


def raw_access(body):
    out = []
    for c in body.calls():
        nm = c.callee.split("::")[-1]
        if sfx(c.callee, "Tokenizer::bytes") or sfx(c.callee, "Tokenizer::remaining_bytes"):
            # asking only how many bytes there are is not reading them (`remaining_bytes().is_empty()`, `bytes().len()`)
            users = [u for u in body.calls() if u is not c and any(any(len(x) > 3 and x[3] is c for x in expr_calls(body.expr(a))) for a in u.args)]
            if users and all(u.callee.split("::")[-1] in ("len", "is_empty") for u in users):
                continue
            out.append(nm)
        elif nm in ("as_ref", "as_bytes", "as_str", "bytes", "chars", "char_indices") and c.args:
            e = show(body.expr(c.args[0]))
            if ".string" in e and "string_manager" not in e.replace(".string_manager", ""):
                out.append(nm)
            elif e.endswith(".string") or ".string." in e:
                out.append(nm)
    return out


def run(ck, F, E):
    # a string literal is a protected region that ends at the first double quote: its text is the source up to that quote, so
    # whether a blank follows the closing quote cannot matter (an escape convention that peeks at the raw byte after the quote
    # makes `"A" "B"` and `"A""B"` different programs) -- C14's rule, a necessary condition here as well
    import framework
    from props import C14
    C14.string_text_rule(framework.Rekeyed(ck, "C14", "C12:PROTECTED"), F)
    # ---- (1) raw readers
    methods = [b for b in F.bodies.values() if b.crate == "abasic_core" and
               (b.self_adt == TOK or "tokenizer::Tokenizer as" in b.path) and b.kind == "AssocFn"]
    ck.floor("C12.Tokenizer methods", len(methods), 12)
    for b in methods:
        nm = b.path.split("::")[-1]
        ra = raw_access(b)
        if nm in RAW_OK:
            ck.ok("C12:RAW:%s" % nm, "raw-byte readers", "allowed raw reader: %s" % RAW_OK[nm], "", b.span, nontrivial=bool(ra))
            continue
        ck.require(not ra, "C12:RAW:%s" % nm, "raw-byte readers",
                   "%s obtains input bytes only through the cruncher" % nm,
                   "Tokenizer::%s reads the raw bytes of the line (%s) without going through LineCruncher: blanks or "
                   "letter case at that position can now change the token sequence" % (nm, ra), b.span)
    # the crunching matchers really use the cruncher
    for nm in CRUNCHING:
        b = get_fn(ck, F, "Tokenizer::" + nm)
        if b is None:
            continue
        uses = bool(b.calls_to("Tokenizer::crunch_remaining_bytes"))
        ck.require(uses, "C12:CRUNCH:%s" % nm, "raw-byte readers", "%s iterates crunch_remaining_bytes()" % nm,
                   "%s no longer reads its input through crunch_remaining_bytes()" % nm, b.span)
    cr = get_fn(ck, F, "Tokenizer::crunch_remaining_bytes")
    if cr is not None:
        # the bytes from the cursor on: remaining_bytes(), or the same slice spelled out (`&self.bytes()[self.index..]`)
        rest = bool(cr.calls_to("Tokenizer::remaining_bytes"))
        if not rest:
            for c in cr.calls():
                if c.callee.split("::")[-1] == "index" and len(c.args) > 1:
                    r = strip_expr(cr.expr(c.args[1], depth=20))
                    if r[0] == "agg" and str(r[1]).endswith("RangeFrom") and "index" in show(r) and \
                            any(x[1].split("::")[-1] in ("bytes", "as_bytes") for x in expr_calls(cr.expr(c.args[0], depth=20))):
                        rest = True
        ck.require(bool(cr.calls_to("LineCruncher::new")) and rest,
                   "C12:CRUNCH:constructor", "raw-byte readers", "crunch_remaining_bytes = LineCruncher::new(remaining_bytes())",
                   "crunch_remaining_bytes no longer wraps the remaining bytes in a LineCruncher", cr.span)

    # ---- (2) cruncher filter
    lc = F.one("<abasic_core::line_cruncher::LineCruncher as core::iter::traits::iterator::Iterator>::next")
    if lc is None:
        ck.missing("C12:FILTER:next", "LineCruncher's Iterator::next")
    else:
        ok = False
        for c in lc.calls_to("LineCruncher::is_basic_whitespace"):
            if c.target is None:
                continue
            ft = bool_switch_true_target(lc, c.target)
            if ft is None:
                continue
            somes_false = [a for a in region_aggregates(lc, exclusive_region(lc, ft[0])) if a[1] == "Some"]
            somes_true = [a for a in region_aggregates(lc, exclusive_region(lc, ft[1])) if a[1] == "Some"]
            all_somes = [a for a in region_aggregates(lc, lc.reachable()) if a[1] == "Some" and a[0].endswith("Option")]
            if somes_false and not somes_true and len(all_somes) == len(somes_false):
                # the tested byte is the byte returned
                ok = True
        if not ok:
            # the same filter written as `bytes[index..].iter().position(|&b| !is_basic_whitespace(b))`: the byte handed out is
            # the element at the found position of that very slice, and the closure is the negated blank test
            for pc in lc.calls():
                if pc.callee.split("::")[-1] != "position":
                    continue
                clos = [F.bodies[p] for p in sorted(F.bodies) if p.startswith(lc.path + "::{closure")]
                neg_test = False
                for cb in clos:
                    tests = cb.calls_to("LineCruncher::is_basic_whitespace")
                    for (b_, i_, pl_, rv_, sp_) in cb.assigns():
                        if pl_["local"] == 0 and not pl_["proj"]:
                            e_ = strip_expr(cb.rv_expr(rv_))
                            if e_[0] == "unop" and e_[1] == "Not" and tests and any(len(x) > 3 and x[3] is tests[0] for x in expr_calls(e_)):
                                neg_test = True
                all_somes = [a for a in aggregates(lc, "core::option::Option", "Some") if a[1]["local"] == 0] if False else \
                    [(b_, i_, pl_, rv_, sp_) for (b_, i_, pl_, rv_, sp_) in aggregates(lc, "core::option::Option", "Some")]
                good = bool(all_somes)
                some_arm = None
                for sb_ in sorted(lc.reachable()):
                    info_ = lc.switch_info(sb_)
                    if info_ and info_[3] and set(info_[3].values()) == {"None", "Some"} and \
                            any(len(x) > 3 and x[3] is pc for x in expr_calls(info_[0])):
                        for v_, n_ in info_[3].items():
                            if n_ == "Some":
                                some_arm = info_[1].get(v_, info_[2])
                for (b_, i_, pl_, rv_, sp_) in all_somes:
                    # a byte is handed out only where position() found one
                    if some_arm is None or not (b_ == some_arm or lc.dominates(some_arm, b_)):
                        good = False
                if neg_test and good:
                    ok = True
        ck.require(ok, "C12:FILTER:returns-non-blank", "cruncher filter",
                   "a byte is returned only on the false arm of is_basic_whitespace(byte)",
                   "LineCruncher::next can return a blank (or returns bytes without testing them)", lc.span)
    iw = get_fn(ck, F, "LineCruncher::is_basic_whitespace")
    if iw is not None:
        calls = [c.callee.split("::")[-1] for c in iw.calls()]
        consts = []
        for b in sorted(iw.reachable()):
            for st in iw.blocks[b]["stmts"]:
                if st["k"] == "assign" and st["rv"]["k"] == "binop":
                    for o in (st["rv"]["a"], st["rv"]["b"]):
                        if o.get("k") == "const" and "int" in o:
                            consts.append((st["rv"]["op"], o["int"]))
        ok = "is_ascii_whitespace" in calls and ("Ne", 10) in consts
        if not ok:
            # spelled out as a set of bytes (`matches!(byte, b'\t' | b'\x0C' | b'\r' | b' ')`): it must be exactly the ASCII
            # whitespace characters without the line feed
            accepted = set()
            for b in sorted(iw.reachable()):
                t = iw.term(b)
                if t["k"] == "switch" and t.get("dty") == "u8":
                    for v, tgt in t["targets"]:
                        # the arm assigns `true` to the result
                        if any(st["k"] == "assign" and st["place"]["local"] == 0 and st["rv"]["k"] == "use" and st["rv"]["op"].get("int") == 1
                               for st in iw.blocks[tgt]["stmts"]) or any(
                                st["k"] == "assign" and st["rv"]["k"] == "use" and st["rv"]["op"].get("int") == 1 for st in iw.blocks[tgt]["stmts"]):
                            accepted.add(int(v))
            if accepted == {9, 12, 13, 32}:
                ok = True
                calls = calls + ["(byte set %s)" % sorted(accepted)]
        ck.require(ok, "C12:FILTER:definition", "cruncher filter",
                   "is_basic_whitespace = is_ascii_whitespace() && != '\\n' (covers space and tab)",
                   "is_basic_whitespace is no longer `is_ascii_whitespace() && byte != b'\\n'` (calls %s, tests %s)"
                   % (calls, consts), iw.span)

    # ---- (3) case
    kws = tables.all_keyword_constants(F)
    ck.floor("C12.keyword constants", len(kws), 24)
    for (kw, fn, sp) in kws:
        good = kw is not None and kw != "" and kw.isascii() and kw.isalpha() and kw == kw.upper()
        ck.require(good, "C12:CASE:keyword:%s" % kw, "case folding", "%r is non-empty upper-case ASCII" % kw,
                   "keyword constant %r (in %s) is not upper-case ASCII letters: lower/upper-case spellings would "
                   "tokenize differently" % (kw, fn), sp, nontrivial=False)
    ckw = get_fn(ck, F, "Tokenizer::chomp_keyword")
    if ckw is not None:
        ok = False
        for b in sorted(ckw.reachable()):
            t = ckw.term(b)
            if t["k"] != "switch":
                continue
            e = strip_expr(ckw.expr(t["discr"]))
            if e[0] == "binop" and e[1] in ("Eq", "Ne"):
                l, r = strip_expr(e[2]), strip_expr(e[3])
                for x, y in ((l, r), (r, l)):
                    if x[0] == "call" and x[1].endswith("to_ascii_uppercase") and "next" in show(x) and \
                            "as_bytes" in show(y) and 1 in expr_params(y):
                        ok = True
        ck.require(ok, "C12:CASE:keyword-compare", "case folding",
                   "chomp_keyword compares to_ascii_uppercase(crunched byte) with the keyword byte",
                   "chomp_keyword no longer upper-cases the input byte before comparing it with the keyword", ckw.span)
    cs = get_fn(ck, F, "Tokenizer::chomp_symbol")
    if cs is not None:
        # the name is accumulated byte by byte (Vec<u8>) or char by char (String): either way from the upper-cased byte
        pushes = [c for c in cs.calls() if c.callee.endswith("Vec::push") or c.callee.endswith("String::push")]
        ok = bool(pushes) and all("to_ascii_uppercase" in show(cs.expr(c.args[1])) for c in pushes)
        ck.require(ok, "C12:CASE:symbol-upper", "case folding", "symbol bytes are pushed upper-cased",
                   "chomp_symbol stores identifier bytes without upper-casing them", cs.span)
    # the other matchers compare against non-alphabetic constants only
    for nm in ("chomp_one_or_two_characters", "chomp_number"):
        b = F.one("Tokenizer::" + nm)
        if b is None:
            continue
        bad = []
        for bb in sorted(b.reachable()):
            t = b.term(bb)
            if t["k"] == "switch" and t.get("dty") == "u8":
                for v, _t in t["targets"]:
                    if chr(int(v)).isalpha():
                        bad.append(chr(int(v)))
            for st in b.blocks[bb]["stmts"]:
                if st["k"] == "assign" and st["rv"]["k"] == "binop" and st["rv"]["op"] in ("Eq", "Ne"):
                    for o in (st["rv"]["a"], st["rv"]["b"]):
                        if o.get("k") == "const" and o.get("ty") == "u8" and chr(o["int"]).isalpha():
                            bad.append(chr(o["int"]))
        ck.require(not bad, "C12:CASE:%s" % nm, "case folding", "%s compares only against non-alphabetic bytes" % nm,
                   "%s compares the input with letter constants %s without case folding" % (nm, bad), b.span)

    # ---- (4) advances are cruncher positions
    for nm in CRUNCHING:
        b = F.one("Tokenizer::" + nm)
        if b is None:
            continue
        k = 0
        for bb, i, pl, rv, sp in b.assigns():
            if not C13.is_index_place(pl):
                continue
            adv = C13.split_add(b.rv_expr(rv))
            if adv is None:
                continue  # restore in chomp_symbol (C13)
            k += 1
            desc = C13.classify_advance(F, b, adv)
            ck.require(desc is not None and "cruncher position" in desc, "C12:ADVANCE:%s#%d" % (nm, k), "advance by crunched position",
                       "index += cruncher position", "%s advances the cursor by %s, not by the cruncher-reported position: "
                       "blanks inside the token would be left behind" % (nm, show(adv)), sp)

    # ---- (4b) cruncher positions (how many raw bytes a crunched byte stands for) never decide anything
    n_pos = 0
    for b in methods:
        nm = b.path.split("::")[-1]
        if nm in ("chomp_string", "chomp_remark", "chomp_data"):
            continue
        tainted, uses = position_decisions(b)
        n_pos += len(tainted)
        ck.require(not uses, "C12:POSITION:%s" % nm, "positions are not decisions",
                   "%d position values of the cruncher flow only into cursor arithmetic in %s" % (len(tainted), nm),
                   "Tokenizer::%s branches on a cruncher position (the number of raw bytes, blanks included, behind a "
                   "crunched byte): %s -- inserting or deleting blanks there changes the token sequence" %
                   (nm, "; ".join(uses[:3])), b.span, nontrivial=bool(tainted))
    ck.floor("C12.cruncher position values tracked", n_pos, 20)

    # ---- (5) DATA blanks
    data_rules(ck, F, "C12")


def position_decisions(body):
    """Locals holding the usize component of a LineCruncher item (or LineCruncher::pos()), closed under copies and
    +/-; -> (tainted locals, [description of each switch / comparison that looks at one])."""
    def is_pos_place(pl):
        pr = pl["proj"]
        return (len(pr) >= 2 and pr[-1].get("k") == "field" and pr[-1].get("i") == 1 and pr[-1].get("adt") == "(tuple)"
                and pr[-2].get("ty") == "(u8, usize)")
    tainted = set()
    for c in body.calls():
        if c.callee.endswith("LineCruncher::pos") and not c.dest["proj"]:
            tainted.add(c.dest["local"])
    changed = True
    def op_t(o):
        if o.get("k") not in ("copy", "move"):
            return False
        pl = o["place"]
        return is_pos_place(pl) or (pl["local"] in tainted and body.local_ty(pl["local"]) in ("usize", "(usize, bool)"))
    while changed:
        changed = False
        for bb, i, pl, rv, sp in body.assigns():
            if pl["proj"] or pl["local"] in tainted:
                continue
            t = False
            if rv["k"] == "use":
                t = op_t(rv["op"])
            elif rv["k"] == "binop" and rv["op"] in ("Add", "Sub", "AddWithOverflow", "SubWithOverflow"):
                t = op_t(rv["a"]) or op_t(rv["b"])
            if t and body.local_ty(pl["local"]) in ("usize", "(usize, bool)"):
                tainted.add(pl["local"])
                changed = True
    uses = []
    for bb in sorted(body.reachable()):
        t = body.term(bb)
        if t["k"] == "switch" and op_t(t["discr"]):
            uses.append("match/if on a position at %s:%s" % (t.get("span", {}).get("file", ""), t.get("span", {}).get("line", "")))
        for st in body.blocks[bb]["stmts"]:
            if st["k"] == "assign" and st["rv"]["k"] == "binop" and st["rv"]["op"] in ("Eq", "Ne", "Lt", "Le", "Gt", "Ge"):
                if op_t(st["rv"]["a"]) or op_t(st["rv"]["b"]):
                    sp = st.get("span") or {}
                    uses.append("comparison %s on a position at line %s" % (st["rv"]["op"], sp.get("line", "?")))
    return tainted, uses


def data_rules(ck, F, P):
    tests = []
    # every method of the DATA parser (parse_char, finish, push_current_element and whatever helpers they are split into)
    methods = sorted(p for p, b_ in F.bodies.items() if b_.crate == "abasic_core" and b_.self_adt == "abasic_core::data::DataParser")
    if not methods:
        ck.missing("%s:DATA:methods" % P, "methods of data::DataParser")
    for mp_ in methods:
        b = F.bodies[mp_]
        fn = "DataParser::" + mp_.split("::")[-1]
        for c in b.calls():
            nm = c.callee.split("::")[-1]
            if nm in ("is_empty", "len") and c.args:
                e = show(b.expr(c.args[0]))
                if "current_element" in e:
                    tests.append((fn, nm, "trim" in e, c.span))
    ck.floor("%s.emptiness tests on DataParser.current_element" % P, len(tests), 3)
    raw = [t for t in tests if not t[2]]
    for (fn, nm, trimmed, sp) in tests:
        ck.require(trimmed, "%s:DATA-EMPTY:data::%s" % (P, fn), "DATA emptiness tests",
                   "%s tests the trimmed text" % fn.split("::")[-1],
                   "%s tests the raw (untrimmed) text of the current DATA item for emptiness while its siblings test the "
                   "trimmed text: blanks before a ',' / ':' / closing position change the item list (`DATA \"a\" :` yields an "
                   "extra empty item)" % fn, sp)
    pe = F.one("DataParser::push_current_element")
    if pe is not None:
        calls = [c.callee.split("::")[-1] for c in pe.calls()]
        ck.require("trim" in calls, "%s:DATA:unquoted-trimmed" % P, "DATA emptiness tests",
                   "unquoted items are trimmed before classification", "push_current_element no longer trims unquoted items",
                   pe.span)
