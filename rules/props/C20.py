"""C20 -- the language server survives any document and reports in-bounds positions.

 1. liveness = panic-freedom of everything reachable from main_loop (C05's set + the server's own sites;
    request-decoding panics are outside the property's quantifier and exempt by name)
 2. units: values flowing into Position.character / SemanticToken.delta_start / length must pass through
    a UTF-8 -> UTF-16 conversion that consults the line text
 3. legend: abasic_token_type_to_lsp_token_type is total and injective into 0..TOKEN_TYPES.len()
 4. nothing is filtered: every message is visited; both handlers analyse the text they were sent
"""
from lib import (sfx, get_fn, callers_of, strip_expr, strip_refs, show, aggregates, expr_calls, expr_params)
import panics
import vetted

LEVEL = "other"
EXPLANATION = (
    "Panic-site inventory from main_loop over the server and the analyzer it calls (same engine as C01/C05), a "
    "provenance rule on the operands of Position::new and of the SemanticToken aggregate (byte offsets from "
    "map_to_source()/token_types() reaching them through casts only are a units violation), and table extraction of "
    "the legend mapping.  JSON-RPC framing and the lsp-server crate's threads are outside the claim."
)
TRUSTED = ["lsp-server / lsp-types / serde_json crates"]

EXEMPT = ("abasic_lsp::cast_request", "abasic_lsp::cast_notification")


def run(ck, F, E):
    ml = F.one("main_loop", "abasic_lsp")
    if ml is None:
        ck.missing("C20:main_loop", "abasic_lsp::main_loop")
        return
    rows = dict(vetted.ROWS)
    rows["abasic_lsp::main_loop|unwrap|unwrap|of:from_value"] = {
        "inv": "EXEMPT", "why": "decoding InitializeParams: malformed client messages are outside the property's quantifier",
        "check": None}
    from props.C05 import analyzer_deps
    # malformed parameters of a client message are outside the property's quantifier ("arbitrary document text", not arbitrary
    # JSON): a function of the server is exempt when all it can panic on is the JsonError arm of an ExtractError it matches
    exempt = list(EXEMPT)
    for p, b in F.bodies.items():
        if b.crate != "abasic_lsp" or "{closure" in p:
            continue
        arms = []
        for bb in sorted(b.reachable()):
            info = b.switch_info(bb)
            if info and info[3] and "JsonError" in info[3].values():
                arms += [info[1].get(v, info[2]) for v, n in info[3].items() if n == "JsonError"]
        pcs = [c for c in b.calls() if "panicking" in c.callee and c.target is None]
        if arms and pcs and all(any(a is not None and (a == c.bb or b.dominates(a, c.bb)) for a in arms) for c in pcs):
            exempt.append(p)
    G, seen, T = panics.panic_freedom(ck, F, E, "C20", [ml.path], rows, analyzer_deps(), exempt_fns=tuple(exempt), floor_sites=40)
    panics.recursion_rule(ck, F, G, seen, "C20")
    units(ck, F)
    delta_encoding(ck, F)
    legend(ck, F)
    unfiltered(ck, F, ml)
    converters_total(ck, F)
    stays_in_loop(ck, F, ml)
    analysis_stored(ck, F, ml)
    converter_predicate(ck, F)
    token_length_rule(ck, F)
    answers_sent(ck, F, ml)
    table_keyed_by_whole_uri(ck, F)
    every_notification_analysed(ck, F, ml)


def converter_predicate(ck, F):
    """A column is the number of UTF-16 units of the characters that lie strictly BEFORE the byte offset.  Where a converter
    selects those characters with take_while / filter over char_indices(), the predicate is `index < offset` (or the same
    test spelled `offset > index`): `<=` counts the character AT the offset too (columns one past the end of the line), a
    reversed test counts nothing."""
    n = 0
    for body in F.bodies.values():
        if body.crate != "abasic_lsp" or body.kind not in ("Fn", "AssocFn") or body.local_ty(0) != "u32":
            continue
        for c in body.calls():
            if c.callee.split("::")[-1] not in ("take_while", "filter", "skip_while") or len(c.args) < 2:
                continue
            src = [x[1].split("::")[-1] for x in expr_calls(body.expr(c.args[0]))]
            if "char_indices" not in src:
                continue
            cl = strip_expr(body.expr(c.args[1]))
            cb = F.bodies.get(cl[1]) if cl[0] == "agg" else None
            if cb is None:
                continue
            n += 1
            r = strip_expr(cb.binding_expr(0))

            def side(e):
                e = strip_expr(e)
                txt = repr(e)
                if "'(closure" in txt:
                    return "offset"
                if "('param', 1)" in txt and "'(tuple)', '0'" in txt:
                    return "index"
                return "?"
            ok = r[0] == "binop" and ((r[1] == "Lt" and side(r[2]) == "index" and side(r[3]) == "offset") or
                                      (r[1] == "Gt" and side(r[2]) == "offset" and side(r[3]) == "index"))
            if c.callee.split("::")[-1] == "skip_while":
                ok = True       # a different construction: not decided here
            ck.require(ok, "C20:UTF16:counts-strictly-before:%s" % body.path.split("::")[-1], "position units",
                       "the characters counted are those with index < offset",
                       "%s selects the characters to count with `%s`, not `index < offset`: columns are off by the character at "
                       "the offset (past the end of the line for a range that ends there) or count nothing" %
                       (body.path, show(r)[:60]), c.span)
    return n


def token_length_rule(ck, F):
    """SemanticToken.length is column(range.end) - column(range.start) of the same token range."""
    from lib import expr_has_field
    st = F.one("get_semantic_tokens", "abasic_lsp")
    if st is None:
        return
    for (bb, i, pl, rv, sp) in aggregates(st, "SemanticToken"):
        names = rv.get("fields", [])
        if "length" not in names:
            continue
        e = strip_expr(st.expr(rv["ops"][names.index("length")]))
        if e[0] == "place" and isinstance(e[1], tuple) and e[1][0] == "binop":
            e = e[1]
        ok = e[0] == "binop" and e[1] in ("Sub", "SubWithOverflow") and expr_has_field(e[2], "end") and expr_has_field(e[3], "start") \
            and not expr_has_field(e[2], "start") and not expr_has_field(e[3], "end")
        if e[0] == "call" and e[1].split("::")[-1] in ("saturating_sub", "wrapping_sub", "checked_sub") and len(e[2]) == 2:
            ok = expr_has_field(e[2][0], "end") and expr_has_field(e[2][1], "start")
        ck.require(ok, "C20:DELTA:length", "delta encoding", "length = column(range.end) - column(range.start)",
                   "SemanticToken.length is computed as %s, not as the end column minus the start column of the token's range: "
                   "tokens overlap their successors or reach past the end of the line" % show(e)[:100], sp)


def stays_in_loop(ck, F, ml):
    """"the language server stays alive and answers each": the message loop of main_loop is left only when the client's channel
    is closed (the receiver yields nothing more), on the shutdown request, or by propagating a transport error with `?`.  Every
    edge out of the loop is classified by the switch it hangs on; a handler arm that `break`s (or returns) after answering ends
    the server after its first message of that kind."""
    loops = ml.natural_loops()
    if not loops:
        ck.missing("C20:ALIVE:loop-exits", "the message loop of main_loop")
        return
    h = max(loops, key=lambda k: len(loops[k]))
    L = loops[h]
    bad = []
    n = 0
    for u in sorted(L):
        if ml.is_cleanup(u):
            continue
        for v in ml.succs(u):
            if v in L or ml.is_cleanup(v) or ml.term(v)["k"] == "unreachable":
                continue
            n += 1
            info = ml.switch_info(u) if ml.term(u)["k"] == "switch" else None
            if info is None:
                bad.append("a plain jump out of the loop (break / return after handling a message)")
                continue
            subject, targets, otherwise, names = info
            txt = show(subject)
            cn = [x[1].split("::")[-1] for x in expr_calls(subject)]
            arm = None
            for val, tg in targets.items():
                if tg == v:
                    arm = names.get(val, val) if names else val
            if arm is None and names:
                rest = [nm for val, nm in names.items() if val not in targets]
                arm = rest[0] if len(rest) == 1 else tuple(rest)
            if names and arm == "Break" and "branch" in cn:
                continue                                  # `?`: transport error
            if names and arm in ("None", "Err") and ".receiver" in txt and cn[:1] and cn[0] in ("next", "recv", "try_recv", "recv_timeout"):
                continue                                  # channel closed
            if "handle_shutdown" in cn:
                continue                                  # shutdown request
            bad.append("an exit on %s = %s" % (txt[:70], arm))
    ck.floor("C20.exits of the message loop", n, 3)
    ck.require(not bad, "C20:ALIVE:loop-exits", "stays alive",
               "%d exits of the message loop: channel closed, shutdown request, or a propagated transport error" % n,
               "main_loop leaves its message loop other than on channel close / shutdown / transport error (%s): the server stops "
               "answering after such a message" % "; ".join(sorted(set(bad))), ml.span)


def analysis_stored(ck, F, ml):
    """Semantic tokens are answered from the document table, so every analysis of an opened / changed text must reach the table
    (`insert` under the notification's URI on every path that goes on), or later token requests are answered from an older text
    -- positions outside the current document."""
    k = 0
    for (hb, c) in analysis_sites(F):
        k += 1
        pd = hb.postdominators()
        ins = [x for x in hb.calls() if x.callee.split("::")[-1] == "insert" and "HashMap" in x.callee and
               any(len(y) > 3 and y[3] is c for a in x.args for y in expr_calls(hb.expr(a, depth=30)))]
        # an insert that every continuing path passes: it post-dominates the analysis, up to error exits
        ok = any(x.bb in pd.get(c.bb, set()) or hb.dominates(c.bb, x.bb) and
                 not [r for r in hb.blocks_reachable_from(c.target or c.bb, avoid={x.bb}) if r in loops_header(hb)] for x in ins)
        ck.require(ok, "C20:DIAG:analysis-stored#%d" % k, "nothing filtered",
                   "the analysis is inserted into the document table before the loop goes on",
                   "main_loop analyses a text without storing the analysis in the document table (on some path): semantic tokens "
                   "for that document keep coming from an older text", c.span)


def analysis_sites(F):
    """(body, call) for every SourceFileAnalyzer::analyze call of the server -- in main_loop or in a handler it delegates to"""
    return [(b, c) for p, b in sorted(F.bodies.items()) if b.crate == "abasic_lsp" for c in b.calls_to("SourceFileAnalyzer::analyze")]


def text_sources(F, hb, c):
    """Where the analysed text comes from: the argument expression, followed through one level of helper parameter."""
    e = strip_expr(hb.expr(c.args[0], depth=30))
    if e[0] == "param" and not hb.path.endswith("::main_loop"):
        out = []
        for cb in F.bodies.values():
            if cb.crate != "abasic_lsp":
                continue
            for cc in cb.calls():
                if cc.callee == hb.path and e[1] < len(cc.args):
                    out.append((cb, cc, cc.args[e[1]]))
        return out
    return [(hb, c, c.args[0])]


def answers_sent(ck, F, ml):
    """"answers each with diagnostics for the latest text": every analysis in main_loop is followed, on every path that goes on,
    by a send_notification whose parameters carry analyze_source_file(<that analysis>); and send_notification really hands the
    notification it builds to the connection's sender."""
    k = 0
    for (hb, c) in analysis_sites(F):
        k += 1
        ok = False
        pd = hb.postdominators()
        def sends(path, depth=0):
            if "send_notification" in path:
                return True
            cb = F.bodies.get(path)
            if cb is None or cb.crate != "abasic_lsp" or depth >= 2:
                return False
            cpd = cb.postdominators().get(0, set()) | {0}
            return any(y.bb in cpd and (sends(y.callee, depth + 1) or y.callee.split("::")[-1] == "send" and "Sender" in y.callee)
                       for y in cb.calls())
        for x in hb.calls():
            if not sends(x.callee) or not (x.bb in pd.get(c.bb, set()) or hb.dominates(c.bb, x.bb)):
                continue
            for a in x.args:
                e = hb.expr(a, depth=30)
                az = [y for y in expr_calls(e) if y[1].endswith("analyze_source_file")]
                if az and any(len(z) > 3 and z[3] is c for y in az for z in expr_calls(y[2][0])):
                    if x.bb in pd.get(c.bb, set()):
                        ok = True
        ck.require(ok, "C20:ANSWER:publish-after-analysis#%d" % k, "stays alive",
                   "the analysis is followed on every path by send_notification(.. analyze_source_file(&analysis) ..)",
                   "main_loop analyses a text without publishing the diagnostics of that analysis (on some path): an open / change "
                   "notification goes unanswered, or is answered with the diagnostics of another text", c.span)
    n = 0
    for p, b in sorted(F.bodies.items()):
        if b.crate != "abasic_lsp" or not p.split("::")[-1].startswith("send_notification") and "::send_notification" not in p:
            continue
        if "{closure" in p:
            continue
        n += 1
        bpd = b.postdominators().get(0, set()) | {0}
        sends = [c for c in b.calls() if c.callee.split("::")[-1] in ("send", "send_timeout", "try_send") and c.bb in bpd and
                 expr_params(b.expr(c.args[1], depth=30)) >= {1}]
        ck.require(bool(sends), "C20:ANSWER:send_notification-sends", "stays alive",
                   "send_notification passes the notification built from its parameters to Sender::send on every path",
                   "%s no longer sends the notification it builds (on every path): diagnostics are computed but never reach the client" % p,
                   b.span)
    ck.floor("C20.send_notification bodies", n, 1)


def every_notification_analysed(ck, F, ml):
    """"answers each with diagnostics for the latest text": whether an open / change notification is analysed depends on nothing
    but its being one (the cast matched, it carries a change): no further condition -- a version filter, a table lookup -- may
    decide to skip it."""
    from lib import controlling_switches
    ALLOWED = {"cast_notification", "cast_request", "next", "last", "branch", "handle_shutdown", "into_iter", "pop", "next_back",
               "iter", "recv", "deref", "as_ref"}
    bad = []
    n = 0
    for (hb, c) in analysis_sites(F):
        sites = [(hb, c.bb)]
        if not hb.path.endswith("::main_loop"):
            sites += [(cb, cc.bb) for cb in F.bodies.values() if cb.crate == "abasic_lsp" for cc in cb.calls() if cc.callee == hb.path]
        for (b, bb) in sites:
            for (sb, subj, names) in controlling_switches(b, bb):
                n += 1
                cn = {x[1].split("::")[-1] for x in expr_calls(subj)}
                e = strip_expr(subj)
                if e[0] == "discr":
                    e = strip_expr(e[1])
                cmp_ = e[0] == "binop" and e[1] in ("Lt", "Le", "Gt", "Ge", "Eq", "Ne")
                if (cn - ALLOWED) or cmp_:
                    bad.append(show(subj)[:80])
    ck.require(n > 0 and not bad, "C20:ANSWER:every-notification-is-analysed", "stays alive",
               "the analysis of an opened / changed text is conditioned only on the notification's kind and on its carrying a change",
               "whether main_loop analyses an open / change notification also depends on %s: some notifications are dropped without "
               "diagnostics for the latest text" % "; ".join(sorted(set(bad))), ml.span)


def table_keyed_by_whole_uri(ck, F):
    """Tokens for a document are answered from the table entry of THAT document: the table is keyed by the document's whole URI
    (`uri.to_string()`), not by a part of it -- keyed by `uri.path()`, `file:///a.bas` and `git:/a.bas?ref=HEAD` share an entry
    and one is answered with the other's text."""
    IDENT = {"to_string", "as_str", "clone", "into", "from", "as_ref", "deref", "borrow", "to_owned", "cast_request", "cast_notification",
             "next", "into_iter", "last", "iter", "fmt", "format", "must_use", "new", "new_display", "unwrap", "branch"}
    n = 0
    bad = []
    for p, b in sorted(F.bodies.items()):
        if b.crate != "abasic_lsp":
            continue
        for c in b.calls():
            nm = c.callee.split("::")[-1]
            if nm not in ("insert", "get", "remove", "get_mut", "contains_key", "entry") or "HashMap" not in c.callee or len(c.args) < 2:
                continue
            if "SourceFileAnalyzer" not in " ".join(c.gargs) + str(b.local_ty(c.dest["local"])) + str(c.args[0].get("place", {}).get("ty", "")):
                continue
            e = b.expr(c.args[1], depth=30)
            if "uri" not in show(e) and "uri" not in repr(e):
                continue
            n += 1
            parts = []
            for x in expr_calls(e):
                xn = x[1].split("::")[-1]
                hb = F.bodies.get(x[1])
                if hb is not None and hb.crate == "abasic_lsp" and xn not in IDENT:
                    parts += [y.callee.split("::")[-1] for y in hb.calls() if y.callee.split("::")[-1] not in IDENT]
                elif xn not in IDENT:
                    parts.append(xn)
            if parts:
                bad.append("%s(%s)" % (nm, ",".join(sorted(set(parts)))))
    ck.floor("C20.document-table accesses keyed by a URI", n, 1)
    ck.require(not bad, "C20:DIAG:table-keyed-by-the-whole-uri", "nothing filtered",
               "%d table accesses, each keyed by the URI's full text" % n,
               "the document table is keyed by a part or a transformation of the URI (%s): two documents whose URIs agree in that part "
               "share an entry, and a token request for one is answered from the other's text" % "; ".join(sorted(set(bad))))


def loops_header(ml):
    loops = ml.natural_loops()
    return {max(loops, key=lambda k: len(loops[k]))} if loops else set()


def only_casts_of_bytes(body, e):
    """Does the expression reach a byte offset (range.start/.end/len of a token range) through casts / arithmetic
    only, i.e. without any call that could consult the line text?"""
    s = strip_expr(e)
    if s[0] == "cast":
        return only_casts_of_bytes(body, s[2])
    if s[0] == "place":
        # .start / .end of a Range, or a tuple component of an iterator item
        return any(f[1] in ("start", "end") for f in s[2]) or only_casts_of_bytes(body, s[1])
    if s[0] == "binop":
        return only_casts_of_bytes(body, s[2]) or only_casts_of_bytes(body, s[3])
    if s[0] == "call":
        nm = s[1].split("::")[-1]
        if nm in ("len",) and "Range" in s[1] or nm == "len" and "ExactSizeIterator" in s[1]:
            return True
        if nm in ("branch", "next", "into_iter", "iter", "enumerate"):
            return only_casts_of_bytes(body, s[2][0]) if s[2] else False
        return False
    if s[0] == "local":
        # user variable: any definition
        for d in body.defs().get(s[1], []):
            if d[0] in ("assign", "partial") and only_casts_of_bytes(body, body.rv_expr(d[3])):
                return True
        return False
    return False


def units(ck, F):
    az = F.one("analyze_source_file", "abasic_lsp")
    if az is None:
        ck.missing("C20:UTF16:analyze_source_file", "abasic_lsp::analyze_source_file")
    else:
        from lib import with_closures
        pos = [(b, c) for b in with_closures(F, az) for c in b.calls() if c.callee.endswith("Position::new")]
        ck.floor("C20.Position::new sites", len(pos), 1)
        bad = [c for (b, c) in pos if only_casts_of_bytes(b, b.expr(c.args[1]))]
        ck.require(not bad, "C20:UTF16:analyze_source_file", "position units",
                   "diagnostic columns pass through a conversion that consults the line text",
                   "Position.character is a UTF-8 byte offset copied from map_to_source() (%s): on a line with non-ASCII "
                   "text before the token the column lies beyond the UTF-16 length of the line (`10 PRINT \"é\" + 1` -> "
                   "columns 16-17 on a 16-column line)" % show(az.expr(bad[0].args[1])) if bad else "",
                   bad[0].span if bad else az.span)
    st = F.one("get_semantic_tokens", "abasic_lsp")
    if st is None:
        ck.missing("C20:UTF16:get_semantic_tokens", "abasic_lsp::get_semantic_tokens")
    else:
        aggs = list(aggregates(st, "SemanticToken"))
        ck.floor("C20.SemanticToken construction sites", len(aggs), 1)
        bad = []
        for b, i, pl, rv, sp in aggs:
            names = rv.get("fields", [])
            for fname in ("delta_start", "length"):
                if fname in names:
                    e = st.expr(rv["ops"][names.index(fname)])
                    if only_casts_of_bytes(st, e):
                        bad.append((fname, e, sp))
        ck.require(not bad, "C20:UTF16:get_semantic_tokens", "position units",
                   "semantic token columns/lengths pass through a conversion that consults the line text",
                   "SemanticToken.%s is computed from UTF-8 byte offsets of token_types() by casts and subtraction only: "
                   "wrong for any line with non-ASCII text" % (bad[0][0] if bad else ""), bad[0][2] if bad else st.span)


def converters_total(ck, F):
    """The server announces no positionEncoding, so UTF-16 is the only agreed unit for every client.  The functions of the
    server that turn a byte offset into a column (u32 result, a &str and a usize among the parameters) must do so on every
    path: each value they return is computed by walking the characters of the line -- no early return of the (clamped) byte
    offset under some client- or input-dependent condition."""
    n = 0
    for body in F.bodies.values():
        if body.crate != "abasic_lsp" or body.kind not in ("Fn", "AssocFn") or body.local_ty(0) != "u32":
            continue
        ptys = [body.local_ty(i + 1) for i in range(body.arg_count)]
        if not (any(t in ("&str", "&alloc::string::String") for t in ptys) and "usize" in ptys):
            continue
        n += 1
        bad = []
        defs = body.defs().get(0, [])
        for d in defs:
            if d[0] in ("assign", "partial"):
                e = body.rv_expr(d[3])
            elif d[0] in ("call", "partial-call"):
                c = d[2]
                e = ("call", c.callee, [body.expr(a) for a in c.args], c)
            else:
                continue
            from lib import call_names_deep
            names = call_names_deep(body, e)       # also through an accumulator local built up in a loop
            if not any(x in ("char_indices", "chars", "encode_utf16", "len_utf16") for x in names):
                bad.append(show(e)[:80])
        ck.require(bool(defs) and not bad, "C20:UTF16:converter-total:%s" % body.path.split("::")[-1], "position units",
                   "every value %s returns is computed by walking the characters of the line" % body.path.split("::")[-1],
                   "%s can return a column that is not derived from the characters of the line (%s): clients were promised "
                   "UTF-16 columns (no positionEncoding is announced), whatever encodings they list" % (body.path, bad), body.span)
    ck.floor("C20.byte-offset-to-column converters", n, 1)


def delta_encoding(ck, F):
    """delta_line / delta_start are differences to the previously *emitted* token: the `prev_*` variables must be
    updated in the same (innermost) loop iteration that pushes the token, from the values they are subtracted from."""
    st = F.one("get_semantic_tokens", "abasic_lsp")
    if st is None:
        return
    pushes = [c for c in st.calls() if c.callee.endswith("Vec::push") and "SemanticToken" in c.args[1]["place"].get("ty", "")]
    loops = st.natural_loops()
    if len(pushes) != 1 or not loops:
        ck.missing("C20:DELTA:push", "the single SemanticToken push inside the token loop")
        return
    pb = pushes[0].bb
    inner = None
    for h, blk in loops.items():
        if pb in blk and (inner is None or len(blk) < len(loops[inner])):
            inner = h
    iblk = loops[inner]
    aggs = list(aggregates(st, "SemanticToken"))
    names = aggs[0][3].get("fields", []) if aggs else []
    for fname, what in (("delta_line", "line"), ("delta_start", "start")):
        if fname not in names:
            ck.missing("C20:DELTA:%s" % fname, "SemanticToken.%s" % fname)
            continue
        op = aggs[0][3]["ops"][names.index(fname)]
        # follow copies to the Sub
        l = op["place"]["local"] if op.get("k") in ("copy", "move") else None
        sub = None
        for _ in range(6):
            d = st.unique_def(l) if l is not None else None
            if d is None or d[0] != "assign":
                break
            rv = d[3]
            if rv["k"] in ("use", "cast") and rv["op"].get("k") in ("copy", "move"):
                pl = rv["op"]["place"]
                if pl["proj"] and pl["proj"][-1].get("k") == "field" and not pl["proj"][:-1]:
                    l2 = pl["local"]
                    d2 = st.unique_def(l2)
                    if d2 and d2[0] == "assign" and d2[3]["k"] == "binop" and d2[3]["op"] == "SubWithOverflow":
                        sub = (d2[1], d2[3])
                        break
                l = pl["local"]
                continue
            if rv["k"] == "binop" and rv["op"] in ("Sub", "SubWithOverflow"):
                sub = (d[1], rv)
                break
            break
        ok = False
        why = "no subtraction found behind %s" % fname
        if sub is not None:
            sb, rv = sub
            prev = rv["b"]["place"]["local"] if rv["b"].get("k") in ("copy", "move") else None
            # follow one copy (`_38 = copy _3`)
            for _ in range(3):
                d = st.unique_def(prev) if prev is not None else None
                if d and d[0] == "assign" and d[3]["k"] == "use" and d[3]["op"].get("k") in ("copy", "move") and not d[3]["op"]["place"]["proj"]:
                    prev = d[3]["op"]["place"]["local"]
                else:
                    break
            in_loop = sb in iblk
            writes = [d for d in st.defs().get(prev, []) if d[0] == "assign"]
            resets = [d for d in writes if d[3]["k"] == "use" and d[3]["op"].get("k") == "const"]
            updates = [d for d in writes if d not in resets]
            upd_in = bool(updates) and all(d[1] in iblk for d in updates)
            resets_out = all(d[1] not in iblk for d in resets)
            ok = in_loop and upd_in and resets_out
            why = "subtraction in token loop=%s, prev updated only in token loop=%s, resets outside=%s" % (in_loop, upd_in, resets_out)
        ck.require(ok, "C20:DELTA:%s" % fname, "delta encoding",
                   "%s = current %s - previous token's %s, with the previous value updated per emitted token" % (fname, what, what),
                   "SemanticToken.%s is not the difference to the previously emitted token (%s): tokens after a line without tokens "
                   "(blank or unnumbered) are reported on the wrong line" % (fname, why), st.span)


def legend(ck, F):
    fn = F.one("abasic_token_type_to_lsp_token_type", "abasic_lsp")
    if fn is None:
        ck.missing("C20:LEGEND", "abasic_token_type_to_lsp_token_type")
        return
    tt = F.adt("analyzer::token_type::TokenType")
    variants = [v["name"] for v in tt["variants"]] if tt else []
    table = {}
    for b in sorted(fn.reachable()):
        info = fn.switch_info(b)
        if not info or not info[3]:
            continue
        subject, targets, otherwise, names = info
        for v, n in names.items():
            t = targets.get(v, otherwise)
            if fn.term(t)["k"] == "unreachable":
                continue
            for st in fn.blocks[t]["stmts"]:
                if st["k"] == "assign" and st["place"]["local"] == 0 and st["rv"]["k"] == "use" and "int" in st["rv"]["op"]:
                    table[n] = st["rv"]["op"]["int"]
    if not table and variants:
        # `token_type as u32`: the legend index is the variant's discriminant, i.e. (no explicit discriminants on a field-less
        # enum declared in this order) its position in the declaration
        for (bb, i, pl, rv, sp) in fn.assigns():
            if pl["local"] == 0 and not pl["proj"] and rv["k"] == "cast":
                src = strip_expr(fn.expr(rv["op"]))
                while src[0] in ("place", "discr") and src != ("param", 0):
                    src = strip_expr(src[1])
                if src == ("param", 0) and all(not v.get("fields") for v in tt["variants"]) and \
                        all(v.get("discr", idx) == idx for idx, v in enumerate(tt["variants"])):
                    table = {v["name"]: idx for idx, v in enumerate(tt["variants"])}
    # TOKEN_TYPES length: the array type in the const's type string
    n_legend = None
    for k, c in F.consts.items():
        if k.endswith("abasic_lsp::TOKEN_TYPES"):
            import re
            m = re.search(r";\s*(\d+)\]", c["ty"])
            if m:
                n_legend = int(m.group(1))
    ck.note("legend_table", table)
    ck.require(n_legend is not None, "C20:LEGEND:size", "legend", "TOKEN_TYPES has %s entries" % n_legend,
               "the size of TOKEN_TYPES could not be read")
    ck.require(sorted(table) == sorted(variants) and len(variants) >= 8, "C20:LEGEND:total", "legend",
               "every TokenType variant has an index (%d)" % len(table),
               "legend mapping covers %s, TokenType has %s" % (sorted(table), sorted(variants)), fn.span)
    vals = list(table.values())
    ck.require(len(set(vals)) == len(vals), "C20:LEGEND:injective", "legend", "indices are pairwise distinct",
               "two token classes share a legend index: %s" % table, fn.span)
    if n_legend is not None:
        ck.require(all(0 <= v < n_legend for v in vals), "C20:LEGEND:in-range", "legend",
                   "all indices < TOKEN_TYPES.len() = %d" % n_legend,
                   "a legend index is out of range of the advertised legend: %s" % table, fn.span)
    # the advertised legend is TOKEN_TYPES
    hc = F.one("handle_one_connection", "abasic_lsp")
    if hc is not None:
        # the capabilities literal may sit in handle_one_connection or in a helper of the server it calls
        from lib import deep_calls
        hosts = [hc] + [F.bodies[c.callee] for (_o, c) in deep_calls(F, hc, lambda p: p in F.bodies and F.bodies[p].crate == "abasic_lsp")
                        if c.callee in F.bodies and F.bodies[c.callee].crate == "abasic_lsp"]
        ok = False
        for hb in hosts:
            txt = " ".join(show(hb.expr(a)) for c in hb.calls() for a in c.args)
            if any("TOKEN_TYPES" in (o.get("text", "") + o.get("item", "")) for blk in hb.blocks for st in blk["stmts"]
                   if st["k"] == "assign" for o in _ops(st["rv"])) or "TOKEN_TYPES" in txt:
                ok = True
        ck.require(ok, "C20:LEGEND:advertised", "legend", "the advertised legend is built from TOKEN_TYPES",
                   "handle_one_connection no longer advertises TOKEN_TYPES", hc.span, nontrivial=False)


def _ops(rv):
    out = []
    for key in ("op", "a", "b"):
        if key in rv and isinstance(rv[key], dict):
            out.append(rv[key])
    out.extend(rv.get("ops", []))
    return out


def unfiltered(ck, F, ml):
    az = F.one("analyze_source_file", "abasic_lsp")
    if az is not None:
        from lib import with_closures
        parts = with_closures(F, az)
        allc = [c for b in parts for c in b.calls()]
        has = lambda sfx_: any(sfx(c.callee, sfx_) for c in allc)
        loop_form = any(c.callee.endswith("Vec::push") for c in az.calls()) and bool(az.natural_loops())
        # chain form: messages().iter().filter_map(|m| { let (l, r) = map.map_to_source(m)?; ..; Some(diag) }).collect() -- the only
        # way an element is dropped is the `?` on map_to_source (the same skip the loop form makes with `if let Some(..)`)
        chain_form = any(c.callee.split("::")[-1] in ("collect", "extend") for c in az.calls()) and \
            not any(pl["local"] == 0 and not pl["proj"] for b in parts[1:] for (bb, i, pl, rv, sp) in aggregates(b, "core::option::Option", "None"))
        ok = has("SourceFileAnalyzer::messages") and has("SourceFileMap::map_to_source") and (loop_form or chain_form)
        skips = [c.callee.split("::")[-1] for c in allc if c.callee.split("::")[-1] in
                 ("filter", "skip", "take", "step_by", "take_while", "skip_while", "dedup", "truncate", "retain")]
        # collecting the diagnostics through a keyed container collapses messages that share a key (two messages on one range)
        skips += ["%s on a map/set" % c.callee.split("::")[-1] for c in allc
                  if c.callee.split("::")[-1] in ("insert", "entry", "extend", "from_iter", "collect") and
                  any(k in c.callee + " ".join(c.gargs) for k in ("BTreeMap", "HashMap", "BTreeSet", "HashSet"))]
        ck.require(ok and not skips, "C20:DIAG:all-messages", "nothing filtered",
                   "analyze_source_file loops over messages() and pushes one Diagnostic per mapped message",
                   "analyze_source_file filters or truncates the analyzer's messages (%s)" % skips, az.span)
    # both notification handlers analyse the text of the message they received and publish for its URI
    srcs = [t for (hb, c0) in analysis_sites(F) for t in text_sources(F, hb, c0)]
    ck.floor("C20.analysis call sites of the server", len(srcs), 1)
    k = 0
    ml_main = ml
    for (ml, c, arg) in srcs:
        k += 1
        txt = show(ml.expr(arg))
        ck.require(".text" in txt, "C20:DIAG:latest-text#%d" % k, "nothing filtered",
                   "analyze() receives the text carried by the notification",
                   "a notification handler analyses something other than the text it was sent: %s" % txt, c.span)
        # a change notification may carry several change events; with full-document sync each carries a whole text and the
        # latest text is the LAST of them
        e = ml.expr(arg, depth=30)
        if ".content_changes" in txt or "content_changes" in repr(e):
            picks = []
            for x in expr_calls(e):
                nm = x[1].split("::")[-1]
                if nm in ("into_iter", "iter", "cast_notification", "drain", "as_slice", "deref", "clone", "cloned", "into_vec"):
                    continue
                if "content_changes" in repr(x[2]):
                    picks.append(nm)
            rev = "rev" in picks
            last_ok = any(p in ("last", "pop", "next_back", "last_mut") for p in picks) and not rev or \
                (rev and any(p in ("next", "nth") for p in picks))
            # `for change in content_changes { analyze(change.text); insert(..) }`: every event is analysed in order, the last wins
            inner = [blk for h, blk in ml.natural_loops().items() if c.bb in blk and h != min(ml.natural_loops())]
            if inner and "next" in picks and not rev:
                last_ok = True
            ck.require(last_ok, "C20:DIAG:last-change-wins", "nothing filtered",
                       "of the change events in a notification the last one is analysed (%s)" % ",".join(picks),
                       "the didChange handler picks the text to analyse with %s: when a notification carries several change "
                       "events the diagnostics are for a stale text, not the latest one" % (",".join(picks) or "no selection"), c.span)

    ml = ml_main

    # diagnostics and tokens always reflect the latest text: the document table is only ever overwritten (`insert`) or
    # pruned -- never consulted first (`entry().or_insert_with(..)`, `get_or_insert..`, `contains_key` guarding the analysis),
    # which would keep serving the analysis of an older text for the same URI
    from lib import with_closures
    stale = []
    for hb in [b for b in F.bodies.values() if b.crate == "abasic_lsp"]:
        for c in hb.calls():
            nm = c.callee.split("::")[-1]
            if nm in ("entry", "or_insert_with", "or_insert", "or_default", "or_insert_with_key", "try_insert") and "HashMap" in c.callee + " ".join(c.gargs) or \
                    (nm in ("or_insert_with", "or_insert", "or_default") and "Entry" in c.callee):
                if "SourceFileAnalyzer" in " ".join(c.gargs) + c.callee + str(hb.local_ty(c.dest["local"])):
                    stale.append("%s uses %s on the document table" % (hb.path.split("::")[-1], nm))
        if "::{closure" in hb.path and hb.calls_to("SourceFileAnalyzer::analyze"):
            stale.append("SourceFileAnalyzer::analyze is called lazily from a closure (%s)" % hb.path.split("::", 1)[-1])
    ck.require(not stale, "C20:DIAG:no-stale-analysis", "nothing filtered",
               "the document table is overwritten on every open / change, never consulted first",
               "the server can keep serving the analysis of an older text: %s" % "; ".join(sorted(set(stale))), ml.span)


def run_thorough(ck, F, E):
    import clippy_xref
    clippy_xref.cross_reference(ck, F, "C20", package="abasic-lsp", crate="abasic_lsp")
