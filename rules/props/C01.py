"""C01 -- no host interaction sequence can crash or wedge the interpreter.

 1. panic-freedom: every panic-capable MIR site reachable from the host API is discharged
    (protocol precondition | size-like arithmetic | dominating guard | vetted invariant row whose
    invariant is an obligation of another rule)
 2. arithmetic on host-controlled numerals (value-like taint + interval/guard arguments)
 3. bounded native recursion (every call-graph cycle passes a depth guard)
 4. errors are values and lead to Idle (must-pass-through on postprocess_result)
 5. line sequencing is strictly increasing (no cycle in next_line)
"""
from lib import (sfx, get_fn, callers_of, strip_expr, show, aggregates, region_aggregates, exclusive_region,
                 switch_arms_on, arm_target)
import panics
import vetted
import common

LEVEL = "other"
EXPLANATION = (
    "Static panic-freedom argument over the type-checked MIR of the whole workspace: the call graph (resolved callees, "
    "closures, address-taken fns, std call-backs into local trait impls) gives the set of functions reachable from "
    "the host API; every Assert terminator and every call to a panicking std API in that set must be discharged by a "
    "named rule; value-like integers (from str::parse / float casts / host integers) are tracked by an "
    "inter-procedural taint so that unchecked arithmetic on them is reported from operand provenance alone; call-graph "
    "cycles must pass a depth guard; the error path must pass return_to_idle_state.  Heap exhaustion and std "
    "internals are outside the claim."
)
TRUSTED = [
    "Backtrace::capture / format! do not fail",
    "SIZE axiom: the sum or product of lengths/offsets of simultaneously live allocations fits usize",
    "non-local callees not in the panicking-API table do not panic (listed as unclassified_external_callees)",
]

ROOT_ADT = "abasic_core::interpreter::Interpreter"
PROTOCOL = ("Interpreter::provide_input", "Interpreter::continue_evaluating", "Interpreter::evaluate_impl")


def host_roots(F):
    roots = [b.path for b in F.bodies.values()
             if b.crate == "abasic_core" and b.is_pub and b.self_adt == ROOT_ADT]
    roots += [b.path for b in F.find("TracedInterpreterError::get_line_with_pointer_caret")]
    roots += [p for p in F.bodies if p.startswith("<abasic_core::interpreter_error::TracedInterpreterError as core::fmt::Display")
              or p.startswith("<abasic_core::interpreter_output::InterpreterOutput as core::fmt::Display")]
    return roots


def run(ck, F, E):
    roots = host_roots(F)
    ck.floor("C01.host API roots", len(roots), 8)
    G, seen, T = panics.panic_freedom(ck, F, E, "C01", roots, vetted.ROWS, vetted.INV_DEPENDS,
                                      protocol_fns=PROTOCOL, floor_sites=60)
    panics.recursion_rule(ck, F, G, seen, "C01")
    error_to_idle(ck, F, E)
    common.successor_rule(ck, F, "C01")


def error_to_idle(ck, F, E):
    pp = get_fn(ck, F, "Interpreter::postprocess_result")
    ri = get_fn(ck, F, "Interpreter::return_to_idle_state")
    if pp is None or ri is None:
        return
    # return_to_idle_state assigns Idle to self.state on every path
    ok = False
    from lib import field_stores
    for (b, e, sp) in field_stores(F, ri, "state"):        # directly or through a trivial setter
        e = strip_expr(e)
        if e[0] == "agg" and e[2] == "Idle" and (b in ri.postdominators().get(0, set()) or b == 0):
            ok = True
    ck.require(ok, "C01:IDLE:return_to_idle_state", "errors lead to Idle",
               "return_to_idle_state assigns InterpreterState::Idle on every path",
               "return_to_idle_state no longer sets the state to Idle on every path", ri.span)
    # postprocess_result: the Err arm passes return_to_idle_state
    ok = False
    for (bb, subject, targets, otherwise, names) in switch_arms_on(
            pp, lambda s, n: n and set(n.values()) == {"Ok", "Err"}):
        t = arm_target(targets, otherwise, names, "Err")
        reg = exclusive_region(pp, t)
        calls = [c for c in pp.calls() if c.bb in reg and sfx(c.callee, "Interpreter::return_to_idle_state")]
        if calls:
            # every path from the Err arm to return passes one of them
            rets = [r for r in pp.return_blocks() if r in pp.blocks_reachable_from(t)]
            through = all(not _reaches_avoiding(pp, t, r, {c.bb for c in calls}) for r in rets)
            if through:
                ok = True
    from lib import err_arm_passes
    if not ok and err_arm_passes(F, pp, "Interpreter::return_to_idle_state"):
        ok = True                                         # `result.map_err(|e| { ..; self.return_to_idle_state(); e })`
    ck.require(ok, "C01:IDLE:postprocess-err-arm", "errors lead to Idle",
               "every path through the Err arm of postprocess_result calls return_to_idle_state",
               "an error can leave postprocess_result without the interpreter returning to Idle: the next "
               "start_evaluating would trip the state assertion (wedged interpreter)", pp.span)
    # the two host calls that end an evaluation from outside leave the interpreter Idle on every path: a stop or break after
    # which get_state() still says Running / AwaitingInput makes the host go on feeding a program that is no longer there
    # (and the next start_evaluating trips the state assertion)
    def establishes_idle(b, depth=0):
        pd = b.postdominators().get(0, set()) | {0}
        for (bb, e, sp) in field_stores(F, b, "state"):
            e = strip_expr(e)
            if e[0] == "agg" and e[2] == "Idle" and bb in pd:
                return "assigns Idle on every path"
        for c in b.calls():
            if c.bb not in pd or not c.is_local:
                continue
            cb = F.bodies.get(c.callee)
            if cb is None or cb.path == b.path:
                continue
            if sfx(c.callee, "Interpreter::run_next_statement"):
                # on an emptied immediate line the stepper has nothing to run and no next line: it returns to Idle
                # (INV-EMPTY-IMMEDIATE, the invariant that also discharges the unwrap of its result)
                from lib import immediate_line_emptied_by
                emptied = [x for x in immediate_line_emptied_by(F, b) if b.dominates(x.bb, c.bb)]
                from lib import deep_calls
                if emptied and any(sfx(y.callee, "Interpreter::return_to_idle_state")
                                   for (_ob, y) in deep_calls(F, cb, lambda p: p.startswith("abasic_core::interpreter::"), depth=2)):
                    return "empties the immediate line and steps once (which returns to Idle)"
                continue
            if depth < 2:
                w = establishes_idle(cb, depth + 1)
                if w:
                    return "calls %s, which %s" % (c.callee.split("::")[-1], w)
        return None
    for fn in ("Interpreter::stop_evaluating", "Interpreter::break_at_current_location"):
        b = get_fn(ck, F, fn)
        if b is None:
            continue
        w = establishes_idle(b)
        ck.require(w is not None, "C01:IDLE:%s" % fn.split("::")[-1], "errors lead to Idle",
                   "%s %s" % (fn.split("::")[-1], w),
                   "%s can return without the interpreter being Idle: the host keeps seeing Running / AwaitingInput for an "
                   "evaluation that was ended (an INPUT reply is then asked for and swallowed, the next start_evaluating trips the "
                   "state assertion)" % fn, b.span)
    # the two evaluating entry points return postprocess_result(inner(..))
    for fn, inner in (("Interpreter::start_evaluating", "Interpreter::evaluate_impl"),
                      ("Interpreter::continue_evaluating", "Interpreter::run_next_statement")):
        b = get_fn(ck, F, fn)
        if b is None:
            continue
        d = b.unique_def(0)
        ok = False
        if d is not None and d[0] == "call" and sfx(d[2].callee, "Interpreter::postprocess_result"):
            arg = strip_expr(b.expr(d[2].args[1]))
            ok = arg[0] == "call" and sfx(arg[1], inner)
        if not ok:
            from lib import delegated_step
            ok = delegated_step(F, b, inner, "Interpreter::postprocess_result") is not None
        ck.require(ok, "C01:IDLE:%s" % fn.split("::")[-1], "errors lead to Idle",
                   "%s returns postprocess_result(%s(..))" % (fn.split("::")[-1], inner.split("::")[-1]),
                   "%s no longer routes its result through postprocess_result: an error would leave the "
                   "interpreter in the Running state" % fn, b.span)
    # no other public Result-returning method
    for b in F.bodies.values():
        if b.crate == "abasic_core" and b.self_adt == ROOT_ADT and b.is_pub and "TracedInterpreterError" in b.local_ty(0):
            nm = b.path.split("::")[-1]
            if nm in ("start_evaluating", "continue_evaluating"):
                continue
            ck.require(nm == "evaluate_expression", "C01:IDLE:other-result-api:%s" % nm, "errors lead to Idle",
                       "exempt by name: evaluate_expression takes no part in the turn-taking protocol",
                       "public method Interpreter::%s returns a TracedInterpreterError without postprocess_result" % nm,
                       b.span, nontrivial=False)
    # NewInterpreterRequested is assigned at exactly one site, on an Ok path
    sites = []
    for b in F.bodies.values():
        if b.crate != "abasic_core":
            continue
        for bb, i, pl, rv, sp in aggregates(b, "interpreter::InterpreterState", "NewInterpreterRequested"):
            if not b.path.endswith("Default>::default") and "fmt" not in b.path.split("::")[-1] and \
                    not b.path.endswith("Clone>::clone"):
                sites.append((b, bb, sp))
    ok = len(sites) == 1 and sfx(sites[0][0].path, "Interpreter::maybe_process_command")
    if ok:
        b, bb, sp = sites[0]
        # from that block every return assigns Ok
        errs = [a for a in region_aggregates(b, exclusive_region(b, bb)) if a[1] == "Err"]
        ok = not errs
    ck.require(ok, "C01:NEW:single-ok-site", "transient state",
               "NewInterpreterRequested is assigned only in the NEW arm, which returns Ok",
               "InterpreterState::NewInterpreterRequested is assigned at %s" % [s[0].path for s in sites])


def _reaches_avoiding(body, a, b, avoid):
    if a in avoid:
        return False
    seen = set()
    st = [a]
    while st:
        x = st.pop()
        if x in seen or x in avoid:
            continue
        seen.add(x)
        if x == b:
            return True
        st.extend(body.succs(x))
    return False


def run_thorough(ck, F, E):
    import clippy_xref
    clippy_xref.cross_reference(ck, F, "C01")
