"""C11 -- editing the program invalidates every runtime reference into it.

Inductive invariant INV-LOC: every program location stored in `Program` names a line
present in `numbered_lines`.  Decided by: (1) the location-holding fields are found by
*type*; (2) `Program::set_numbered_line` must-kills all of them on every path to return;
(3) the line store has exactly one writer, called only from set_numbered_line;
(4) raw line numbers become locations only at validated sites; (5) a rejected edit never
reaches the store; (6) the consumers report the specified error on the emptied state;
(7) values (variables, arrays) are untouched on the edit path.
"""
from lib import (sfx, get_fn, callers_of, aggregates, strip_expr, expr_calls, show, switch_arms_on,
                 arm_target, exclusive_region, region_aggregates, region_calls)
from mir import norm
import common

LEVEL = "proof"
EXPLANATION = (
    "Invariant proof by induction over all writers: holders of program locations are derived from the ADT "
    "tables by type; the edit function must-kill set (forward must-analysis over its CFG, inter-procedural "
    "through callee summaries) covers every holder; the line store has a single writer with a single caller; "
    "every construction of a numbered location from a raw u64 is dominated by a membership test or takes the "
    "number from the sorted set; the tokenizer's failure arm cannot reach the store.  Decides the structural "
    "invariant, not the transcript of probe statements."
)
TRUSTED = ["HashMap/BTreeSet/Vec clear() and Option = None leave no element behind"]

LOC_TYPES = ("program::ProgramLocation", "program::NumberedProgramLocation", "program::ProgramLine")
PROGRAM = "abasic_core::program::Program"


def holders(F):
    a = F.adts.get(PROGRAM)
    out = []
    if a is None:
        return None
    targets = {k for k in F.adts if any(k.endswith(t) for t in LOC_TYPES)}
    for f in a["variants"][0]["fields"]:
        if any(F.adt_mentions_closure(norm(m), targets) for m in f["mentions"]):
            out.append(f["name"])
    return out


def run(ck, F, E):
    R = "C11"
    hs = holders(F)
    if hs is None:
        ck.missing("C11:holders", "struct Program")
        return
    ck.note("location_holders", hs)
    ck.floor("C11.location-holding fields of Program", len(hs), 6)

    # ---- (2) edit kills every holder
    setl = get_fn(ck, F, "Program::set_numbered_line")
    if setl is not None:
        fi = E.info[setl.path]
        kills = {p[0][1] for (k, p) in fi.kills if k == 0 and len(p) == 1 and p[0][0] == PROGRAM}
        for h in hs:
            ck.require(
                h in kills,
                "C11:KILL:Program.%s" % h,
                "edit must-kill",
                "set_numbered_line leaves Program.%s fresh on every path to return" % h,
                "Program::set_numbered_line does not reset Program.%s on every path: a runtime reference into "
                "the old program (%s) survives an edit" % (h, h),
                setl.span,
            )
        # the store call itself must be there
        cs = setl.calls_to("ProgramLines::set")
        ck.require(len(cs) >= 1, "C11:EDIT-STORES", "edit", "set_numbered_line calls ProgramLines::set",
                   "set_numbered_line no longer updates the line store", setl.span)

    # ---- (3) single writer of the line store, single caller
    common.single_writer_store(ck, F, E, "C11")

    # ---- (4) establishment: raw u64 -> location only at validated sites
    n_sites = 0
    for body in F.bodies.values():
        if body.crate != "abasic_core":
            continue
        if body.path.endswith("as core::default::Default>::default"):
            continue  # derived Default (line 0): covered by the no-caller obligation below
        for adt, variant, idx in (("program::ProgramLine", "Line", 0), ("program::NumberedProgramLocation", None, 0)):
            for b, i, pl, rv, sp in aggregates(body, adt, variant):
                n_sites += 1
                e = body.expr(rv["ops"][idx])
                how = classify_line_source(F, body, b, e)
                key = "C11:ESTABLISH:%s:%s" % (body.path, adt.split("::")[-1])
                ck.require(
                    how is not None, key, "validated construction",
                    how or "", "a program location is built in %s from a line number (%s) that is neither copied "
                    "from an existing location, nor checked with ProgramLines::has, nor taken from first()/after()/"
                    "the sorted set: INV-LOC can be broken here" % (body.path, show(e)), sp)
    ck.floor("C11.location construction sites", n_sites, 3)
    # NumberedProgramLocation::default() yields line 0 unvalidated: nobody may call it
    dcalls = callers_of(F, "<abasic_core::program::NumberedProgramLocation as core::default::Default>::default")
    ck.require(not dcalls, "C11:ESTABLISH:NumberedProgramLocation::default", "validated construction",
               "derived Default (line 0) has no caller",
               "NumberedProgramLocation::default() (line 0, unvalidated) is called from %s" %
               sorted({b.path for b, _ in dcalls}))

    # ---- (5) rejected edit invalidates nothing: the stored tokens are the Ok payload of tokenisation
    ev, c = common.edit_path_rules(ck, F, E, "C11")
    if ev is not None and c is not None:
        if True:
            # (7) nothing after the store on this path touches variables / arrays
            region = ev.blocks_reachable_from(c.bb)
            touched = set()
            for c2 in ev.calls():
                if c2.bb in region and c2.is_local and c2.callee in E.info:
                    ci = E.info[c2.callee]
                    for (k, p) in ci.writes:
                        if k == "?" or k >= len(c2.args):
                            continue
                        for (r, pp, m) in E._map_callee_loc(E.info[ev.path], c2.args[k], p, ci.param_is_ref[k]):
                            if r == ("p", 0) and pp and pp[0][1] in ("variables", "arrays"):
                                touched.add(pp[0][1])
            for b2, i2, pl2, rv2, sp2 in ev.assigns():
                if b2 in region:
                    for (r, pp, m, d) in E.resolve(E.info[ev.path], pl2):
                        if d and r == ("p", 0) and pp and pp[0][1] in ("variables", "arrays"):
                            touched.add(pp[0][1])
            ck.require(not touched, "C11:VALUES-KEPT", "edit path",
                       "no write to Interpreter.variables/arrays after the store on the edit path",
                       "the edit path also modifies %s: variable and array contents must be kept" % sorted(touched),
                       c.span)

    # ---- (5b) a rejected edit invalidates nothing: neither the part of the edit path that runs before the
    # tokenizer's verdict nor the error epilogue may write a runtime reference or the line store
    keep = [h for h in hs if h != "location"] + ["lines"]
    pp_ = get_fn(ck, F, "Interpreter::postprocess_result")
    if pp_ is not None:
        w = program_fields_written(E, pp_.path)
        bad = sorted(set(w) & set(keep))
        ck.require(not bad, "C11:REJECTED:epilogue", "rejected edit",
                   "Interpreter::postprocess_result (the error epilogue every rejected edit passes through) writes none of "
                   "Program.{%s}" % ",".join(keep),
                   "the error epilogue Interpreter::postprocess_result resets Program.%s: a rejected edit (tokenization "
                   "error) passes through it and must invalidate nothing" % bad, pp_.span)
    if ev is not None:
        tk = [c2 for c2 in ev.calls() if c2.callee.endswith("Tokenizer::remaining_tokens")]
        if len(tk) != 1:
            ck.missing("C11:REJECTED:prologue", "the tokenizer call of the edit path")
        else:
            dom = ev.dominators()
            before = [c2 for c2 in ev.calls() if c2.bb != tk[0].bb and c2.bb in dom[tk[0].bb] and c2.is_local
                      and not c2.callee.endswith("Interpreter::maybe_process_command")]
            bad = {}
            for c2 in before:
                w = call_program_fields_written(E, ev, c2)
                for h in set(w) & set(keep):
                    # the one accepted idiom: the subroutine stack may be dropped by the line-entry protocol when
                    # there is no breakpoint (nothing can be resumed then, and every entered line does the same)
                    if h == "stack" and writes_only_without_breakpoint(F, E, c2.callee, "stack"):
                        continue
                    bad.setdefault(h, c2.callee)
            ck.require(not bad, "C11:REJECTED:prologue", "rejected edit",
                       "the %d local calls that run before the tokenizer's verdict write none of Program.{%s}" %
                       (len(before), ",".join(keep)),
                       "before the line is known to tokenize, the edit path already resets %s" %
                       ", ".join("Program.%s (via %s)" % kv for kv in sorted(bad.items())), ev.span)

    # ---- (6) consumers report the right error on the emptied state
    consumer(ck, F, "Program::continue_from_breakpoint", "breakpoint", "CannotContinue")
    consumer_pop(ck, F)
    consumer_next(ck, F)
    # READ rebuilds the cursor from the current lines
    nd = get_fn(ck, F, "Program::next_data_element")
    if nd is not None:
        cs = [c for c in nd.calls() if c.callee.endswith("Option::get_or_insert_with")]
        ok = False
        for c in cs:
            for cp in E.info[nd.path].CL.get(c.args[1]["place"]["local"], ()) if c.args[1]["k"] in ("copy", "move") else ():
                cb = F.bodies.get(cp)
                if cb and cb.calls_to("ProgramLines::data_iterator"):
                    ok = True
        if not ok:
            # `if self.data_iterator.is_none() { self.data_iterator = Some(self.numbered_lines.data_iterator()) }`
            for (b2, i2, pl2, rv2, sp2) in nd.assigns():
                fs2 = [p for p in pl2["proj"] if p["k"] == "field"]
                e2 = strip_expr(nd.rv_expr(rv2))
                if fs2 and fs2[-1].get("name") == "data_iterator" and e2[0] == "agg" and e2[2] == "Some":
                    if any(x[1].endswith("ProgramLines::data_iterator") for x in expr_calls(e2)):
                        ok = True
        ck.require(ok, "C11:CONSUMER:READ", "consumer", "next_data_element rebuilds a missing cursor from "
                   "ProgramLines::data_iterator() of the current lines",
                   "next_data_element no longer rebuilds the DATA cursor from the current program lines", nd.span)


def program_fields_written(E, path):
    """Names of the Program fields (reached through parameter 0 = &mut Interpreter) a function may write."""
    out = set()
    for (k, p) in E.info[path].writes:
        if k == 0 and len(p) >= 2 and p[0][1] == "program":
            out.add(p[1][1])
        elif k == 0 and len(p) == 1 and p[0][1] == "program":
            out.add("*")
        elif k == "?":
            out.add("?")
    return out


def call_program_fields_written(E, ev, c2):
    out = set()
    if c2.callee not in E.info:
        return out
    ci = E.info[c2.callee]
    for (k, p) in ci.writes:
        if k == "?" or k >= len(c2.args):
            continue
        for (r, pp, m) in E._map_callee_loc(E.info[ev.path], c2.args[k], p, ci.param_is_ref[k]):
            if r == ("p", 0) and len(pp) >= 2 and pp[0][1] == "program":
                out.add(pp[1][1])
    return out


def writes_only_without_breakpoint(F, E, callee, field):
    """Every site of `callee` that writes Program.<field> is control dependent on `breakpoint` being None."""
    from lib import controlling_switches, bool_switch_true_target, expr_has_field
    body = F.bodies.get(callee)
    if body is None:
        return False
    fi = E.info[callee]
    sites = []
    for c in body.calls():
        ws = set()
        if c.callee in E.info:
            ci = E.info[c.callee]
            for (k, p) in ci.writes:
                if k == "?" or k >= len(c.args):
                    continue
                for (r, pp, m) in E._map_callee_loc(fi, c.args[k], p, ci.param_is_ref[k]):
                    if r == ("p", 0) and pp and pp[0][1] == field:
                        ws.add(field)
        else:
            # std call with a &mut receiver derived from self.<field>
            for a in c.args[:1]:
                e = body.expr(a)
                if expr_has_field(e, field) and not c.callee.split("::")[-1] in ("len", "is_empty", "iter", "last", "get", "is_none", "is_some"):
                    ws.add(field)
        if ws:
            sites.append(c.bb)
    for b2, i2, pl2, rv2, sp2 in body.assigns():
        for (r, pp, m, d) in E.resolve(fi, pl2):
            if d and r == ("p", 0) and pp and pp[0][1] == field:
                sites.append(b2)
    if not sites:
        return False
    for bb in sites:
        ok = False
        for (sb, subj, names) in controlling_switches(body, bb):
            if not expr_has_field(subj, "breakpoint"):
                continue
            if names:
                none_t = [body.switch_info(sb)[1].get(v) for v, n in names.items() if n == "None"]
                none_t = [t for t in none_t if t is not None]
                others = [x for x in body.succs(sb) if x not in none_t]
                if none_t and all(bb not in body.blocks_reachable_from(x) and bb != x for x in others):
                    ok = True
            else:
                ft = bool_switch_true_target(body, sb)
                calls = [x[1] for x in expr_calls(subj)]
                if ft and any(x.endswith("is_none") for x in calls):
                    if bb not in body.blocks_reachable_from(ft[0]) and bb != ft[0]:
                        ok = True
                elif ft and any(x.endswith("is_some") for x in calls):
                    if bb not in body.blocks_reachable_from(ft[1]) and bb != ft[1]:
                        ok = True
        if not ok:
            return False
    return True


def show_calls(e):
    return " ".join(c[1] for c in expr_calls(e))


def _from_parse(body, op):
    """line number local assigned from the Some payload of parse_line_number (via Option wrapper)."""
    e = body.expr(op)
    # `maybe_line_number = Some(line_number)` then `if let Some(n) = maybe_line_number`
    loc = None
    if e[0] == "place" and e[1][0] == "local":
        loc = e[1][1]
    elif e[0] == "local":
        loc = e[1]
    if loc is None:
        return False
    for d in body.defs().get(loc, []):
        if d[0] == "assign":
            ee = body.rv_expr(d[3])
            if "parse_line_number" in show_calls(ee):
                return True
            if ee[0] == "agg" and ee[2] == "Some" and "parse_line_number" in show_calls(ee[3][0]):
                return True
            # one more hop through a user variable
            if ee[0] == "agg" and ee[2] == "Some":
                inner = ee[3][0]
                if inner[0] in ("local", "place"):
                    l2 = inner[1] if inner[0] == "local" else (inner[1][1] if inner[1][0] == "local" else None)
                    if l2 is not None:
                        for d2 in body.defs().get(l2, []):
                            if d2[0] == "assign" and "parse_line_number" in show_calls(body.rv_expr(d2[3])):
                                return True
    return False


def is_tokenize_ok_payload(e):
    e0 = e
    if e0[0] != "place":
        return False
    proj = e0[4]
    if not any(p[0] == "field" and p[2] == "Continue" for p in proj):
        return False
    base = e0[1]
    if base[0] != "call" or not base[1].endswith("Try>::branch") and not base[1].endswith("::branch"):
        return False
    inner = base[2][0]
    return inner[0] == "call" and sfx(inner[1], "Tokenizer::remaining_tokens")


def classify_line_source(F, body, bb, e, _depth=0):
    s = strip_expr(e)
    # (a) copy of an existing location's line
    if s[0] == "place" and s[2]:
        last = s[2][-1]
        if (last[0].endswith("program::ProgramLine") and last[1] == "0") or \
           (last[0].endswith("program::NumberedProgramLocation") and last[1] == "line") or \
           (last[0].endswith("program::ProgramLocation") and last[1] == "line"):
            return "copied from an existing location (%s)" % show(s)
        # payload of first()/after()
        base = strip_expr(s[1])
        if base[0] == "call" and (sfx(base[1], "ProgramLines::first") or sfx(base[1], "ProgramLines::after")):
            if any(p[0] == "field" and p[2] == "Some" for p in s[4]):
                return "Some payload of %s" % base[1].split("::")[-1]
        # element of an iteration over sorted_line_numbers
        if base[0] == "call" and base[1].endswith("::next"):
            it = strip_expr(base[2][0])
            txt = show(it)
            if "sorted_line_numbers" in txt:
                return "element of sorted_line_numbers iteration"
    if s[0] == "call" and s[1].endswith("::next"):
        if "sorted_line_numbers" in show(s):
            return "element of sorted_line_numbers iteration"
    # (b) a parameter, validated in this function or at every caller
    if s[0] == "param":
        pi = s[1]
        # dominated by has(param) == true
        from lib import line_membership_tests
        tests = line_membership_tests(F)
        for c in [x for x in body.calls() if x.callee in tests and len(x.args) > 1]:
            a = strip_expr(body.expr(c.args[1]))
            if a == ("param", pi) and c.target is not None:
                t = body.term(c.target)
                if t["k"] == "switch":
                    tg = {int(v): x for v, x in t["targets"]}
                    true_t = t["otherwise"] if 0 in tg else tg.get(1)
                    if true_t is not None and body.dominates(true_t, bb) and true_t != tg.get(0):
                        return "dominated by ProgramLines::has(arg%d) == true" % pi
        # constructor-style function (NumberedProgramLocation::new, or a private helper that only builds the location):
        # every caller's argument must itself be validated at the call site
        if _depth < 3:
            cs = [(cb, c) for cb in F.bodies.values() for c in cb.calls() if c.callee == body.path]
            if cs and all(pi < len(c.args) and classify_line_source(F, cb, c.bb, cb.expr(c.args[pi]), _depth + 1) for cb, c in cs):
                return "constructor; all %d caller(s) pass a validated line" % len(cs)
        return None
    if s[0] == "local" or (s[0] == "place" and s[1][0] == "local"):
        # user variable bound in a loop over the sorted set (`for &line in sorted.iter()`)
        loc = s[1] if s[0] == "local" else s[1][1]
        for d in body.defs().get(loc, []):
            if d[0] == "assign":
                ee = body.rv_expr(d[3])
                if "sorted_line_numbers" in show(ee) and "next" in show(ee):
                    return "element of sorted_line_numbers iteration"
                r = classify_line_source(F, body, bb, ee, _depth)
                if r:
                    return r
    return None


def consumer(ck, F, fn, field, err):
    b = get_fn(ck, F, fn)
    if b is None:
        return

    def pred(subject, names):
        return names and set(names.values()) == {"None", "Some"} and field in show(subject)

    sw = switch_arms_on(b, pred)
    ok = False
    for (bb, subject, targets, otherwise, names) in sw:
        t = arm_target(targets, otherwise, names, "None")
        reg = exclusive_region(b, t)
        aggs = region_aggregates(b, reg)
        if any(a[1] == err for a in aggs):
            some_t = arm_target(targets, otherwise, names, "Some")
            sreg = exclusive_region(b, some_t)
            if not any(a[1] == err for a in region_aggregates(b, sreg)):
                ok = True
    ck.require(ok, "C11:CONSUMER:%s" % err, "consumer",
               "%s returns %s exactly on the None arm of %s" % (fn, err, field),
               "%s no longer reports %s when Program.%s is empty" % (fn, err, field), b.span)


def consumer_pop(ck, F):
    b = get_fn(ck, F, "Program::return_to_last_gosub")
    if b is None:
        return
    ok = False
    for c in b.calls():
        if c.callee.endswith("Vec::pop") and "stack" in show(b.expr(c.args[0])) and c.target is not None:
            for (bb, subject, targets, otherwise, names) in switch_arms_on(
                    b, lambda s, n: n and set(n.values()) == {"None", "Some"}):
                t = arm_target(targets, otherwise, names, "None")
                if any(a[1] == "ReturnWithoutGosub" for a in region_aggregates(b, exclusive_region(b, t))):
                    ok = True
    if not ok:
        # `self.stack.pop().ok_or(InterpreterError::ReturnWithoutGosub)?`
        from lib import ok_or_sites
        for (oc, srcs) in ok_or_sites(b, "ReturnWithoutGosub"):
            if any(x.callee.endswith("Vec::pop") and "stack" in show(b.expr(x.args[0])) for x in srcs):
                ok = True
    ck.require(ok, "C11:CONSUMER:ReturnWithoutGosub", "consumer",
               "RETURN pops Program.stack and reports ReturnWithoutGosub on None",
               "return_to_last_gosub no longer reports ReturnWithoutGosub on an empty stack", b.span)


def consumer_next(ck, F):
    b = get_fn(ck, F, "Program::end_loop")
    if b is None:
        return
    ok = False
    if b.calls_to("Program::remove_loop_with_name"):
        for (bb, subject, targets, otherwise, names) in switch_arms_on(
                b, lambda s, n: n and set(n.values()) == {"None", "Some"} and "remove_loop_with_name" in show(s)):
            t = arm_target(targets, otherwise, names, "None")
            if any(a[1] == "NextWithoutFor" for a in region_aggregates(b, exclusive_region(b, t))):
                ok = True
    ck.require(ok, "C11:CONSUMER:NextWithoutFor", "consumer",
               "NEXT reports NextWithoutFor when remove_loop_with_name finds nothing",
               "end_loop no longer reports NextWithoutFor when the loop stack has no such loop", b.span)
