"""C10 -- RUN starts from a clean slate regardless of session history.

Effect-analysis inclusion  W - E  is a subset of  K :
  W = top-level fields of Interpreter (and, under `program`, of Program) that any host-callable
      method of Interpreter may write (from the ADT tables, so a new field is included automatically),
  E = exempt fields, each by name with a reason,
  K = fields left holding a fresh value on the RUN arm at the moment run_next_statement is entered
      (forward must-analysis, inter-procedural).
"""
from lib import get_fn, sfx, show
from props.C04 import command_arm

LEVEL = "proof"
EXPLANATION = (
    "W - E subset-of K by inter-procedural effect analysis: may-write sets of every pub method of Interpreter "
    "(access paths relative to &mut self, through StatementEvaluator/ExpressionEvaluator wrappers) give W; the "
    "must-kill state at the call of run_next_statement inside the \"RUN\" arm of maybe_process_command gives K; "
    "the exempt set E is enumerated with reasons.  A field added to Interpreter or Program that evaluation "
    "writes and RUN does not reset is reported by name."
)
TRUSTED = ["Default::default()/clear()/None leave no residue of earlier state"]

INTERP = "abasic_core::interpreter::Interpreter"
PROGRAM = "abasic_core::program::Program"

EXEMPT = {
    "Interpreter.output": "transcript sink, drained by the host with take_output()",
    "Interpreter.state": "set to Running by the RUN path itself (run_next_statement entry)",
    "Interpreter.rng": "the property fixes 'the same random-number state'",
    "Interpreter.string_manager": "interning cache: no observable effect on execution",
    "Interpreter.enable_warnings": "option, not runtime state",
    "Interpreter.enable_tracing": "option, not runtime state (TRACE/NOTRACE)",
    "Program.numbered_lines": "the program text itself",
    "Program.immediate_line": "overwritten at every evaluate_impl entry before any command runs",
}


def top_fields(paths, k=0):
    out = set()
    for (kk, p) in paths:
        if kk != k or not p:
            continue
        if p[0][0] == INTERP:
            if p[0][1] == "program":
                if len(p) > 1 and p[1][0] == PROGRAM:
                    out.add("Program." + p[1][1])
                else:
                    out.add("Program.*")
            else:
                out.add("Interpreter." + p[0][1])
    return out


def unreset_state_unobservable(ck, F):
    """RUN does not reset the string manager (interned strings of earlier sessions stay until the next collection), which is
    fine as long as no program can see it: what the evaluator reaches of StringManager is interning only (`from_str`,
    `from_string`) -- an accounting read (`total_bytes`, a FRE(0) builtin on top of it) makes the session history observable
    to the next RUN."""
    import panics
    G = panics.CallGraph(F)
    roots = [b.path for b in F.bodies.values() if b.crate == "abasic_core" and
             (sfx(b.path, "StatementEvaluator::evaluate_statement") or sfx(b.path, "ExpressionEvaluator::evaluate_expression"))]
    seen = G.reachable(roots)
    ALLOWED = ("from_str", "from_string", "default", "new")
    leaks = sorted({p.split("::")[-1] + " -> StringManager::" + c.callee.split("::")[-1]
                    for p in seen if "::string_manager::" not in p for c in F.bodies[p].calls()
                    if "string_manager::StringManager::" in c.callee and c.callee.split("::")[-1] not in ALLOWED})
    ck.require(bool(roots) and not leaks, "C10:UNRESET:string-manager-not-observable", "clean slate",
               "statement / expression evaluation reaches only the interning functions of StringManager",
               "program-visible evaluation reads the string manager's bookkeeping (%s), which RUN does not reset: what a RUN computes "
               "depends on the strings earlier sessions left behind" % "; ".join(leaks))


def run(ck, F, E):
    unreset_state_unobservable(ck, F)
    ifields = F.adt_fields("interpreter::Interpreter")
    pfields = F.adt_fields("program::Program")
    if ifields is None or pfields is None:
        ck.missing("C10:adts", "struct Interpreter / struct Program")
        return
    ck.note("interpreter_fields", ifields)
    ck.note("program_fields", pfields)
    # ---- W
    W = set()
    roots = []
    for b in F.bodies.values():
        if b.crate == "abasic_core" and b.self_adt == INTERP and b.is_pub and b.kind == "AssocFn":
            roots.append(b.path)
            W |= top_fields(E.info[b.path].writes)
    # pub fields can also be written by the front ends directly
    for f in ifields:
        a = F.adt("interpreter::Interpreter")
        for fd in a["variants"][0]["fields"]:
            if fd["name"] == f and fd["pub"]:
                W.add("Interpreter." + f)
    ck.note("host_roots", sorted(roots))
    ck.floor("C10.host-callable Interpreter methods", len(roots), 8)
    if "Program.*" in W:
        W.discard("Program.*")
        W |= {"Program." + f for f in pfields}
    ck.note("W", sorted(W))
    ck.floor("C10.fields written by evaluation (W)", len(W), 12)
    for e in EXEMPT:
        owner, f = e.split(".")
        have = ifields if owner == "Interpreter" else pfields
        ck.require(f in have, "C10:EXEMPT-EXISTS:%s" % e, "exemption table", "exempt field exists",
                   "exempt field %s no longer exists: the exemption table is stale" % e, nontrivial=False)

    # ---- K
    mp = get_fn(ck, F, "Interpreter::maybe_process_command")
    if mp is None:
        return
    arm = command_arm(mp, "RUN")
    if arm is None:
        ck.missing("C10:RUN-arm", "the \"RUN\" arm of maybe_process_command")
        return
    fi = E.info[mp.path]
    IN, OUT = E.kill_states(fi)
    run_calls = [c for c in mp.calls() if c.bb in arm and sfx(c.callee, "Interpreter::run_next_statement")]
    base = set()
    host, host_region = mp, arm
    if not run_calls:
        # the arm's body may have been given a name (`"RUN" => self.run_program_from_start()?`): descend into the one
        # Interpreter method called in the arm that itself starts execution; what the arm killed before the call still counts
        for hc in [c for c in mp.calls() if c.bb in arm and c.is_local and c.callee in F.bodies]:
            hb = F.bodies[hc.callee]
            inner = [c for c in hb.calls() if sfx(c.callee, "Interpreter::run_next_statement")]
            if len(inner) == 1 and hb.self_adt == INTERP:
                base = set(IN.get(hc.bb) or set())
                host, host_region = hb, set(hb.reachable())
                fi = E.info[hb.path]
                IN, OUT = E.kill_states(fi)
                run_calls = inner
                break
    if len(run_calls) != 1:
        ck.bad("C10:RUN-arm:run_next_statement", "RUN arm",
               "expected exactly one run_next_statement call in the RUN arm, found %d" % len(run_calls), mp.span)
        return
    rc = run_calls[0]
    # state just before the call = IN of its block transferred through the block's statements (no calls before
    # the terminator inside one block), so IN[bb] after statements == state at the call
    state = set(IN.get(rc.bb) or set()) | base
    K = top_fields(state)
    mp_outer, mp, arm = mp, host, host_region
    # location: killed by reset_runtime_state, then deliberately set to (first(), 0)
    rf = F.one("Program::run_from_first_numbered_line")
    rr = F.one("Program::reset_runtime_state")
    if rf is not None and rr is not None:
        rk = {p[0][1] for (k, p) in E.info[rr.path].kills if k == 0 and len(p) == 1}
        calls_reset = rf.calls_to("Program::reset_runtime_state")
        loc_writes = []
        for b, i, pl, rv, sp in rf.assigns():
            for (r, p, m, d) in E.resolve(E.info[rf.path], pl):
                if d and p and p[0] == (PROGRAM, "location"):
                    loc_writes.append((b, rv, sp))
        ok = "location" in rk and len(calls_reset) == 1 and \
            all(rf.dominates(calls_reset[0].bb, b) and "first" in show(rf.rv_expr(rv)) for (b, rv, _s) in loc_writes)
        called = any(sfx(c.callee, "Program::run_from_first_numbered_line") and c.bb in arm and
                     mp.dominates(c.bb, rc.bb) for c in mp.calls())
        if ok and called:
            K.add("Program.location")
        ck.require(ok and called, "C10:LOCATION", "RUN arm",
                   "location is reset by reset_runtime_state and then only set to (first(), 0)",
                   "RUN no longer resets the program location before positioning at the first line", rf.span)
    ck.note("K", sorted(K))
    import panics
    balanced = {"Program.%s" % k: v for k, v in panics.balanced_counter_fields(F).items()}
    for f in sorted(W):
        if f in balanced:
            ck.ok("C10:BALANCED:%s" % f, "exemption by pairing", balanced[f] + " -- it is 0 whenever RUN starts", "", rc.span)
            continue
        if f in EXEMPT:
            ck.ok("C10:EXEMPT:%s" % f, "exemption table", "exempt: " + EXEMPT[f], nontrivial=False)
            continue
        ck.require(
            f in K, "C10:RESET:%s" % f, "reset inclusion (W - E subset-of K)",
            "%s is written by evaluation and is fresh when RUN enters run_next_statement" % f,
            "%s can be modified by earlier host calls and is NOT reset on the RUN path before the first statement "
            "executes: RUN does not start from a clean slate" % f, rc.span)
