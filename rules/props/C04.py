"""C04 -- the program store is a last-writer-wins map, listed and run in line order.

Inductive argument that the two indexes always hold the same key set, that every ordered
consumer takes its order from the sorted set, that sequencing is total and strictly
increasing, and that a line is stored only with the success payload of tokenisation.
"""
from lib import (sfx, get_fn, callers_of, strip_expr, strip_refs, expr_const_str, show, expr_calls)
import common

LEVEL = "proof"
EXPLANATION = (
    "Two-index invariant by induction: (1) both fields of ProgramLines have exactly one writer, ProgramLines::set, "
    "reached only through Program::set_numbered_line; (2) path enumeration of `set` shows every path performs "
    "exactly one insert/insert or remove/remove pair keyed by the same parameter, the remove pair exactly under "
    "tokens.is_empty(); (3) the HashMap is never iterated, every ordered consumer iterates the BTreeSet; "
    "(4) after(line) is total on u64 and strictly increasing; (5) the edit path stores only the Ok payload of "
    "tokenisation under the number parsed from the same text; (6) LIST prints list() and RUN starts at first(). "
    "Decides the store/ordering structure; numeral parsing semantics are str::parse::<u64> (trusted)."
)
TRUSTED = [
    "HashMap::insert replaces the value of an existing key; BTreeSet iterates in ascending order",
    "str::parse::<u64> semantics for the line-number prefix",
]

MAP_OK = ("::get", "::contains_key", "::insert", "::remove", "::len", "::is_empty", "::get_mut")
UNORDERED = ("::iter", "::iter_mut", "::keys", "::values", "::values_mut", "::drain", "::into_iter", "::retain",
             "::into_keys", "::into_values", "::extract_if", "::extend")


def is_unordered_use(callee):
    return any(callee.endswith(u) for u in UNORDERED)


def run(ck, F, E):
    P = "C04"
    # positive self-check of the zero-expected detector
    assert is_unordered_use("std::collections::hash::map::HashMap::iter")
    assert is_unordered_use("std::collections::hash::map::HashMap::keys")
    assert not is_unordered_use("std::collections::hash::map::HashMap::get")

    common.single_writer_store(ck, F, E, P)

    # ---- (2) paired update
    setf = get_fn(ck, F, "ProgramLines::set")
    if setf is not None:
        paired_update(ck, F, E, setf)

    # ---- (3) the map is never iterated; ordered consumers use the set
    n_map_uses = 0
    for body in F.bodies.values():
        if body.crate != "abasic_core":
            continue
        for c in body.calls():
            if c.is_local or not c.args:
                continue
            e = strip_refs(body.expr(c.args[0]))
            if not (e[0] == "place" and e[2] and
                    e[2][-1] == ("abasic_core::program_lines::ProgramLines", "numbered_lines")):
                continue
            n_map_uses += 1
            bad = is_unordered_use(c.callee) or not any(c.callee.endswith(m) for m in MAP_OK)
            ck.require(not bad, "C04:MAPUSE:%s:%s" % (body.path, c.callee.split("::")[-1]), "ordered consumers",
                       "%s on the line map is order-independent" % c.callee.split("::")[-1],
                       "%s applies %s to ProgramLines.numbered_lines (a HashMap): its iteration order is arbitrary, "
                       "so listing / DATA order / execution order would no longer be by line number"
                       % (body.path, c.callee), c.span, nontrivial=False)
    ck.floor("C04.uses of the line map", n_map_uses, 4)
    for fn, what in (("ProgramLines::list_tokens", "iter"), ("ProgramLines::data_iterator", "iter"),
                     ("ProgramLines::first", "first"), ("ProgramLines::after", "range")):
        b = get_fn(ck, F, fn)
        if b is None:
            continue
        uses = []
        for c in b.calls():
            if c.args and "sorted_line_numbers" in show(b.expr(c.args[0])) and not c.is_local:
                uses.append(c.callee.split("::")[-1])
        ck.require(bool(uses), "C04:ORDERED:%s" % fn, "ordered consumers",
                   "%s takes its order from sorted_line_numbers (%s)" % (fn, ",".join(sorted(set(uses)))),
                   "%s no longer reads sorted_line_numbers: its order is not the line order" % fn, b.span)
    # list() goes through list_tokens(); Program::list through ProgramLines::list
    lb = get_fn(ck, F, "ProgramLines::list")
    if lb is not None:
        ck.require(bool(lb.calls_to("ProgramLines::list_tokens")), "C04:ORDERED:list-via-list_tokens",
                   "ordered consumers", "list() iterates list_tokens()", "list() no longer uses list_tokens()", lb.span)
        list_shape(ck, F, lb)
        list_complete(ck, F)
    pl = get_fn(ck, F, "Program::list")
    if pl is not None:
        ck.require(bool(pl.calls_to("ProgramLines::list")), "C04:ORDERED:Program::list", "ordered consumers",
                   "Program::list forwards to ProgramLines::list", "Program::list no longer forwards to the store",
                   pl.span)
    # first(): minimum of the set
    fb = get_fn(ck, F, "ProgramLines::first")
    if fb is not None:
        names = [c.callee for c in fb.calls()]
        asc_first = any(n.endswith("BTreeSet::first") for n in names) or \
            (any(n.endswith("BTreeSet::iter") for n in names) and any(n.endswith("Iterator>::next") or n.endswith("::next") for n in names)
             and not any(n.split("::")[-1] in ("rev", "next_back", "last", "max", "nth", "skip") for n in names))
        ck.require(asc_first and not any(n.endswith("::last") for n in names),
                   "C04:FIRST:minimum", "ordered consumers", "first() is BTreeSet::first()",
                   "first() is no longer the minimum of the sorted set: %s" % names, fb.span)

    # ---- (4) successor
    common.successor_rule(ck, F, P)
    nl = get_fn(ck, F, "Program::next_line")
    if nl is not None:
        cs = nl.calls_to("ProgramLines::after")
        ok = False
        for c in cs:
            a = strip_expr(nl.expr(c.args[1]))
            if a[0] == "place" and a[2] and a[2][-1][0].endswith("ProgramLine") and \
                    ("abasic_core::program::Program", "location") in a[2]:
                ok = True
        ck.require(ok, "C04:SEQ:next_line-from-current", "sequencing",
                   "next_line asks after(current line)", "next_line does not advance from the current line", nl.span)
    rf = get_fn(ck, F, "Program::run_from_first_numbered_line")
    if rf is not None:
        ck.require(bool(rf.calls_to("ProgramLines::first")), "C04:SEQ:run-from-first", "sequencing",
                   "RUN starts at first()", "RUN no longer starts at the first line", rf.span)

    # ---- (5) edit path
    ev, store = common.edit_path_rules(ck, F, E, P)
    line_number_parser(ck, F)
    line_number_prefix(ck, F)
    stored_tokens_untouched(ck, F)
    # the offset parse_line_number returns is skipped in the very string it was computed on (shared with C05/C13)
    from props import C13
    C13.same_text_rule(ck, F, "C04", only=("evaluate_impl",))
    if ev is not None and store is not None:
        store_iff_numbered(ck, F, ev, store)
    unconditional_store(ck, F)

    # ---- (6) LIST prints list()
    mp = get_fn(ck, F, "Interpreter::maybe_process_command")
    if mp is not None:
        arm = command_arm(mp, "LIST")
        ok = False
        if arm is not None:
            calls = [c for c in mp.calls() if c.bb in arm]
            has_list = any(sfx(c.callee, "Program::list") for c in calls)
            ext = [c for c in calls if c.callee.endswith("::extend") and "output" in show(mp.expr(c.args[0]))]
            # or line by line: `for line in self.program.list() { self.print(line) }`
            from lib import call_names_deep
            prints = [c for c in calls if (sfx(c.callee, "Interpreter::print") or (c.callee.endswith("Vec::push") and "output" in show(mp.expr(c.args[0]))))
                      and "list" in call_names_deep(mp, mp.expr(c.args[1]))]
            ok = has_list and (bool(ext) or bool(prints))
        ck.require(ok, "C04:LIST:prints-list", "LIST", "the LIST arm extends Interpreter.output with Program::list()",
                   "the LIST command no longer prints Program::list()", mp.span)


def store_iff_numbered(ck, F, ev, store):
    """Whether an entered line is stored depends only on (a) the line-number parser finding a number and (b) the
    tokenizer accepting the rest -- never on the *value* of the number (every u64 from 0 up is a valid line number)."""
    from lib import controlling_switches
    bad = []
    n = 0
    for (sb, subj, names) in controlling_switches(ev, store.bb):
        n += 1
        e = strip_expr(subj)
        cs = [x[1] for x in expr_calls(subj)]
        if e[0] == "binop" and e[1] in ("Eq", "Ne", "Lt", "Le", "Gt", "Ge"):
            tys = []
            for side in (e[2], e[3]):
                sd = strip_expr(side)
                if sd[0] == "const":
                    tys.append(sd[1].get("ty"))
            if any(x.endswith("parse_line_number") for x in cs) or "u64" in tys:
                bad.append(show(subj)[:90])
    ck.require(n >= 1 and not bad, "C04:EDITPATH:store-iff-numbered", "edit path",
               "the store is reached under %d conditions, none of which compares the parsed line number with anything" % n,
               "whether evaluate_impl stores a line depends on the value of its number (%s): some line numbers between 0 and "
               "18446744073709551615 can no longer be entered, replaced or deleted" % bad, store.span)


def unconditional_store(ck, F):
    """Program::set_numbered_line always updates the line store: no early exit before ProgramLines::set."""
    b = get_fn(ck, F, "Program::set_numbered_line")
    if b is None:
        return
    cs = b.calls_to("ProgramLines::set")
    pd = b.postdominators()
    ok = len(cs) == 1 and (cs[0].bb in pd.get(0, set()) or cs[0].bb == 0)
    ck.require(ok, "C04:STORE:unconditional", "last writer wins",
               "every path through set_numbered_line passes ProgramLines::set",
               "Program::set_numbered_line has a path that returns without updating the line store: an entry can be "
               "silently dropped (e.g. because it compares equal to the stored line although it lists differently)", b.span)


def line_number_parser(ck, F):
    """parse_line_number returns None only when there is no leading digit run or u64 parsing fails (overflow)."""
    from lib import controlling_switches, aggregates
    b = get_fn(ck, F, "line_number_parser::parse_line_number")
    if b is None:
        return
    nones = [(bb, sp) for bb, i, pl, rv, sp in aggregates(b, "core::option::Option", "None") if pl["local"] == 0 and not pl["proj"]]
    # `x?` on an Option / `.ok()?` returns None through FromResidual
    nones += [(c.bb, c.span) for c in b.calls() if c.callee.endswith("from_residual") and c.dest["local"] == 0 and not c.dest["proj"]]
    ck.floor("C04.None returns of parse_line_number", len(nones), 2)
    bad = []
    for (bb, sp) in nones:
        for (sw, subj, names) in controlling_switches(b, bb):
            txt = show(subj)
            cn = [x[1].split("::")[-1] for x in expr_calls(subj)]
            ok = ("is_ascii_digit" in txt or "is_ascii_whitespace" in txt or "parse(" in txt or "parse" in txt and "Result" in txt or
                  ("count" in cn and "take_while" in cn) or           # `digit_count == 0`: no leading digit run
                  (cn[:1] == ["find"]) or
                  (cn and set(cn) <= {"is_some", "is_none"}) or       # "have digits been seen yet": presence, not value
                  (names and set(names.values()) <= {"None", "Some", "Ok", "Err", "Continue", "Break"}))
            if not ok:
                bad.append(txt[:100])
    ck.require(not bad, "C04:PARSE:none-only-for-stated-reasons", "line-number prefix",
               "parse_line_number gives up only on: no leading digits, or str::parse::<u64> failing",
               "parse_line_number can also return None depending on %s: some spellings of a valid line number (leading zeros, "
               "long digit runs) are no longer recognised, so entering them neither replaces nor deletes the line" % bad, b.span)
    ok = any(c.callee.endswith("<impl str>::parse") and c.gargs and c.gargs[0] == "u64" for c in b.calls())
    ck.require(ok, "C04:PARSE:u64", "line-number prefix", "the digit run is converted with str::parse::<u64>",
               "parse_line_number no longer converts with parse::<u64>", b.span, nontrivial=False)


def stored_tokens_untouched(ck, F):
    """"the last successfully tokenized non-empty text entered for that number": what is stored is what the tokenizer produced.
    Between `remaining_tokens()` and the store, the edit path does not edit the token vector -- stripping trailing colons, for
    instance, turns the spacer line `20 :` into an empty vector, which the store treats as a deletion of line 20."""
    ev = get_fn(ck, F, "Interpreter::evaluate_impl")
    if ev is None:
        return
    MUT = ("pop", "push", "retain", "truncate", "remove", "drain", "clear", "insert", "dedup", "swap_remove", "sort", "sort_by",
           "reverse", "split_off", "retain_mut", "dedup_by", "dedup_by_key", "extend", "append", "resize")
    edits = sorted({c.callee.split("::")[-1] for c in ev.calls()
                    if c.callee.split("::")[-1] in MUT and "alloc::vec::Vec" in c.callee and
                    "tokenizer::Token" in " ".join(c.gargs) + str((c.args[0].get("place") or {}).get("ty", "")) + show(ev.expr(c.args[0]))})
    ck.require(not edits, "C04:EDITPATH:tokens-stored-as-tokenized", "edit path",
               "evaluate_impl does not edit the token vector between tokenizing and storing",
               "evaluate_impl edits the token vector before it is stored (%s): a line whose text tokenizes fine can be stored as something "
               "else, or -- when nothing is left -- silently delete the line" % ", ".join(edits), ev.span)


def line_number_prefix(ck, F):
    """Only blanks may precede the digits of a line number: `PRINT 5` is not an edit of line 5.

    one-pass form: every iteration of the scan loop that goes on to the next character has either seen an ASCII digit or an
    ASCII blank; two-phase form: the digits are counted from the offset found by `find(|c| !c.is_ascii_whitespace())`."""
    from lib import iteration_paths, path_records, with_closures, ascii_digit_run
    b = get_fn(ck, F, "line_number_parser::parse_line_number")
    if b is None:
        return
    bodies = with_closures(F, b)
    checked = 0
    bad = []
    for body in bodies:
        its = iteration_paths(body)
        for r in path_records(body, paths=its):
            tests = [(d[0], d[2]) for d in r["decisions"] if "is_ascii_digit" in d[0] or "is_ascii_whitespace" in d[0]]
            if not any("is_ascii" in c.callee for c in body.calls()):
                continue                      # a loop that does not classify characters (none today)
            checked += 1
            if not any(v is True for (_, v) in tests):
                bad.append("an iteration that %s goes on to the next character" %
                           (", ".join("%s is %s" % (t.split("(")[0].split("::")[-1], v) for t, v in tests) or "tests nothing"))
    # two-phase form
    for c in b.calls():
        if not c.callee.endswith("<impl str>::find") and not c.callee.endswith("<impl str>::trim_start_matches") and \
                not c.callee.endswith("<impl str>::trim_start"):
            continue
        if c.callee.endswith("trim_start"):
            bad.append("str::trim_start strips Unicode blanks, not only ASCII ones")
            continue
        pred = strip_expr(b.expr(c.args[1]))
        cb = F.bodies.get(pred[1]) if pred[0] == "agg" else None
        if cb is None:
            continue
        checked += 1
        ws = [x for x in cb.calls() if x.callee.endswith("is_ascii_whitespace")]
        ret = strip_expr(cb._local_expr(0, 12))
        neg = ret is not None and ret[0] == "unop" and ret[1] == "Not"
        want_neg = c.callee.endswith("find")
        if len(ws) != 1 or len(cb.calls()) != 1 or neg != want_neg:
            bad.append("the predicate given to %s is not `%sc.is_ascii_whitespace()`" % (c.callee.split("::")[-1], "!" if want_neg else ""))
    ck.floor("C04.prefix scans of parse_line_number", checked, 1)
    ck.require(not bad, "C04:PARSE:only-blanks-before-the-number", "line-number prefix",
               "%d scan step(s): a character is skipped only when it is an ASCII blank (or is a digit of the number)" % checked,
               "parse_line_number skips characters that are neither blanks nor digits (%s): a direct-mode statement that merely "
               "contains a number (`PRINT 5`) is taken for an edit of that line and deletes or replaces it" % "; ".join(sorted(set(bad))),
               b.span)


def walk_places(e, acc=None):
    if acc is None:
        acc = []
    if not isinstance(e, tuple):
        return acc
    if e and e[0] == "place":
        acc.append(e)
    for x in e[1:]:
        if isinstance(x, tuple):
            walk_places(x, acc)
        elif isinstance(x, list):
            for y in x:
                walk_places(y, acc)
    return acc


def command_arm(body, word):
    """Blocks of the `match` arm taken when the command string equals `word`."""
    for c in body.calls():
        if c.callee.endswith("PartialEq>::eq") or c.callee.endswith("::eq"):
            if any(a["k"] == "const" and a.get("str") == word for a in c.args) and c.target is not None:
                t = body.term(c.target)
                if t["k"] == "switch":
                    tg = {int(v): x for v, x in t["targets"]}
                    true_t = t["otherwise"] if 0 in tg else tg.get(1)
                    false_t = tg.get(0, t["otherwise"])
                    if true_t is None:
                        return None
                    region = set()
                    for x in body.blocks_reachable_from(true_t):
                        if body.dominates(true_t, x):
                            region.add(x)
                    return region
    return None


def paired_update(ck, F, E, setf):
    fi = E.info[setf.path]
    try:
        paths = setf.paths()
    except OverflowError as e:
        ck.bad("C04:PAIR:paths", "paired update", str(e), setf.span)
        return
    empties = [c for c in setf.calls() if c.callee.endswith("Vec::is_empty") and strip_expr(setf.expr(c.args[0])) == ("param", 2)]
    ck.require(len(empties) == 1, "C04:PAIR:is-empty-test", "paired update",
               "set() branches on tokens.is_empty()", "set() no longer tests tokens.is_empty()", setf.span)
    empty_true = None
    if empties and empties[0].target is not None:
        t = setf.term(empties[0].target)
        if t["k"] == "switch":
            tg = {int(v): x for v, x in t["targets"]}
            empty_true = (empties[0].target, t["otherwise"] if 0 in tg else tg.get(1), tg.get(0, t["otherwise"]))
    kinds_seen = set()
    n = 0
    for path in paths:
        muts = []
        for b in path:
            c = setf.call_at(b)
            if c is None or c.is_local or not c.args:
                continue
            e = setf.expr(c.args[0])
            fields = [pl[2][-1][1] for pl in walk_places(e) if pl[2] and pl[2][-1][0].endswith("ProgramLines")]
            if not fields or not (e[0] == "ref" and e[2]):
                continue
            kind = c.callee.split("::")[-1]
            key = strip_expr(setf.expr(c.args[1])) if len(c.args) > 1 else None
            val = strip_expr(setf.expr(c.args[2])) if len(c.args) > 2 else None
            muts.append((fields[0], kind, key, val, c))
        n += 1
        sig = sorted((f, k) for (f, k, _k, _v, _c) in muts)
        ok_ins = sig == [("numbered_lines", "insert"), ("sorted_line_numbers", "insert")]
        ok_rem = sig == [("numbered_lines", "remove"), ("sorted_line_numbers", "remove")]
        keys_ok = all(k == ("param", 1) for (_f, _k2, k, _v, _c) in muts)
        val_ok = all(v == ("param", 2) for (f, k2, _k, v, _c) in muts if f == "numbered_lines" and k2 == "insert")
        which = "insert" if ok_ins else ("remove" if ok_rem else None)
        branch_ok = True
        if empty_true and which:
            sw, tt, ft = empty_true
            if sw in path:
                nxt = path[path.index(sw) + 1]
                branch_ok = (which == "remove") == (nxt == tt)
        good = (ok_ins or ok_rem) and keys_ok and val_ok and branch_ok
        if which:
            kinds_seen.add(which)
        if not good:
            ck.bad("C04:PAIR:path", "paired update",
                   "a path through ProgramLines::set mutates %s (keys %s): the two indexes can disagree, or the "
                   "remove pair is not taken exactly when the new line is empty, or the stored value is not the "
                   "`tokens` argument" % (sig, [show(k) for (_f, _k2, k, _v, _c) in muts if k]),
                   muts[0][4].span if muts else setf.span)
    ck.require(kinds_seen == {"insert", "remove"} and n >= 2, "C04:PAIR:all-paths", "paired update",
               "%d paths: each performs exactly one insert/insert or remove/remove pair on (sorted_line_numbers, "
               "numbered_lines), keyed by line_number, value = tokens, remove iff tokens.is_empty()" % n,
               "ProgramLines::set no longer has both an insert pair and a remove pair (seen: %s)" % sorted(kinds_seen),
               setf.span)
    # both start empty: derived Default
    d = F.one("<abasic_core::program_lines::ProgramLines as core::default::Default>::default")
    ck.require(d is not None, "C04:PAIR:starts-empty", "paired update", "ProgramLines derives Default (both empty)",
               "ProgramLines no longer has a Default impl to start both indexes empty")


def list_complete(ck, F):
    """"LIST shows exactly these lines": both listing functions emit one entry per stored line.  Loop form: every trip round the
    loop pushes exactly one entry onto the result; chain form: map + collect with nothing that drops or repeats elements."""
    from lib import iteration_paths, with_closures
    DROPS = ("filter", "filter_map", "skip", "skip_while", "take", "take_while", "step_by", "dedup", "truncate", "pop", "retain",
             "flat_map", "chain", "cycle", "remove", "drain")
    for fn in ("ProgramLines::list_tokens", "ProgramLines::list"):
        b = get_fn(ck, F, fn)
        if b is None:
            continue
        why = None
        trips = iteration_paths(b)
        names = {c.callee.split("::")[-1] for x in with_closures(F, b) for c in x.calls()}
        if trips:
            for p in trips:
                pushes = [b.call_at(x) for x in p[:-1] if b.call_at(x) is not None and b.call_at(x).callee.endswith("Vec<T, A>::push")
                          or b.call_at(x) is not None and b.call_at(x).callee.split("::")[-1] in ("push", "push_back")]
                if len(pushes) != 1:
                    why = "a trip round its loop pushes %d entries" % len(pushes)
        elif not ("collect" in names or "extend" in names or "from_iter" in names):
            why = "it neither loops over the lines nor collects an iterator over them"
        if why is None and names & set(DROPS):
            why = "it applies %s to the sequence of lines" % ",".join(sorted(names & set(DROPS)))
        if why is None and fn.endswith("list_tokens"):
            # the whole sorted set, not a sub-range of it (a half-open default range that ends at u64::MAX never shows that line)
            sub = sorted({c.callee.split("::")[-1] for x in with_closures(F, b) for c in x.calls()
                          if c.args and "sorted_line_numbers" in show(x.expr(c.args[0])) and
                          c.callee.split("::")[-1] in ("range", "split_off", "first", "last", "get", "take", "difference", "intersection")})
            if sub:
                why = "it walks only part of the sorted line set (%s)" % ",".join(sub)
        ck.require(why is None, "C04:LIST:one-entry-per-line:%s" % fn.split("::")[-1], "listing shape",
                   "%s emits exactly one entry per stored line" % fn.split("::")[-1],
                   "%s does not emit one entry per stored line (%s): LIST no longer shows exactly the stored program" % (fn, why), b.span)


def list_shape(ck, F, lb):
    """line number, blank, tokens joined by single blanks, newline."""
    from lib import with_helpers
    ok_join = False
    for bd in with_helpers(F, lb):
        for c in bd.calls():
            if c.callee.endswith("::join") and any(expr_const_str(bd.expr(a)) == " " for a in c.args):
                ok_join = True
    ck.require(ok_join, "C04:LISTSHAPE:join-blank", "listing shape", "tokens are joined with a single blank",
               "list() no longer joins token spellings with a single blank", lb.span)
    pieces = []
    for blk in lb.blocks:
        for st in blk["stmts"]:
            if st["k"] == "assign" and st["rv"]["k"] == "aggregate":
                for o in st["rv"]["ops"]:
                    if o["k"] == "const" and "str" in o:
                        pieces.append(o["str"])
            if st["k"] == "assign" and st["rv"]["k"] == "use" and st["rv"]["op"]["k"] == "const" and "str" in st["rv"]["op"]:
                pieces.append(st["rv"]["op"]["str"])
        t = blk["term"]
        if t["k"] == "call":
            for a in t["args"]:
                if a["k"] == "const" and "str" in a:
                    pieces.append(a["str"])
    ck.note("list_format_pieces", pieces)
