"""C16 -- runtime state stays within its caps and obeys name-suffix typing.

Inductive invariants, all writers enumerated through the effect analysis (the fields are
private, so the enumeration is complete by construction):
 1. every growth of Program.stack is dominated by a `len vs STACK_LIMIT` guard whose failing
    arm returns OutOfMemory(StackOverflow); STACK_LIMIT == 32
 2. loop_stack: same cap; the pushed symbol was removed first; NEXT re-inserts only what it
    removed; removal truncates (forget inner loops)
 3. INV-DIM: DimArray is built only in DimArray::new, after the MAX_DIM_TOTAL_ELEMENTS guard,
    with values.len() == product(dimensions), and the product cannot wrap
 4. suffix typing: the only insert into Variables.0 is dominated by a successful
    validate_type_matches_variable_name on the same name/value; the ValueArray variant is chosen
    by `$`; the validation truth table is right
"""
from lib import (sfx, get_fn, callers_of, on_ok_arm, strip_expr, strip_refs, show, aggregates, expr_calls, expr_params,
                 region_aggregates, exclusive_region, bool_switch_true_target)

LEVEL = "proof"
EXPLANATION = (
    "Inductive cap/typing invariants: every growth call on Program.stack / loop_stack is found through the "
    "effect analysis' write sites and must be dominated by a len-vs-STACK_LIMIT guard with an OutOfMemory error "
    "arm and no second push between guard and push; DimArray has one constructor site guarded by the element "
    "cap and free of wrapping arithmetic; Variables.0 has one inserter dominated by the suffix validation; the "
    "validation and coercion truth tables are extracted by path enumeration over enum discriminants."
)
TRUSTED = ["Vec::push grows by exactly one; vec![x; n] has n elements"]

GROW = ("::push", "::insert", "::extend", "::append", "::resize", "::extend_from_slice", "::push_within_capacity",
        "::resize_with", "::splice", "::extend_from_within")
PROGRAM = "abasic_core::program::Program"


def receiver_field(body, c):
    if not c.args:
        return None
    e = strip_refs(body.expr(c.args[0]))
    if e[0] == "place" and e[2]:
        return e[2][-1]
    return None


_LEN_TESTS = {}      # path of a bool method that returns `len(self.<field>) <op> <const>` -> that comparison (`is_stack_full`)


def collect_len_tests(F):
    _LEN_TESTS.clear()
    for p, b in F.bodies.items():
        if b.crate != "abasic_core" or b.local_ty(0) != "bool" or b.self_adt != PROGRAM or b.natural_loops():
            continue
        e = strip_expr(b.binding_expr(0))
        if e[0] == "binop" and e[1] in ("Eq", "Ge", "Gt", "Lt", "Le", "Ne") and len(b.calls()) == 1:
            _LEN_TESTS[p] = e


def find_len_guards(body, field, limit):
    """switch blocks testing len(self.<field>) against `limit`: [(switch_bb, over_target, under_target, op)]"""
    out = []
    for b in sorted(body.reachable()):
        t = body.term(b)
        if t["k"] != "switch":
            continue
        e = strip_expr(body.expr(t["discr"]))
        if e[0] == "call" and e[1] in _LEN_TESTS and e[2] and strip_refs(e[2][0]) == ("param", 0):
            e = _LEN_TESTS[e[1]]          # the named test, on the same `self`
        if e[0] != "binop" or e[1] not in ("Eq", "Ge", "Gt", "Lt", "Le", "Ne"):
            continue
        a, c = strip_expr(e[2]), strip_expr(e[3])
        swapped = False
        if a[0] == "const":
            a, c = c, a
            swapped = True
        if c[0] != "const" or "int" not in c[1]:
            continue
        if not (a[0] == "call" and a[1].endswith("::len")):
            continue
        recv = strip_refs(a[2][0])
        if not (recv[0] == "place" and recv[2] and recv[2][-1] == (PROGRAM, field)):
            continue
        val = c[1]["int"]
        op = e[1]
        if swapped:
            op = {"Lt": "Gt", "Gt": "Lt", "Le": "Ge", "Ge": "Le"}.get(op, op)
        ft = bool_switch_true_target(body, b)
        if ft is None:
            continue
        false_t, true_t = ft
        # normalise to: `over` = target taken when len has reached the limit
        if (op == "Eq" and val == limit) or (op == "Ge" and val == limit) or (op == "Gt" and val == limit - 1):
            out.append((b, true_t, false_t, "%s %d" % (op, val)))
        elif (op == "Ne" and val == limit) or (op == "Lt" and val == limit) or (op == "Le" and val == limit - 1):
            out.append((b, false_t, true_t, "%s %d" % (op, val)))
    return out


def cap_rule(ck, F, E, field, limit, floor_pushes):
    n = 0
    for body in F.bodies.values():
        if body.crate != "abasic_core":
            continue
        for c in body.calls():
            if c.is_local:
                continue
            rf = receiver_field(body, c)
            if rf != (PROGRAM, field):
                continue
            if not any(c.callee.endswith(g) for g in GROW):
                continue
            n += 1
            key = "C16:CAP:%s:%s:%s" % (field, body.path, c.callee.split("::")[-1])
            if not c.callee.endswith("::push"):
                ck.bad(key, "cap guard", "Program.%s grows through %s, for which no cap argument exists"
                       % (field, c.callee), c.span)
                continue
            guards = find_len_guards(body, field, limit)
            ok = None
            for (g, over_t, under_t, how) in guards:
                if not body.dominates(under_t, c.bb) or body.dominates(over_t, c.bb):
                    continue
                # the over-limit arm reports OutOfMemory(StackOverflow) and never reaches the push
                oreg = body.blocks_reachable_from(over_t)
                if c.bb in oreg:
                    continue
                aggs = region_aggregates(body, exclusive_region(body, over_t))
                if not any(a[1] == "StackOverflow" for a in aggs):
                    continue
                # no other growth of the same vector between guard and push
                between = body.blocks_reachable_from(under_t) - {c.bb}
                other = [c2 for c2 in body.calls() if c2.bb in between and c2 is not c and
                         receiver_field(body, c2) == (PROGRAM, field) and not c2.is_local and
                         any(c2.callee.endswith(g2) for g2 in GROW) and body.reaches(c2.bb, c.bb)]
                if other:
                    continue
                ok = "guard `len(%s) %s` at bb%d dominates the push; over-limit arm returns StackOverflow" % (field, how, g)
                break
            # the guard may live in a helper called with `?` (`self.ensure_room_on_stack()?;`): a Program method that tests
            # len(field) against the limit, fails with StackOverflow on the over-limit arm and never grows the vector
            if ok is None:
                from lib import on_ok_arm
                for g in body.calls():
                    gb = F.bodies.get(g.callee)
                    if gb is None or gb.self_adt != PROGRAM or g.bb == c.bb:
                        continue
                    hg = find_len_guards(gb, field, limit)
                    grows = [x for x in gb.calls() if not x.is_local and receiver_field(gb, x) == (PROGRAM, field)
                             and any(x.callee.endswith(g2) for g2 in GROW)]
                    if not hg or grows:
                        continue
                    if not any(any(a[1] == "StackOverflow" for a in region_aggregates(gb, exclusive_region(gb, over_t)))
                               for (_g, over_t, _u, _h) in hg):
                        continue
                    if not on_ok_arm(body, g, c.bb):
                        continue
                    other = [c2 for c2 in body.calls() if c2 is not c and not c2.is_local and
                             receiver_field(body, c2) == (PROGRAM, field) and any(c2.callee.endswith(g2) for g2 in GROW)
                             and body.reaches(g.bb, c2.bb) and body.reaches(c2.bb, c.bb)]
                    if other:
                        continue
                    ok = "guarded by %s()? (len(%s) vs %d, StackOverflow on the over-limit arm)" % (g.callee.split("::")[-1], field, limit)
                    break
            # re-insertion of the element just removed from the same vector (net size not increased)
            if ok is None and len(c.args) > 1:
                v = strip_expr(body.expr(c.args[1]))
                calls = [x[1] for x in expr_calls(v)]
                if any(sfx(x, "Program::remove_loop_with_name") for x in calls) and field == "loop_stack":
                    ok = "re-inserts the LoopInfo just removed by remove_loop_with_name (size does not grow)"
            ck.require(ok is not None, key, "cap guard", ok or "",
                       "push on Program.%s in %s is not dominated by a `len() vs %d` guard whose failing arm returns "
                       "OUT OF MEMORY (STACK OVERFLOW): the %d-entry cap can be exceeded" % (field, body.path, limit, limit),
                       c.span)
    ck.floor("C16.growth sites of Program.%s" % field, n, floor_pushes)


def loop_names_unique(ck, F):
    """"no two loops for the same variable": the only place a LoopInfo enters the FOR stack is start_loop, and every successful
    path of it first removes any loop of that name (remove_loop_with_name) -- a fast path that overwrites the innermost entry in
    place skips the removal, and two direct-mode FOR lines that share a location leave two entries for one variable."""
    from lib import path_records
    sl = get_fn(ck, F, "Program::start_loop")
    if sl is None:
        return
    bad = 0
    n = 0
    for r in path_records(sl):
        if r["outcome"] is not None and str(r["outcome"]).startswith("Err"):
            continue
        n += 1
        if not any(sfx(c.callee, "Program::remove_loop_with_name") for c in r["calls"]):
            bad += 1
    ck.require(n > 0 and bad == 0, "C16:LOOPS:start-removes-same-name", "loop stack",
               "every successful path of start_loop passes remove_loop_with_name first (%d path(s))" % n,
               "Program::start_loop can register a loop without first removing the loops of the same name (%d of %d successful "
               "paths): the FOR stack can hold two loops for one variable" % (bad, n), sl.span)


def subscript_conversion(ck, F):
    """An over-cap DIM is reported as OUT OF MEMORY by the capped constructor; that requires the subscript to reach it: the
    conversion in evaluate_array_index is the full-width `usize::try_from(value as i64)`, not a narrower integer type that turns
    large subscripts into ILLEGAL QUANTITY before the cap is consulted."""
    b = F.one("ExpressionEvaluator::evaluate_array_index")
    if b is None:
        ck.missing("C16:CAP:subscript-conversion", "ExpressionEvaluator::evaluate_array_index")
        return
    tf = [c for c in b.calls() if c.callee.endswith("::try_from") and "TryFrom<" in c.callee]
    narrow = [c.gargs[0] for c in tf if c.gargs and c.gargs[0] not in ("usize", "u64", "u128")]
    ck.require(bool(tf) and not narrow, "C16:CAP:subscript-conversion", "array cap",
               "subscripts are converted with usize::try_from",
               "evaluate_array_index converts subscripts through %s: a DIM beyond that type's range fails with ILLEGAL QUANTITY "
               "instead of the OUT OF MEMORY the cap prescribes" % (", ".join(narrow) or "no checked conversion"), b.span)


def run(ck, F, E):
    collect_len_tests(F)
    loop_names_unique(ck, F)
    subscript_conversion(ck, F)
    limit = F.const("program::STACK_LIMIT")
    ck.require(limit == 32, "C16:CONST:STACK_LIMIT", "constants", "STACK_LIMIT == 32",
               "STACK_LIMIT is %r, the property says 32" % limit)
    maxel = F.const("arrays::MAX_DIM_TOTAL_ELEMENTS")
    ck.require(maxel == 10000, "C16:CONST:MAX_DIM_TOTAL_ELEMENTS", "constants", "MAX_DIM_TOTAL_ELEMENTS == 10000",
               "MAX_DIM_TOTAL_ELEMENTS is %r, the property says 10000" % maxel)
    if limit is None:
        limit = 32
    cap_rule(ck, F, E, "stack", limit, 1)
    cap_rule(ck, F, E, "loop_stack", limit, 1)
    loop_rules(ck, F, E)
    dim_rules(ck, F, E, maxel or 10000)
    typing_rules(ck, F, E)


# ------------------------------------------------------------------ loops
def loop_rules(ck, F, E):
    sl = get_fn(ck, F, "Program::start_loop")
    if sl is not None:
        pushes = [c for c in sl.calls() if c.callee.endswith("Vec::push") and receiver_field(sl, c) == (PROGRAM, "loop_stack")]
        rm = sl.calls_to("Program::remove_loop_with_name")
        ok = False
        for p in pushes:
            v = strip_expr(sl.expr(p.args[1]))
            sym = None
            if v[0] == "agg" and str(v[1]).endswith("LoopInfo"):
                # field order from the ADT
                names = F.adt_fields("program::LoopInfo")
                sym = strip_expr(v[3][names.index("symbol")])
            for r in rm:
                rsym = strip_expr(sl.expr(r.args[1]))
                if sym is not None and sym == rsym and sl.dominates(r.bb, p.bb):
                    ok = True
        ck.require(ok, "C16:LOOP:unique", "loop uniqueness",
                   "start_loop removes any loop for the pushed symbol before pushing",
                   "start_loop pushes a loop without first removing the loop of the same variable: duplicates "
                   "accumulate when a FOR is re-entered via GOTO", sl.span)
    rl = get_fn(ck, F, "Program::remove_loop_with_name")
    if rl is not None:
        trunc = []
        single = []
        for c in rl.calls():
            if receiver_field(rl, c) != (PROGRAM, "loop_stack") or c.is_local:
                continue
            nm = c.callee.split("::")[-1]
            if nm in ("drain",):
                if any("RangeFrom" in g for g in c.gargs):
                    trunc.append(nm + "(i..)")
                else:
                    single.append(nm + " with " + ",".join(c.gargs[-1:]))
            elif nm in ("truncate", "split_off"):
                trunc.append(nm)
            elif nm in ("remove", "swap_remove", "pop"):
                single.append(nm)
        ck.require(bool(trunc) and not single, "C16:LOOP:truncating-removal", "loop forgetting",
                   "remove_loop_with_name removes the match and everything above it (%s)" % ",".join(trunc),
                   "remove_loop_with_name no longer truncates the loop stack at the found index (%s): inner loops "
                   "are not forgotten and abandoned loops accumulate" % (single or "no truncation found"), rl.span)
        # the index flowing into the truncation is the found index (search compares symbols)
        # (the comparison may sit in the loop body or in the closure handed to position / rposition / find)
        from lib import expr_has_field
        ok = False
        for bd in [rl] + [F.bodies[p] for p in sorted(F.bodies) if p.startswith(rl.path + "::{closure")]:
            for c in bd.calls():
                if (c.callee.endswith("::eq") or c.callee.endswith("::ne")) and any(expr_has_field(bd.expr(a), "symbol") for a in c.args):
                    ok = True
        ck.require(ok, "C16:LOOP:search-by-symbol", "loop forgetting", "search compares LoopInfo.symbol with the name",
                   "remove_loop_with_name no longer searches by symbol", rl.span)


# ------------------------------------------------------------------ arrays
def dim_rules(ck, F, E, maxel):
    sites = []
    for body in F.bodies.values():
        if body.crate != "abasic_core":
            continue
        for b, i, pl, rv, sp in aggregates(body, "arrays::DimArray"):
            sites.append((body, b, rv, sp))
    ck.require(len(sites) == 1 and sfx(sites[0][0].path, "DimArray::new"), "C16:DIM:single-constructor",
               "INV-DIM", "DimArray is constructed only in DimArray::new",
               "DimArray is constructed at %s" % [s[0].path for s in sites])
    # nobody writes its fields afterwards except through index assignment of `values`
    for field in ("dimensions",):
        ws = E.writers_of_field("arrays::DimArray", field)
        ck.require(not ws, "C16:DIM:immutable-%s" % field, "INV-DIM", "DimArray.%s is never written after construction" % field,
                   "DimArray.%s is modified after construction in %s" % (field, sorted(ws)))
    vw = E.writers_of_field("arrays::DimArray", "values")
    ck.require(all(sfx(n, "DimArray::set") for n in vw), "C16:DIM:values-writers", "INV-DIM",
               "DimArray.values is written only by DimArray::set (element store)",
               "DimArray.values is modified in %s" % sorted(vw))
    nb = get_fn(ck, F, "DimArray::new")
    if nb is None:
        return
    (body, bb, rv, sp) = sites[0] if sites else (nb, 0, None, nb.span)
    if rv is not None:
        names = F.adt_fields("arrays::DimArray")
        vals = strip_expr(nb.expr(rv["ops"][names.index("values")]))
        dims = strip_expr(nb.expr(rv["ops"][names.index("dimensions")]))
        ok = vals[0] == "call" and vals[1].endswith("from_elem")
        total = strip_expr(vals[2][1]) if ok and len(vals[2]) > 1 else None
        ck.require(ok, "C16:DIM:values=vec![default;total]", "INV-DIM", "values = vec![T::default(); total_elements]",
                   "DimArray.values is no longer vec![default; total_elements]: %s" % show(vals), sp)
        # guard on total > MAX dominates construction
        g_ok = False
        for b in sorted(nb.reachable()):
            t = nb.term(b)
            if t["k"] != "switch":
                continue
            e = strip_expr(nb.expr(t["discr"]))
            if e[0] == "binop" and e[1] in ("Gt", "Ge", "Le", "Lt"):
                a, c = strip_expr(e[2]), strip_expr(e[3])
                if c[0] == "const" and c[1].get("int") in (maxel, maxel + 1) and total is not None and _same_value(a, total):
                    ft = bool_switch_true_target(nb, b)
                    if ft is None:
                        continue
                    false_t, true_t = ft
                    over, under = (true_t, false_t) if e[1] in ("Gt", "Ge") else (false_t, true_t)
                    exact = (e[1] == "Gt" and c[1]["int"] == maxel) or (e[1] == "Ge" and c[1]["int"] == maxel + 1) or \
                            (e[1] == "Le" and c[1]["int"] == maxel) or (e[1] == "Lt" and c[1]["int"] == maxel + 1)
                    aggs = region_aggregates(nb, exclusive_region(nb, over))
                    if exact and nb.dominates(under, bb) and any(a2[1] == "ArrayTooLarge" for a2 in aggs) \
                            and bb not in nb.blocks_reachable_from(over):
                        g_ok = True
        ck.require(g_ok, "C16:DIM:cap-guard", "INV-DIM",
                   "`total_elements > MAX_DIM_TOTAL_ELEMENTS -> ArrayTooLarge` dominates the construction, on the same "
                   "value that sizes `values`",
                   "DimArray::new no longer rejects total_elements > %d before allocating (or tests a different value "
                   "than the one that sizes the cell vector)" % maxel, nb.span)
        # dimensions are the factors of that product: each pushed dimension_size multiplies total
        pushes = [c for c in nb.calls() if c.callee.endswith("Vec::push")]
        prod_ok = False
        for p in pushes:
            pv = strip_expr(nb.expr(p.args[1]))
            for cc in mul_sites(nb):
                if pv in cc["operands"]:
                    prod_ok = True
        if not prod_ok and rv is not None:
            # iterator form: dimensions = max_indices.iter().map(|m| m.checked_add(1)).collect()?;
            #                total = dimensions.iter().try_fold(1, |t, &d| t.checked_mul(d))?   -- over that very vector
            dop = rv["ops"][names.index("dimensions")]
            dl = dop["place"]["local"] if dop.get("k") in ("copy", "move") and not dop["place"]["proj"] else None
            dl = _root_local(nb, dl) if dl is not None else None
            tf = [c for c in nb.calls() if c.callee.split("::")[-1] == "try_fold"]
            for c in tf:
                init = strip_expr(nb.expr(c.args[1])) if len(c.args) > 1 else None
                over_dims = dl is not None and any(_root_local(nb, l_) == dl for l_ in _locals_in(nb.expr(c.args[0], depth=6)))
                clos = [cb for p_, cb in F.bodies.items() if p_.startswith(nb.path + "::{closure") and
                        any(x.callee.endswith("checked_mul") for x in cb.calls())]
                feeds_total = total is not None and any(len(x) > 3 and x[3] is c for x in expr_calls(total))
                if init is not None and init[0] == "const" and init[1].get("int") == 1 and over_dims and clos and feeds_total:
                    prod_ok = True
        ck.require(prod_ok, "C16:DIM:product-of-pushed-dimensions", "INV-DIM",
                   "each pushed dimension size is a factor of total_elements",
                   "the dimension pushed into `dimensions` is no longer the factor multiplied into total_elements: "
                   "cell count can differ from the product of the dimensions", nb.span)
    # product / increment cannot wrap
    wraps = []
    for b in sorted(nb.reachable()):
        t = nb.term(b)
        if t["k"] == "assert" and t["kind"].startswith("Overflow"):
            wraps.append((t["kind"], nb.blocks[b]["tspan"]["line"]))
    for c in nb.calls():
        nm = c.callee.split("::")[-1]
        if nm.startswith("wrapping_") or nm.startswith("unchecked_") or nm.startswith("overflowing_"):
            wraps.append((nm, c.span.line))
    for (kind, line) in wraps:
        op = kind.split(":")[-1]
        ck.bad("C16:OVF:arrays::DimArray::new:%s" % op, "INV-DIM (no wrap)",
               "DimArray::new computes the cell count with overflow-checked `%s` on host-controlled subscripts: it "
               "panics in debug builds and wraps in release builds (DIM A(4294967295,4294967295) yields a 0-cell "
               "array that passes the cap), so cell count != product of dimensions" % op,
               "abasic-core/src/arrays.rs:%d" % line)
    if not wraps:
        ck.ok("C16:OVF:arrays::DimArray::new", "INV-DIM (no wrap)",
              "no overflow-asserting or wrapping arithmetic in DimArray::new (checked_* with error arms only)")
    # get_linear_index rejects wrong arity and out-of-range subscripts
    gl = get_fn(ck, F, "DimArray::get_linear_index")
    if gl is not None:
        from lib import with_closures
        bads = []
        cmp_ops = []
        for part in with_closures(F, gl):      # the per-axis test may sit in a `try_fold` / `map` closure
            bads += [a for a in region_aggregates(part, part.reachable()) if a[1] == "BadSubscript"]
            for b in sorted(part.reachable()):
                t = part.term(b)
                if t["k"] == "switch":
                    e = strip_expr(part.expr(t["discr"]))
                    if e[0] == "binop":
                        cmp_ops.append(e[1])
        ck.require(len(bads) >= 2 and "Ne" in cmp_ops or "Eq" in cmp_ops, "C16:DIM:arity-check", "INV-DIM",
                   "get_linear_index compares arity and returns BadSubscript",
                   "get_linear_index lost its arity check", gl.span)
        # ... or validates all subscripts up front: `if zip(indices, dimensions).any(|(i, size)| i >= size) { return Err(..) }`
        from lib import any_guard
        for (sb_, none_arm, ops_, ac) in any_guard(F, gl):
            if "Ge" in ops_ and "dimensions" in show(gl.expr(ac.args[0])):
                cmp_ops.append("Ge")
        ck.require(any(o in ("Ge", "Lt") for o in cmp_ops), "C16:DIM:range-check", "INV-DIM",
                   "get_linear_index rejects index >= dimension",
                   "get_linear_index lost (or weakened) its `index >= dimension` check: %s" % cmp_ops, gl.span)


def _same_value(a, b):
    """structurally equal, or both the same projection of the result of one and the same call"""
    if a == b:
        return True
    if a[0] == "place" and b[0] == "place" and a[2] == b[2] and isinstance(a[1], tuple) and isinstance(b[1], tuple) and \
            a[1][0] == "call" and b[1][0] == "call" and len(a[1]) > 3 and len(b[1]) > 3 and a[1][3] is b[1][3]:
        return True
    return False


def _root_local(body, l, depth=6):
    """the user variable a temporary was moved / copied / borrowed from"""
    while depth > 0:
        d = body.unique_def(l)
        if d is None or d[0] != "assign":
            return l
        rv = d[3]
        if rv["k"] == "use" and rv["op"].get("k") in ("copy", "move") and not rv["op"]["place"]["proj"]:
            l = rv["op"]["place"]["local"]
        elif rv["k"] == "ref" and not rv["place"]["proj"]:
            l = rv["place"]["local"]
        else:
            return l
        depth -= 1
    return l


def _locals_in(e):
    out = set()
    if isinstance(e, tuple):
        if e and e[0] == "local":
            out.add(e[1])
        for x in e[1:]:
            if isinstance(x, (tuple, list)):
                out |= _locals_in(x)
    elif isinstance(e, list):
        for x in e:
            out |= _locals_in(x)
    return out


def _mentions_local(e, l):
    if isinstance(e, tuple):
        if e and e[0] == "local" and e[1] == l:
            return True
        return any(_mentions_local(x, l) for x in e[1:] if isinstance(x, (tuple, list)))
    if isinstance(e, list):
        return any(_mentions_local(x, l) for x in e)
    return False


def mul_sites(body):
    out = []
    for b, i, pl, rv, sp in body.assigns():
        if rv["k"] == "binop" and rv["op"] in ("Mul", "MulWithOverflow", "MulUnchecked"):
            out.append({"operands": [strip_expr(body.expr(rv["a"])), strip_expr(body.expr(rv["b"]))]})
    for c in body.calls():
        nm = c.callee.split("::")[-1]
        if nm in ("checked_mul", "saturating_mul", "wrapping_mul"):
            out.append({"operands": [strip_expr(body.expr(a)) for a in c.args]})
    return out


# ------------------------------------------------------------------ typing
_DOLLAR = [set()]


def truth_table(body, fn_name):
    """For a fn(value-ish, name) whose body switches on ends_with('$') and on an enum discriminant:
    enumerate paths -> {(dollar, variant): 'Ok'|'Err:<variant>'}"""
    table = {}
    for path in body.paths():
        dollar = None
        variant = None
        for idx, b in enumerate(path[:-1]):
            nxt = path[idx + 1]
            t = body.term(b)
            if t["k"] != "switch":
                continue
            info = body.switch_info(b)
            subject, targets, otherwise, names = info
            if names:
                for v, n in names.items():
                    if targets.get(v, otherwise) == nxt and (v in targets or nxt == otherwise):
                        if variant is None and n in ("String", "Number"):
                            tv = targets.get(v)
                            if tv == nxt or (tv is None and nxt == otherwise):
                                variant = n
            else:
                e = strip_expr(subject)
                if e[0] == "call" and (e[1].endswith("ends_with") or e[1] in _DOLLAR[0]):
                    ft = bool_switch_true_target(body, b)
                    if ft:
                        dollar = (nxt == ft[1])
        res = None
        for b in path:
            for st in body.blocks[b]["stmts"]:
                if st["k"] == "assign" and not st["place"]["proj"] and st["place"]["local"] == 0 and \
                        st["rv"]["k"] == "aggregate" and st["rv"].get("variant") in ("Ok", "Err"):
                    res = st["rv"]["variant"]
        errs = [a for b in path for a in region_aggregates(body, {b}) if a[0].endswith("InterpreterError")]
        if res == "Err" and errs:
            res = "Err:" + errs[-1][1]
        if dollar is not None and variant is not None:
            table.setdefault((dollar, variant), set()).add(res)
    return table


def typing_rules(ck, F, E):
    # Variables.0 single inserter, validated
    ws = E.writers_of_field("variables::Variables", "0")
    ck.require(bool(ws) and all(sfx(n, "Variables::set") for n in ws), "C16:TYPE:Variables-writers", "suffix typing",
               "Variables.0 is modified only in Variables::set",
               "Variables.0 is modified in %s" % sorted(ws))
    vs = get_fn(ck, F, "Variables::set")
    if vs is not None:
        ins = [c for c in vs.calls() if c.callee.endswith("HashMap::insert")]
        val = vs.calls_to("Value::validate_type_matches_variable_name")
        ok = False
        for i in ins:
            for v in val:
                # validated value = inserted value (param 2), validated name = inserted key (param 1)
                vv = strip_expr(vs.expr(v.args[0]))
                vn = strip_expr(vs.expr(v.args[1]))
                iv = strip_expr(vs.expr(i.args[2]))
                ik = strip_expr(vs.expr(i.args[1]))
                name_ok = "arg1" in show(vn) and ik == ("param", 1)
                if vv == ("param", 2) and iv == ("param", 2) and name_ok and on_ok_arm(vs, v, i.bb):
                    ok = True
        ck.require(ok, "C16:TYPE:Variables::set-validated", "suffix typing",
                   "the insert is reachable only from the Ok arm of validate_type_matches_variable_name(value, name) "
                   "on the same name and value",
                   "Variables::set inserts without a dominating successful suffix validation of the same name/value: "
                   "a string could be stored under a name without `$` (or a number under `$`)", vs.span)
    from lib import dollar_predicates
    _DOLLAR[0] = dollar_predicates(F)
    vt = get_fn(ck, F, "Value::validate_type_matches_variable_name")
    if vt is not None:
        tt = truth_table(vt, "validate")
        want = {(True, "String"): {"Ok"}, (True, "Number"): {"Err:TypeMismatch"},
                (False, "String"): {"Err:TypeMismatch"}, (False, "Number"): {"Ok"}}
        ck.note("validate_truth_table", {"%s/%s" % k: sorted(v) for k, v in tt.items()})
        for cell, exp in want.items():
            ck.require(tt.get(cell) == exp, "C16:TYPE:validate[%s,%s]" % ("$" if cell[0] else "no$", cell[1]),
                       "suffix typing table", "-> %s" % sorted(exp),
                       "validate_type_matches_variable_name maps (%s, %s) to %s, expected %s" %
                       ("name ends with $" if cell[0] else "no $", cell[1], sorted(tt.get(cell) or []), sorted(exp)),
                       vt.span)
    # arrays: variant chosen by `$` only in ValueArray::create; set converts via try_into
    sites = []
    for body in F.bodies.values():
        if body.crate != "abasic_core":
            continue
        from lib import variant_sites, is_ctor_shim
        if is_ctor_shim(body):
            continue        # `ValueArray::String` used as a function: its users are the sites
        for (b, var) in variant_sites(F, body, "arrays::ValueArray"):
            sites.append((body, b, var))
    ck.require(bool(sites) and all(sfx(s[0].path, "ValueArray::create") for s in sites), "C16:TYPE:ValueArray-constructor",
               "suffix typing", "ValueArray variants are constructed only in ValueArray::create",
               "ValueArray is constructed in %s" % sorted({s[0].path for s in sites}))
    vc = get_fn(ck, F, "ValueArray::create")
    if vc is not None:
        ok = False
        for b in sorted(vc.reachable()):
            t = vc.term(b)
            if t["k"] != "switch":
                continue
            e = strip_expr(vc.expr(t["discr"]))
            if e[0] == "call" and e[1].endswith("ends_with") and any(
                    x[0] == "const" and x[1].get("int") == 36 for x in [strip_expr(a) for a in e[2]]):
                ft = bool_switch_true_target(vc, b)
                vs_ = variant_sites(F, vc, "arrays::ValueArray")
                treg, freg = exclusive_region(vc, ft[1]), exclusive_region(vc, ft[0])
                tv = {var for (bb_, var) in vs_ if bb_ in treg}
                fv = {var for (bb_, var) in vs_ if bb_ in freg}
                if tv == {"String"} and fv == {"Number"}:
                    ok = True
        ck.require(ok, "C16:TYPE:ValueArray-by-suffix", "suffix typing",
                   "ends_with('$') -> ValueArray::String, otherwise ValueArray::Number",
                   "ValueArray::create no longer chooses String for names ending in `$` and Number otherwise", vc.span)
    # implicit and explicit creation both go through create
    for fn in ("ValueArray::default_for_variable_and_dimensionality",):
        b = get_fn(ck, F, fn)
        if b is not None:
            ck.require(bool(b.calls_to("ValueArray::create")), "C16:TYPE:%s" % fn, "suffix typing",
                       "implicit arrays are created through ValueArray::create", "%s bypasses ValueArray::create" % fn, b.span)
    # Arrays.0 inserters pass the same name to create and to insert
    aw = E.writers_of_field("arrays::Arrays", "0")
    allowed = ("Arrays::create", "Arrays::maybe_create_default_array", "Arrays::set_value_at_index")
    from lib import allowed_via_callers
    ck.require(bool(aw) and all(allowed_via_callers(F, n, allowed + ("Arrays::get_value_at_index",)) for n in aw), "C16:TYPE:Arrays-writers", "suffix typing",
               "Arrays.0 is modified only in %s" % sorted(aw), "Arrays.0 is modified in %s" % sorted(aw))
    for fn in ("Arrays::create", "Arrays::maybe_create_default_array"):
        b = get_fn(ck, F, fn)
        if b is None:
            continue
        ins = [c for c in b.calls() if c.callee.endswith("HashMap::insert")]
        ok = False
        for i in ins:
            v = strip_expr(b.expr(i.args[2]))
            k = show(strip_expr(b.expr(i.args[1])))
            calls = expr_calls(v)
            for cc in calls:
                if sfx(cc[1], "ValueArray::create") or sfx(cc[1], "ValueArray::default_for_variable_and_dimensionality"):
                    if 1 in expr_params(cc[2][0]) and 1 in expr_params(strip_expr(b.expr(i.args[1]))):
                        ok = True
        if not ok:
            # `ValueArray::create(name.as_str(), ..).map(|array| { self.0.insert(name, array); })`
            from lib import with_closures, resolve_captures
            for cb in with_closures(F, b)[1:]:
                for i in [c for c in cb.calls() if c.callee.endswith("HashMap::insert")]:
                    key = resolve_captures(F, cb, cb.expr(i.args[1]))
                    val = strip_expr(cb.expr(i.args[2]))
                    if val == ("param", 1) and 1 in expr_params(key):
                        for mc in b.calls():
                            if mc.callee.split("::")[-1] == "map" and "Result" in mc.callee and mc.args:
                                recv = strip_expr(b.expr(mc.args[0]))
                                if recv[0] == "call" and (sfx(recv[1], "ValueArray::create") or
                                                          sfx(recv[1], "ValueArray::default_for_variable_and_dimensionality")) and \
                                        1 in expr_params(recv[2][0]):
                                    ok = True
        ck.require(ok, "C16:TYPE:%s-same-name" % fn, "suffix typing",
                   "the array inserted under a name was created for that same name",
                   "%s inserts an array created for a different name than its key" % fn, b.span)
    # element stores convert with TryFrom to the variant's element type (type system does the rest)
    sv = get_fn(ck, F, "Arrays::set_value_at_index")
    if sv is not None:
        ck.require(bool(sv.calls_to("Value::validate_type_matches_variable_name")), "C16:TYPE:array-store-validated",
                   "suffix typing", "set_value_at_index validates the value against the array name",
                   "set_value_at_index no longer validates the value kind against the array name", sv.span)
    # function parameters are bound through Variables::set
    ud = get_fn(ck, F, "ExpressionEvaluator::evaluate_user_defined_function_call")
    if ud is not None:
        ck.require(bool(ud.calls_to("Variables::set")), "C16:TYPE:params-via-set", "suffix typing",
                   "function parameters are bound with Variables::set (validated)",
                   "function parameter binding bypasses Variables::set", ud.span)


def on_continue_arm(body, call, bb):
    """bb is reachable only through the Continue arm of `call(...)?`"""
    if call.target is None:
        return False
    # find Try::branch of the call's result
    for c in body.calls():
        if c.callee.endswith("::branch") and c.args:
            e = body.expr(c.args[0])
            if e[0] == "call" and e[3] is call and c.target is not None:
                info = body.switch_info(c.target)
                if info and info[3]:
                    subject, targets, otherwise, names = info
                    for v, n in names.items():
                        if n == "Continue":
                            t = targets.get(v, otherwise)
                            return body.dominates(t, bb)
    return False
