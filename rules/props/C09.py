"""C09 -- one host call executes at most one statement and always hands control back.

 1. at most one top-level statement per call: on every path through continue_evaluating / start_evaluating
    (evaluate_impl, each arm of maybe_process_command) run_next_statement is called at most once; in
    run_next_statement evaluate_statement is called at most once and not inside a loop
 2. nesting is a chain: evaluate_statement re-enters itself only through IF -> statement_or_goto, once
 3. no interpreter-level run loop in the core
 4. loop progress: every cursor-driven loop consumes a token per iteration (work bounded by line length for
    programs without user functions)
"""
from lib import (sfx, get_fn, callers_of, strip_expr, show, expr_calls, bool_switch_true_target)
import panics
import progress

LEVEL = "other"
EXPLANATION = (
    "Path-count and progress argument on the MIR: the entry points are loop-free and every path through them contains "
    "at most one call of run_next_statement (paths of maybe_process_command that execute a statement return true, and "
    "evaluate_impl returns on true before its own call site); run_next_statement calls the statement dispatcher at "
    "most once, outside any loop; the dispatcher re-enters itself only through the IF chain; every natural loop "
    "reachable from run_next_statement is either driven by a finite std iterator / monotone counter or consumes a token "
    "on each header-to-header path (MustConsume greatest fixpoint over the recursive-descent functions).  Wall-clock "
    "bounds are not decided; whole-program loops (DATA scan on first READ, string GC on return to idle) are listed."
)
TRUSTED = []


def count_calls(body, path, suffix):
    n = 0
    for b in path:
        c = body.call_at(b)
        if c is not None and sfx(c.callee, suffix):
            n += 1
    return n


def run(ck, F, E):
    # ---- (1)
    for fn in ("Interpreter::continue_evaluating", "Interpreter::start_evaluating", "Interpreter::evaluate_impl",
               "Interpreter::run_next_statement", "Interpreter::postprocess_result", "Interpreter::maybe_process_command"):
        b = get_fn(ck, F, fn)
        if b is None:
            continue
        # no loop around anything that executes a statement (a loop that only copies listing lines to the output is fine)
        G0 = panics.CallGraph(F)
        runners = set()
        for blk in b.natural_loops().values():
            for c in b.calls():
                if c.bb in blk and c.callee in F.bodies:
                    reach = G0.reachable([c.callee])
                    if any(sfx(p, "StatementEvaluator::evaluate_statement") or sfx(p, "Interpreter::run_next_statement") for p in reach):
                        runners.add(c.callee.split("::")[-1])
        ck.require(not runners, "C09:ONE:%s:loop-free" % fn.split("::")[-1], "one statement per call",
                   "%s has no loop around a statement-executing call" % fn.split("::")[-1],
                   "%s contains a loop around %s: a host call may now execute many statements" % (fn, sorted(runners)), b.span,
                   nontrivial=False)
    ce = F.one("Interpreter::continue_evaluating")
    if ce is not None:
        mx = max((count_calls(ce, p, "Interpreter::run_next_statement") for p in ce.paths()), default=0)
        from lib import delegated_step
        if mx == 0 and delegated_step(F, ce, "Interpreter::run_next_statement", "Interpreter::postprocess_result"):
            mx = 1      # the one call sits in the closure handed to a run-once helper
        ck.require(mx == 1, "C09:ONE:continue_evaluating", "one statement per call", "exactly one run_next_statement per path",
                   "continue_evaluating calls run_next_statement %d times on some path" % mx, ce.span)
    se = F.one("Interpreter::start_evaluating")
    if se is not None:
        mx = max((count_calls(se, p, "Interpreter::evaluate_impl") for p in se.paths()), default=0)
        direct = max((count_calls(se, p, "Interpreter::run_next_statement") for p in se.paths()), default=0)
        if mx == 0 and delegated_step(F, se, "Interpreter::evaluate_impl", "Interpreter::postprocess_result"):
            mx = 1
        ck.require(mx == 1 and direct == 0, "C09:ONE:start_evaluating", "one statement per call", "one evaluate_impl per path",
                   "start_evaluating calls evaluate_impl %d times / run_next_statement %d times" % (mx, direct), se.span)
    mp = F.one("Interpreter::maybe_process_command")
    if mp is not None:
        bad = []
        n = 0
        for p in mp.paths():
            if mp.term(p[-1])["k"] != "return":
                continue
            n += 1
            k = count_calls(mp, p, "Interpreter::run_next_statement")
            # value returned: Ok(const bool)
            val = None
            for b in p:
                for st in mp.blocks[b]["stmts"]:
                    if st["k"] == "assign" and st["place"]["local"] == 0 and not st["place"]["proj"] and \
                            st["rv"]["k"] == "aggregate" and st["rv"].get("variant") == "Ok":
                        o = st["rv"]["ops"][0]
                        val = o.get("int") if o.get("k") == "const" else "?"
            if k > 1 or (k == 1 and val == 0):
                bad.append((k, val))
        ck.require(not bad and n > 5, "C09:ONE:maybe_process_command", "one statement per call",
                   "%d paths: at most one run_next_statement, and only on paths returning Ok(true)" % n,
                   "a command path runs %s (statements, returned flag): evaluate_impl would go on to execute the line as well" % bad[:3],
                   mp.span)
    ev = F.one("Interpreter::evaluate_impl")
    if ev is not None:
        mpc = ev.calls_to("Interpreter::maybe_process_command")
        rns = ev.calls_to("Interpreter::run_next_statement")
        if not rns:
            # the step sits in a private helper (`run_immediate_line`) that evaluate_impl calls: judge the helper's call site
            rns = [c for c in ev.calls() if c.callee in F.bodies and c.callee.startswith("abasic_core::interpreter::Interpreter::") and
                   c.callee != ev.path and len(F.bodies[c.callee].calls_to("Interpreter::run_next_statement")) == 1 and
                   not F.bodies[c.callee].natural_loops()]
        ok = len(mpc) == 1 and len(rns) == 1
        if ok:
            # the direct call site is reachable only through the `false` arm of the flag
            ok = False
            for b in sorted(ev.reachable()):
                t = ev.term(b)
                if t["k"] != "switch":
                    continue
                e = ev.expr(t["discr"])
                if any(len(x) > 3 and x[3] is mpc[0] for x in expr_calls(e)) and t.get("dty") == "bool":
                    ft = bool_switch_true_target(ev, b)
                    if ft and ev.dominates(ft[0], rns[0].bb) and rns[0].bb not in ev.blocks_reachable_from(ft[1]):
                        ok = True
        ck.require(ok, "C09:ONE:evaluate_impl", "one statement per call",
                   "the line is executed only when maybe_process_command returned false",
                   "evaluate_impl can execute the submitted line after a command already ran a statement", ev.span)
    rn = F.one("Interpreter::run_next_statement")
    if rn is not None:
        mx = max((count_calls(rn, p, "StatementEvaluator::evaluate_statement") for p in rn.paths()), default=0)
        ck.require(mx == 1, "C09:ONE:run_next_statement", "one statement per call", "at most one evaluate_statement per path",
                   "run_next_statement dispatches %d statements on some path" % mx, rn.span)
        cs = sorted({b.path for b, _ in callers_of(F, "Interpreter::run_next_statement")})
        allowed = ("Interpreter::continue_evaluating", "Interpreter::evaluate_impl", "Interpreter::maybe_process_command",
                   "Interpreter::stop_evaluating")
        from lib import allowed_via_callers
        cs = sorted({c.split("::{closure", 1)[0] for c in cs})      # a closure of an allowed function is that function
        ck.require(all(allowed_via_callers(F, c, allowed) for c in cs), "C09:ONE:run_next_statement-callers", "one statement per call",
                   "run_next_statement is called from %s" % [c.split("::")[-1] for c in cs],
                   "run_next_statement gained a caller: %s" % cs)

    # ---- (2) nesting is a chain
    from lib import allowed_via_callers
    G = panics.CallGraph(F)
    es = F.one("StatementEvaluator::evaluate_statement")
    if es is not None:
        cs = sorted({b.path for b, _ in callers_of(F, "StatementEvaluator::evaluate_statement")})
        allowed = ("Interpreter::run_next_statement", "StatementEvaluator::evaluate_statement_or_goto_line_number")
        ck.require(all(any(sfx(c, a) for a in allowed) for c in cs), "C09:CHAIN:callers", "nesting is a chain",
                   "evaluate_statement is entered from run_next_statement and from the IF chain only",
                   "evaluate_statement is also called from %s" % cs)
        so = F.one("StatementEvaluator::evaluate_statement_or_goto_line_number")
        if so is not None:
            cs2 = sorted({b.path for b, _ in callers_of(F, "StatementEvaluator::evaluate_statement_or_goto_line_number")})
            ck.require(all(allowed_via_callers(F, c, ("StatementEvaluator::evaluate_if_statement",)) for c in cs2), "C09:CHAIN:if-only", "nesting is a chain",
                       "statement_or_goto_line_number is called only by evaluate_if_statement",
                       "evaluate_statement_or_goto_line_number is called from %s" % cs2)
        iff = F.one("StatementEvaluator::evaluate_if_statement")
        if iff is not None:
            mx = 0
            for h in [0]:
                for p in iff.paths():
                    mx = max(mx, count_calls(iff, p, "StatementEvaluator::evaluate_statement_or_goto_line_number"))
            # inside the else-scan loop the nested call must leave the loop
            in_loop_ok = True
            loops = iff.natural_loops()
            for c in iff.calls_to("StatementEvaluator::evaluate_statement_or_goto_line_number"):
                for h, blk in loops.items():
                    if c.bb in blk and c.target is not None:
                        # from the call's continuation the loop header must not be reachable again
                        if h in iff.blocks_reachable_from(c.target):
                            in_loop_ok = False
            ck.require(mx <= 1 and in_loop_ok, "C09:CHAIN:if-once", "nesting is a chain",
                       "an IF runs at most one nested statement per activation",
                       "evaluate_if_statement can run %d nested statements (or loops back after one)" % mx, iff.span)

    # ---- (3) no run loop in the core
    bad = []
    for b in F.bodies.values():
        if b.crate != "abasic_core":
            continue
        loops = b.natural_loops()
        if not loops:
            continue
        lb = set()
        for blk in loops.values():
            lb |= blk
        for c in b.calls():
            if c.bb in lb and (sfx(c.callee, "Interpreter::run_next_statement") or sfx(c.callee, "Interpreter::continue_evaluating")
                               or sfx(c.callee, "Interpreter::get_state") or sfx(c.callee, "StatementEvaluator::evaluate_statement")
                               and not sfx(b.path, "StatementEvaluator::evaluate_if_statement")):
                bad.append("%s -> %s" % (b.path, c.callee.split("::")[-1]))
    # ... nor any call that leads to one: a helper that keeps evaluating `:`-separated statements of an ELSE clause in a loop runs
    # them all inside the IF's single host call
    for b in F.bodies.values():
        if b.crate != "abasic_core" or "::analyzer::" in b.path or "::tests" in b.path or not b.natural_loops():
            continue
        lb = set().union(*b.natural_loops().values())
        for c in b.calls():
            if c.bb in lb and c.callee in F.bodies and c.callee != b.path:
                reach = G.reachable([c.callee])
                if any(sfx(p, "StatementEvaluator::evaluate_statement") for p in reach):
                    bad.append("%s -> %s (in a loop)" % (b.path.split("::")[-1], c.callee.split("::")[-1]))
    ck.require(not bad, "C09:NOLOOP:core", "no run loop", "no loop in abasic-core drives the interpreter",
               "abasic-core now contains a loop that drives execution (%s): a host call no longer returns between statements" % bad)

    # ---- (3a) the web adapter is a host-facing API too: one adapter call, one core step (a wrapper that batches up to N silent
    # statements per call to save timer ticks lets the page break in only every N statements)
    n_adapter = 0
    batching = []
    for p, b in sorted(F.bodies.items()):
        if b.crate != "abasic_web" or "__wasm_bindgen_generated" in p:
            continue
        steps = [c for c in b.calls() if sfx(c.callee, "Interpreter::continue_evaluating") or sfx(c.callee, "Interpreter::start_evaluating")]
        if not steps:
            continue
        n_adapter += 1
        lb = set().union(*b.natural_loops().values()) if b.natural_loops() else set()
        if any(c.bb in lb for c in steps):
            batching.append("%s steps the core inside a loop" % p.split("::")[-1])
        else:
            try:
                mx = max((sum(1 for x in path if b.call_at(x) in steps) for path in b.paths(limit=5000)), default=0)
            except OverflowError:
                mx = 2
            if mx > 1:
                batching.append("%s steps the core %d times on one path" % (p.split("::")[-1], mx))
    ck.floor("C09.adapter methods that step the core", n_adapter, 2)
    ck.require(not batching, "C09:ADAPTER:one-step-per-call", "one statement per call",
               "each of the %d adapter methods steps the core at most once per call" % n_adapter,
               "the web adapter executes several core steps per host call (%s): the page gets control back only every so many "
               "statements" % "; ".join(batching))

    # ---- (3b) the work of one call is bounded by the current line: nothing reachable from the stepper moves to another line
    # inside a loop (a FOR that walks forward to its NEXT over however many lines lie between does the work of the whole body
    # in the FOR's own call, and the host cannot stop in between)
    root0 = F.one("Interpreter::run_next_statement")
    if root0 is not None:
        movers = ("Program::next_line", "Program::goto_line_number", "Program::gosub_line_number", "ProgramLines::after")
        crossing = []
        for p in sorted(G.reachable([root0.path])):
            b = F.bodies.get(p)
            if b is None or b.crate != "abasic_core" or "::analyzer::" in p or not b.natural_loops():
                continue
            lb = set().union(*b.natural_loops().values())
            for c in b.calls():
                if c.bb in lb and any(sfx(c.callee, m) for m in movers):
                    crossing.append("%s -> %s" % (p.split("::")[-1], c.callee.split("::")[-1]))
        ck.require(not crossing, "C09:NOLOOP:no-line-change-in-a-loop", "no run loop",
                   "no loop reachable from run_next_statement moves the program to another line",
                   "a loop reachable from run_next_statement moves from line to line (%s): one host call now walks over an "
                   "unbounded stretch of the program" % "; ".join(sorted(set(crossing))))

    # ---- (4) loop progress
    root = F.one("Interpreter::run_next_statement")
    if root is None:
        return
    seen = G.reachable([root.path])
    fns = [p for p in seen if "Evaluator::" in p]
    T = panics.Taint(F, [b.path for b in F.bodies.values() if b.crate == "abasic_core" and b.is_pub and
                         b.self_adt == "abasic_core::interpreter::Interpreter"])
    P = progress.Progress(F, fns, taint=T)
    ck.note("must_consume", sorted(k.split("::")[-1] for k, v in P.must.items() if v))
    n_cursor = 0
    classes = {}
    for p in sorted(seen):
        body = F.bodies[p]
        if not body.natural_loops():
            continue
        k = 0
        for (h, cls, ok, det) in P.loop_report(body):
            k += 1
            classes[cls] = classes.get(cls, 0) + 1
            if cls == "cursor":
                n_cursor += 1
            key = "C09:PROGRESS:%s#%d" % (p.split("::", 1)[1], k)
            ck.require(ok, key, "loop progress (%s)" % cls, det,
                       "loop #%d of %s (%s) can go round without consuming a token or exiting: %s -- one host call may "
                       "never return" % (k, p, cls, det), body.span, nontrivial=(cls == "cursor"))
    ck.note("loop_classes", classes)
    ck.floor("C09.cursor-driven loops", n_cursor, 8)
    for fn in ("ExpressionEvaluator::evaluate_expression", "StatementEvaluator::parse_lvalue"):
        b = F.one(fn)
        if b is not None:
            ck.require(P.must.get(b.path, False), "C09:PROGRESS:MustConsume:%s" % fn.split("::")[-1], "loop progress",
                       "%s consumes at least one token on every successful return" % fn.split("::")[-1],
                       "%s can succeed without consuming a token: loops that rely on it (PRINT, READ, subscripts) may spin" % fn, b.span)
    # the cursor's line is fixed during a statement: writers of location.line are the control-transfer helpers only
    ws = E.writers_of_field("program::Program", "location")
    names = sorted(n.split("::")[-1] for n in ws)
    allowed = {"set_and_goto_immediate_line", "continue_from_breakpoint", "end_loop", "run_from_first_numbered_line",
               "goto_line_number", "return_to_last_gosub", "push_function_call_onto_stack_and_goto_it",
               "pop_function_call_off_stack_and_return_from_it", "next_line", "next_token", "accept_next_token", "try_next_token",
               "rewind_before_token", "discard_remaining_tokens"}
    # reset_runtime_state (RUN / line edits) re-initialises the cursor as part of resetting everything; helpers of an
    # allowed writer act on its behalf
    from lib import allowed_via_callers
    allowed |= {"reset_runtime_state"}
    extra = [n for n in ws if n.split("::")[-1] not in allowed and
             not allowed_via_callers(F, n, tuple("Program::" + a for a in allowed))]
    names = sorted(set(names) - {n.split("::")[-1] for n in ws if n not in extra and n.split("::")[-1] not in allowed})
    ck.require(set(names) <= allowed, "C09:PROGRESS:location-writers", "loop progress",
               "Program.location is written only by cursor primitives and control-transfer helpers",
               "Program.location is also written by %s" % sorted(set(names) - allowed))
