"""C14 -- LIST output reloads to the same program.

Paper argument whose premises are checked: LIST joins canonical spellings with single blanks; blanks are
insignificant outside protected regions (C12); hence LIST is a fixed point iff each token's spelling lexes back
to that token, numerals render to numerals, and the DATA renderer is inverse to the DATA parser.
 1. keyword and operator tables of the lexer and of Display are mutually inverse
 2. listing shape
 3. every parse::<f64> feeding a numeric literal is guarded by a finiteness test
 4. DATA renderer vs parser (quotes, blanks before ':')
"""
from lib import (sfx, get_fn, strip_expr, strip_refs, show, aggregates, expr_calls, expr_const_str,
                 bool_switch_true_target, exclusive_region, region_aggregates)
import tables
from props import C12

LEVEL = "other"
EXPLANATION = (
    "Sibling-table cross-check by extraction from the MIR: the lexer's keyword if-chain (string constant -> Token "
    "variant), its one/two-character switch (byte -> variant) and Token's Display impl (variant -> written pieces, "
    "decoded from rustc's format_args templates) must be mutually inverse for all 39 fixed-spelling tokens; REM, string "
    "literal, symbol, numeral and DATA have their own rules.  Identical behaviour under RUN of the reloaded program is "
    "not decided."
)
TRUSTED = ["f64 Display prints finite values as decimal numerals the lexer reads back",
           "str::find / the string scanner stop at the first quote, so a string literal payload contains none"]


def run(ck, F, E):
    kw = tables.keyword_table(F)
    pt = tables.punct_table(F)
    dt = tables.display_table(F)
    if kw is None or pt is None or dt is None:
        ck.missing("C14:TABLES", "chomp_any_keyword / chomp_one_or_two_characters / <Token as Display>::fmt")
        return
    ck.note("keyword_table", kw)
    ck.note("punct_table", pt)
    ck.floor("C14.keyword rows", len(kw), 22)
    ck.floor("C14.operator rows", len(pt), 17)
    ck.floor("C14.Display rows", len(dt), 44)
    seen_variants = {}
    for spelling, variant in list(kw.items()) + list(pt.items()):
        key = "C14:INVERSE:%s" % spelling
        if variant is None:
            ck.bad(key, "inverse tables", "the lexer row for %r could not be read" % spelling)
            continue
        pieces = dt.get(variant, {}).get("pieces")
        ck.require(pieces == [spelling], key, "inverse tables", "%r -> Token::%s -> %r" % (spelling, variant, spelling),
                   "the lexer maps %r to Token::%s but Display writes %r for it: the listed line does not reload to the "
                   "same token" % (spelling, variant, pieces))
        if variant in seen_variants:
            ck.bad("C14:INVERSE:dup:%s" % variant, "inverse tables",
                   "two spellings (%r, %r) lex to Token::%s" % (seen_variants[variant], spelling, variant))
        seen_variants[variant] = spelling
    # every fixed-spelling variant of Token is produced by the lexer
    tok = F.adt("tokenizer::Token")
    special = {"Remark", "Symbol", "StringLiteral", "NumericLiteral", "Data"}
    for v in tok["variants"]:
        if v["name"] in special:
            continue
        ck.require(v["name"] in seen_variants, "C14:LEXED:%s" % v["name"], "inverse tables",
                   "Token::%s has a lexer row" % v["name"], "Token::%s is printed by LIST but no lexer row produces it" % v["name"],
                   nontrivial=False)
    # a longer keyword must be tried before any keyword that is its prefix
    order = list(kw.keys())
    for i, a in enumerate(order):
        for b in order[i + 1:]:
            if b.startswith(a) and a != b:
                ck.bad("C14:PREFIX:%s<%s" % (a, b), "inverse tables",
                       "keyword %r is tried before %r, of which it is a prefix: %r can never be lexed" % (a, b, b))
    # specials
    sp = tables.special_keywords(F)
    ck.require(sp.get("REM") and dt.get("Remark", {}).get("pieces") == ["REM", None], "C14:SPECIAL:Remark", "inverse tables",
               "Remark renders as REM + text and chomp_remark strips exactly REM",
               "REM rendering %r does not match the lexer (%s)" % (dt.get("Remark", {}).get("pieces"), sp))
    ck.require(sp.get("DATA") and dt.get("Data", {}).get("pieces") == ["DATA ", None] and
               "data_elements_to_string" in dt.get("Data", {}).get("calls", []), "C14:SPECIAL:Data", "inverse tables",
               "Data renders as `DATA ` + data_elements_to_string and chomp_data strips exactly DATA",
               "DATA rendering %r does not match the lexer (%s)" % (dt.get("Data", {}).get("pieces"), sp))
    ck.require(dt.get("StringLiteral", {}).get("pieces") == ['"', None, '"'], "C14:SPECIAL:StringLiteral", "inverse tables",
               "string literals render between double quotes", "StringLiteral renders as %r" % dt.get("StringLiteral", {}).get("pieces"))
    ck.require(dt.get("Symbol", {}).get("pieces") == [None] and dt.get("NumericLiteral", {}).get("pieces") == [None],
               "C14:SPECIAL:Symbol/Numeric", "inverse tables", "symbols and numerals render as their Display text only",
               "Symbol / NumericLiteral render with extra text")
    # ---- listing shape
    lb = get_fn(ck, F, "ProgramLines::list")
    if lb is not None:
        tpl = None
        for c in lb.calls():
            if c.callee.endswith("Arguments::new"):
                for a in c.args:
                    e = strip_refs(lb.expr(a))
                    if e[0] == "const" and e[1].get("text", "").startswith('b"'):
                        tpl = tables.fmt_template(e[1]["text"])
        ck.require(tpl == [None, " ", None, "\n"], "C14:SHAPE:line-format", "listing shape",
                   "a listed line is `{number} {tokens}\\n`", "the listing format is %r" % tpl, lb.span)
        joins = [c for c in lb.calls() if c.callee.endswith("::join")]
        ok = any(any(expr_const_str(lb.expr(a)) == " " for a in c.args) for c in joins)
        ck.require(ok, "C14:SHAPE:join-blank", "listing shape", "tokens are joined by one blank", "tokens are not joined by a single blank", lb.span)
    # ---- finite numerals
    finite_rule(ck, F)
    # ---- DATA renderer vs parser
    data_inverse(ck, F)
    C12.data_rules(ck, F, "C14")


def finite_rule(ck, F):
    n = 0
    for body in F.bodies.values():
        if body.crate != "abasic_core":
            continue
        for c in body.calls():
            if not (c.callee.endswith("<impl str>::parse") and c.gargs and c.gargs[0] == "f64"):
                continue
            n += 1
            # does the payload flow into a Token::NumericLiteral in this function?
            lits = list(aggregates(body, "tokenizer::Token", "NumericLiteral"))
            if not lits:
                ck.ok("C14:FINITE:%s" % body.path.split("::", 1)[1], "finite numerals",
                      "payload does not become a numeric literal token here (DATA numbers render and re-parse to themselves)",
                      "", c.span, nontrivial=False)
                continue
            fin = [x for x in body.calls() if x.callee.endswith("is_finite")]
            ok = False
            for (b, i, pl, rv, sp) in lits:
                for f in fin:
                    if f.target is None:
                        continue
                    ft = bool_switch_true_target(body, f.target)
                    if ft and body.dominates(ft[1], b) and not body.dominates(ft[0], b):
                        ok = True
            ck.require(ok, "C14:FINITE:%s" % body.path.split("::", 1)[1], "finite numerals",
                       "the NumericLiteral is built only on the true arm of is_finite()",
                       "%s stores the result of parse::<f64>() in a NumericLiteral without a finiteness test: a numeral with "
                       "hundreds of digits becomes `inf`, which LIST prints as `inf` and the lexer reads back as a variable"
                       % body.path, c.span)
    ck.floor("C14.parse::<f64> sites", n, 2)


def data_inverse(ck, F):
    rd = F.one("data::data_elements_to_string::{closure#0}") or F.one("data_elements_to_string::{closure#0}")
    pc = F.one("DataParser::parse_char")
    if rd is None or pc is None:
        ck.missing("C14:DATA:fns", "data_elements_to_string closure / DataParser::parse_char")
        return
    # renderer: how is a String element written?
    tpl = None
    for c in rd.calls():
        if c.callee.endswith("Arguments::new"):
            for a in c.args:
                e = strip_refs(rd.expr(a))
                if e[0] == "const" and e[1].get("text", "").startswith('b"'):
                    tpl = tables.fmt_template(e[1]["text"])
    quotes_always = tpl == ['"', None, '"']
    escapes = any(c.callee.split("::")[-1] in ("replace", "escape_default", "escape_debug", "contains") for c in rd.calls())
    # parser: can a quote character be appended to a non-empty unquoted element?
    pushes_quote = False
    for c in pc.calls():
        if c.callee.endswith("String::push") and "current_element" in show(pc.expr(c.args[0])):
            # which arm of the char switch are we in?  look for a dominating comparison with '"' (34)
            for b in sorted(pc.reachable()):
                t = pc.term(b)
                if t["k"] == "switch" and t.get("dty") == "char":
                    for v, tgt in t["targets"]:
                        if int(v) == 34 and pc.dominates(tgt, c.bb):
                            pushes_quote = True
    ck.note("data_renderer_template", tpl)
    # every way a String item is rendered must be the quoted template (anything else cannot be shown to re-parse)
    from lib import path_records
    unq = 0
    n_str = 0
    for r in path_records(rd):
        is_str = any(val == "String" for (_t, _ps, val, _s) in r["decisions"])
        if not is_str:
            continue
        n_str += 1
        quoted = False
        for c in r["calls"]:
            if c.callee.endswith("Arguments::new"):
                for a in c.args:
                    e = strip_refs(rd.expr(a))
                    if e[0] == "const" and e[1].get("text", "").startswith('b"') and \
                            tables.fmt_template(e[1]["text"]) == ['"', None, '"']:
                        quoted = True
        if not quoted:
            unq += 1
    ck.require(n_str >= 1 and unq == 0, "C14:DATA-RENDER:strings-always-quoted", "DATA renderer vs parser",
               "every path that renders a string item writes it between double quotes",
               "the DATA renderer can write a string item without quotes (%d of %d String paths): an item that looks like a "
               "number (`DATA \"007\"`) or carries significant blanks reloads as a different item" % (unq, n_str), rd.span)
    if quotes_always and not escapes and pushes_quote:
        ck.bad("C14:DATA-QUOTE:data::data_elements_to_string", "DATA renderer vs parser",
               "the DATA renderer wraps every string item in double quotes unconditionally, but DataParser::parse_char can "
               "append a '\"' to a non-empty unquoted item: `DATA hello \"there\"` lists as `DATA \"hello \"there\"\"`, which "
               "reloads as different items", rd.span)
    else:
        ck.ok("C14:DATA-QUOTE:data::data_elements_to_string", "DATA renderer vs parser",
              "string items the parser can produce are rendered so that they re-parse to themselves "
              "(quotes_always=%s escapes=%s parser_can_embed_quote=%s)" % (quotes_always, escapes, pushes_quote))
    # separator: ", " -- blanks around commas are ignored by the parser (trim) -- checked with C12.5
    de = F.one("data::data_elements_to_string")
    if de is not None:
        joins = [c for c in de.calls() if c.callee.endswith("::join")]
        ok = any(any(expr_const_str(de.expr(a)) == ", " for a in c.args) for c in joins)
        ck.require(ok, "C14:DATA:separator", "DATA renderer vs parser", "items are joined by `, `",
                   "DATA items are no longer joined by `, `", de.span)
