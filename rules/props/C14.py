"""C14 -- LIST output reloads to the same program.

Paper argument whose premises are checked: LIST joins canonical spellings with single blanks; blanks are
insignificant outside protected regions (C12); hence LIST is a fixed point iff each token's spelling lexes back
to that token, numerals render to numerals, and the DATA renderer is inverse to the DATA parser.
 1. keyword and operator tables of the lexer and of Display are mutually inverse
 2. listing shape
 3. every parse::<f64> feeding a numeric literal is guarded by a finiteness test
 4. DATA renderer vs parser (quotes, blanks before ':')
"""
from lib import (sfx, get_fn, strip_expr, strip_refs, show, aggregates, expr_calls, expr_const_str,
                 bool_switch_true_target, exclusive_region, region_aggregates)
import tables
from props import C12

LEVEL = "other"
EXPLANATION = (
    "Sibling-table cross-check by extraction from the MIR: the lexer's keyword if-chain (string constant -> Token "
    "variant), its one/two-character switch (byte -> variant) and Token's Display impl (variant -> written pieces, "
    "decoded from rustc's format_args templates) must be mutually inverse for all 39 fixed-spelling tokens; REM, string "
    "literal, symbol, numeral and DATA have their own rules.  Identical behaviour under RUN of the reloaded program is "
    "not decided."
)
TRUSTED = ["f64 Display prints finite values as decimal numerals the lexer reads back",
           "str::find / the string scanner stop at the first quote, so a string literal payload contains none"]


def listing_not_rewritten(ck, F):
    """The listing of a line is number + blank + the tokens' spellings joined by blanks + newline -- the joined text goes into the
    line as it is.  Any textual rewriting of it (`replace("( ", "(")`, trimming, case folding) also rewrites what is inside
    string literals, quoted DATA items and REM text, which reload as different values."""
    from lib import with_helpers
    lb = get_fn(ck, F, "ProgramLines::list")
    if lb is None:
        return
    rew = sorted({c.callee.split("::")[-1] for b in with_helpers(F, lb) for c in b.calls()
                  if c.callee.split("::")[-1] in ("replace", "replacen", "trim", "trim_end", "trim_start", "trim_matches", "trim_end_matches", "trim_start_matches", "to_uppercase", "to_lowercase", "to_ascii_uppercase", "to_ascii_lowercase", "retain", "strip_suffix", "strip_prefix", "split_whitespace", "truncate", "drain", "remove", "pop", "chars", "char_indices", "bytes")
                  and ("<impl str>" in c.callee or "String" in c.callee)})
    ck.require(not rew, "C14:SHAPE:joined-text-not-rewritten", "listing shape",
               "list() applies no string-rewriting operation to the text it prints",
               "ProgramLines::list rewrites the text of the line it prints (%s): blanks or characters inside string literals, DATA items "
               "and REM text change, so the reloaded listing is a different program" % ", ".join(rew), lb.span)


def data_cursor_rule(ck, F):
    """"identical behaviour under RUN, including the sequence of DATA items READ sees": two programs with the same listing hold
    the same lines, so the items READ sees must be a function of the stored lines alone.  ProgramLines::data_iterator (with
    everything it calls) therefore touches no field of ProgramLines besides the two line indexes -- a memoised chunk list is a
    third input that an edit can leave stale, and then the original and its reloaded listing read different items."""
    from lib import adt_fields_touched
    di = get_fn(ck, F, "ProgramLines::data_iterator")
    if di is None:
        return
    touched = adt_fields_touched(F, di, "program_lines::ProgramLines")
    extra = sorted(touched - {"numbered_lines", "sorted_line_numbers"})
    ck.require(not extra and touched, "C14:DATA:cursor-from-stored-lines-only", "DATA round trip",
               "data_iterator reads %s and nothing else of ProgramLines" % sorted(touched),
               "ProgramLines::data_iterator also depends on ProgramLines.%s: the DATA items a run sees are no longer determined by "
               "the stored lines (which is all a listing carries), so a program and its reloaded listing can READ different "
               "items" % ",".join(extra), di.span)


def quoted_items_are_opaque(ck, F):
    """Inside a double-quoted DATA item (or INPUT reply) only the closing quote is special: a path of DataParser::parse_char that
    treats `,` as an item separator or `:` as the end of the statement has established that the parser is NOT inside quotes
    (a test of `state` on that path).  A flattened `match char` whose `','` arm lost that guard splits "Smith, John" in two."""
    from lib import path_records
    b = F.one("DataParser::parse_char")
    if b is None:
        ck.missing("C14:DATA:quoted-items-opaque", "DataParser::parse_char")
        return
    bad = []
    n = 0
    for r in path_records(b):
        ch = [d[2] for d in r["decisions"] if d[2] in (44, 58) and "state" not in d[0] and "is_finished" not in d[0]]
        if not ch:
            continue
        acts = [c.callee.split("::")[-1] for c in r["calls"]]
        if not ("push_current_element" in acts or "finish" in acts):
            continue
        n += 1
        st = [d for d in r["decisions"] if ".state" in d[0] or "state" in d[0].split("(")[-1]]
        normal = any(d[2] == "Normal" or (d[2] is False and "InDoubleQuotedString" in d[0]) or (d[2] is True and "Normal" in d[0]) or
                     (d[2] is False and "eq" in d[0]) for d in st)
        if not normal:
            bad.append("`%s` acts as a separator without a test of the quoting state" % chr(ch[0]))
    ck.require(n > 0 and not bad, "C14:DATA:quoted-items-opaque", "DATA renderer vs parser",
               "%d separator paths, each guarded by the parser not being inside quotes" % n,
               "DataParser::parse_char: %s -- a quoted item containing that character is split (and EXTRA IGNORED reported for an "
               "INPUT reply like \"Smith, John\")" % "; ".join(sorted(set(bad))), b.span)


def quoted_items_stay_text(ck, F):
    """A quoted DATA item (or INPUT reply) is text whatever it spells: a path of DataParser::push_current_element that produces a
    Number has first established that the parser is not inside quotes.  Trying every item as a number first turns the reply
    `"12"` into 12 (no REENTER for a numeric variable) and `" 007 "` into 7 for a string variable."""
    from lib import path_records
    b = F.one("DataParser::push_current_element")
    if b is None:
        ck.missing("C14:DATA-NUMBER:only-unquoted", "DataParser::push_current_element")
        return
    n = 0
    bad = 0
    for r in path_records(b):
        if not any(a[0].endswith("data::DataElement") and a[1] == "Number" for a in r["aggs"]):
            continue
        n += 1
        ok = False
        for d in r["decisions"]:
            t = d[0]
            if "state" not in t:
                continue
            if ("InDoubleQuotedString" in t and (("ne(" in t and d[2] is True) or ("eq(" in t and d[2] is False))) or d[2] == "Normal" or \
                    ("Normal" in t and (("eq(" in t and d[2] is True) or ("ne(" in t and d[2] is False))):
                ok = True
        if not ok:
            bad += 1
    ck.require(n > 0 and bad == 0, "C14:DATA-NUMBER:only-unquoted", "DATA renderer vs parser",
               "every path that yields a Number has tested that the item is not quoted (%d path(s))" % n,
               "DataParser::push_current_element can classify an item as a number without having established that it is unquoted "
               "(%d of %d paths): a quoted item that spells a numeral stops being text" % (bad, n), b.span)


def data_parser_stops(ck, F):
    from lib import path_records
    """The DATA parser ends at the first colon outside quotes: once the parser reports `is_finished`, parse_data_until_colon feeds
    it nothing more (chars after the colon belong to the next statement; fed on, a later comma pushes them as an extra item)."""
    from lib import iteration_paths
    b = get_fn(ck, F, "data::parse_data_until_colon")
    if b is None:
        return
    recs = path_records(b, paths=iteration_paths(b))
    if not recs:
        # iterator form (`take_while(!finished)`, `try_for_each`): not decided here
        ck.ok("C14:DATA:parser-stops-at-the-colon", "DATA round trip", "no explicit loop: not decided by this rule", nontrivial=False)
        return
    tested = [r for r in recs if any("is_finished" in d[0] for d in r["decisions"])]
    goes_on = [r for r in recs if any("is_finished" in d[0] and d[2] is True for d in r["decisions"])]
    ck.require(bool(tested) and not goes_on, "C14:DATA:parser-stops-at-the-colon", "DATA round trip",
               "no trip round the feeding loop continues once is_finished is set",
               "parse_data_until_colon keeps feeding characters to a finished parser: text after the colon that ends a DATA statement "
               "(or an INPUT reply) is pushed as further items at the next comma", b.span)


def string_text_rule(ck, F):
    """LIST prints a string literal as `"` + text + `"` with the text verbatim, and the tokenizer ends a literal at the first
    `"`: the two are inverse only while a literal's text cannot contain a double quote.  The text handed to the string manager
    is therefore the slice of the source up to the offset `find('"')` returned on that very string (an escape convention that
    lets `""` stand for a quote would need the renderer to double it again)."""
    n = 0
    for body in F.bodies.values():
        if body.crate != "abasic_core" or "tokenizer::Tokenizer" not in body.path or "::tests" in body.path:
            continue
        for (bb, i, pl, rv, sp) in aggregates(body, "tokenizer::Token", "StringLiteral"):
            n += 1
            e = body.rv_expr(rv)
            why = None
            mk = [x for x in expr_calls(e) if "string_manager::StringManager::" in x[1]]
            if not mk:
                why = "is not made by the string manager from source text"
            else:
                def peel(x):
                    x = strip_expr(x)
                    while x[0] in ("place", "ref") and isinstance(x[1], tuple):
                        x = strip_expr(x[1])
                    return x
                t = peel(mk[0][2][1]) if len(mk[0][2]) > 1 else ("?",)
                if t[0] == "call" and t[1].endswith("for str>::index") and len(t[2]) == 2:
                    rng = peel(t[2][1])
                    src = [x for x in expr_calls(t[2][0]) if len(x) > 3][:1]
                    if rng[0] == "agg" and str(rng[1]).endswith("RangeTo") and len(rng[3]) == 1:
                        fnd = peel(rng[3][0])
                        if fnd[0] == "call" and fnd[1].endswith("<impl str>::find") and len(fnd[2]) == 2:
                            pat = peel(fnd[2][1])
                            src2 = [x for x in expr_calls(fnd[2][0]) if len(x) > 3][:1]
                            if not (pat[0] == "const" and pat[1].get("int") == 34):
                                why = "ends at something other than the first double quote"
                            elif not (src and src2 and src[0][3] is src2[0][3]) and show(t[2][0]) != show(fnd[2][0]):
                                why = "is cut from a different string than the one searched for the closing quote"
                        else:
                            why = "does not end at the offset find('\"') returned"
                    else:
                        why = "is not the prefix up to the closing quote"
                else:
                    why = "is assembled (%s) rather than sliced from the source up to the first double quote" % mk[0][1].split("::")[-1]
            ck.require(why is None, "C14:STRING:text-ends-at-first-quote:%s" % body.path.split("::")[-1], "inverse tables",
                       "the literal's text is source[..find('\"')]: it cannot contain a double quote, so `\"` + text + `\"` reloads as the same literal",
                       "in %s the text of a string literal %s: it can contain a double quote, which LIST prints verbatim between "
                       "quotes, so the listing reloads as different tokens" % (body.path, why), sp)
    ck.floor("C14.string literal constructions in the tokenizer", n, 1)


def run(ck, F, E):
    kw = tables.keyword_table(F)
    pt = tables.punct_table(F)
    dt = tables.display_table(F)
    if kw is None or pt is None or dt is None:
        ck.missing("C14:TABLES", "chomp_any_keyword / chomp_one_or_two_characters / <Token as Display>::fmt")
        return
    ck.note("keyword_table", kw)
    ck.note("punct_table", pt)
    ck.floor("C14.keyword rows", len(kw), 22)
    ck.floor("C14.operator rows", len(pt), 17)
    ck.floor("C14.Display rows", len(dt), 44)
    seen_variants = {}
    for spelling, variant in list(kw.items()) + list(pt.items()):
        key = "C14:INVERSE:%s" % spelling
        if variant is None:
            ck.bad(key, "inverse tables", "the lexer row for %r could not be read" % spelling)
            continue
        pieces = dt.get(variant, {}).get("pieces")
        ck.require(pieces == [spelling], key, "inverse tables", "%r -> Token::%s -> %r" % (spelling, variant, spelling),
                   "the lexer maps %r to Token::%s but Display writes %r for it: the listed line does not reload to the "
                   "same token" % (spelling, variant, pieces))
        if variant in seen_variants:
            ck.bad("C14:INVERSE:dup:%s" % variant, "inverse tables",
                   "two spellings (%r, %r) lex to Token::%s" % (seen_variants[variant], spelling, variant))
        seen_variants[variant] = spelling
    # every fixed-spelling variant of Token is produced by the lexer
    tok = F.adt("tokenizer::Token")
    special = {"Remark", "Symbol", "StringLiteral", "NumericLiteral", "Data"}
    for v in tok["variants"]:
        if v["name"] in special:
            continue
        ck.require(v["name"] in seen_variants, "C14:LEXED:%s" % v["name"], "inverse tables",
                   "Token::%s has a lexer row" % v["name"], "Token::%s is printed by LIST but no lexer row produces it" % v["name"],
                   nontrivial=False)
    # a longer keyword must be tried before any keyword that is its prefix
    order = list(kw.keys())
    for i, a in enumerate(order):
        for b in order[i + 1:]:
            if b.startswith(a) and a != b:
                ck.bad("C14:PREFIX:%s<%s" % (a, b), "inverse tables",
                       "keyword %r is tried before %r, of which it is a prefix: %r can never be lexed" % (a, b, b))
    # specials
    sp = tables.special_keywords(F)
    ck.require(sp.get("REM") and dt.get("Remark", {}).get("pieces") == ["REM", None], "C14:SPECIAL:Remark", "inverse tables",
               "Remark renders as REM + text and chomp_remark strips exactly REM",
               "REM rendering %r does not match the lexer (%s)" % (dt.get("Remark", {}).get("pieces"), sp))
    ck.require(sp.get("DATA") and dt.get("Data", {}).get("pieces") == ["DATA ", None] and
               "data_elements_to_string" in dt.get("Data", {}).get("calls", []), "C14:SPECIAL:Data", "inverse tables",
               "Data renders as `DATA ` + data_elements_to_string and chomp_data strips exactly DATA",
               "DATA rendering %r does not match the lexer (%s)" % (dt.get("Data", {}).get("pieces"), sp))
    ck.require(dt.get("StringLiteral", {}).get("pieces") == ['"', None, '"'], "C14:SPECIAL:StringLiteral", "inverse tables",
               "string literals render between double quotes", "StringLiteral renders as %r" % dt.get("StringLiteral", {}).get("pieces"))
    string_text_rule(ck, F)
    listing_not_rewritten(ck, F)
    # the listing that is reloaded must contain every stored line (C04's rule, a necessary condition here as well)
    import framework
    from props import C04
    C04.list_complete(framework.Rekeyed(ck, "C04", "C14:ALL"), F)
    data_cursor_rule(ck, F)
    data_parser_stops(ck, F)
    quoted_items_are_opaque(ck, F)
    quoted_items_stay_text(ck, F)
    ck.require(dt.get("Symbol", {}).get("pieces") == [None] and dt.get("NumericLiteral", {}).get("pieces") == [None],
               "C14:SPECIAL:Symbol/Numeric", "inverse tables", "symbols and numerals render as their Display text only",
               "Symbol / NumericLiteral render with extra text")
    # ---- listing shape
    lb = get_fn(ck, F, "ProgramLines::list")
    if lb is not None:
        from lib import with_helpers
        tpl = None
        ok = False
        for bd in with_helpers(F, lb):      # the per-line body may be a closure (`.map(|(n, tokens)| ..)`)
            for c in bd.calls():
                if c.callee.endswith("Arguments::new"):
                    for a in c.args:
                        e = strip_refs(bd.expr(a))
                        if e[0] == "const" and e[1].get("text", "").startswith('b"'):
                            t_ = tables.fmt_template(e[1]["text"])
                            if tpl is None or t_ == [None, " ", None, "\n"]:
                                tpl = t_
                if c.callee.endswith("::join") and any(expr_const_str(bd.expr(a)) == " " for a in c.args):
                    ok = True
        ck.require(tpl == [None, " ", None, "\n"], "C14:SHAPE:line-format", "listing shape",
                   "a listed line is `{number} {tokens}\\n`", "the listing format is %r" % tpl, lb.span)
        ck.require(ok, "C14:SHAPE:join-blank", "listing shape", "tokens are joined by one blank", "tokens are not joined by a single blank", lb.span)
    # ---- the line number written by the listing ends at the blank that follows it
    line_number_shape(ck, F)
    # ---- finite numerals
    finite_rule(ck, F)
    # ---- DATA renderer vs parser
    data_inverse(ck, F)
    C12.data_rules(ck, F, "C14")


def line_number_shape(ck, F):
    """LIST writes `<n> <tokens>`; the first token may itself start with a digit (`20 0.5`).  The reload therefore
    depends on parse_line_number ending the number at the first character that is not a digit: once the number has
    started, an iteration of its scan loop continues only on the true arm of is_ascii_digit; and the converted text is
    the contiguous slice, not a filtered copy."""
    b = get_fn(ck, F, "line_number_parser::parse_line_number")
    if b is None:
        return
    loops = b.natural_loops()
    # two-phase form: `let end = start + line[start..].chars().take_while(|c| c.is_ascii_digit()).count()`: the converted
    # slice ends at the first character that is not a digit by construction
    from lib import ascii_digit_run
    form_b = False
    for c in [c for c in b.calls() if c.callee.endswith("<impl str>::parse")]:
        sl = [x for x in expr_calls(b.expr(c.args[0])) if x[1].endswith("for str>::index")]
        for x in sl:
            rng = strip_expr(x[2][1]) if len(x[2]) > 1 else None
            if rng is not None and rng[0] == "agg" and str(rng[1]).endswith("::Range") and len(rng[3]) == 2:
                run = ascii_digit_run(F, b, rng[3][1])
                if run is not None and show(run[0]) == show(strip_expr(rng[3][0])):
                    form_b = True
    if form_b and not loops:
        ck.ok("C14:SHAPE:line-number-ends-at-first-non-digit", "listing shape",
              "the converted slice is [start, start + count of leading ASCII digits): it ends at the first non-digit")
        ck.ok("C14:SHAPE:line-number-is-contiguous-slice", "listing shape", "the converted text is a slice of the line")
        return
    ck.floor("C14.scan loops of parse_line_number", len(loops), 1)
    bad = []
    n = 0
    for h, blk in loops.items():
        for s0 in b.succs(h):
            if s0 not in blk:
                continue
            try:
                paths = list(b.const_paths(s0, {h}, limit=5000))
            except OverflowError as e:
                bad.append(str(e))
                continue
            for path, stop in paths:
                if stop != h:
                    continue
                full = [h] + path + [h]
                started = False
                for j, bb in enumerate(full[:-1]):
                    info = b.switch_info(bb)
                    if info and info[3] and set(info[3].values()) == {"None", "Some"} and "number_endpoints" in _names(b, info[0]):
                        chosen = [nm for v, nm in info[3].items() if info[1].get(v) == full[j + 1]]
                        if not chosen:
                            rest = [nm for v, nm in info[3].items() if v not in info[1]]
                            chosen = rest
                        started = chosen == ["Some"]
                if not started:
                    continue
                n += 1
                digit_true = False
                for j, bb in enumerate(full[:-1]):
                    # any bool test on this path whose subject is the result of is_ascii_digit (directly, negated, or after
                    # being parked in a tuple / temporary): which arm does the path take?
                    ft = bool_switch_true_target(b, bb)
                    if ft is None or b.term(bb).get("dty") != "bool":
                        continue
                    subj = b.expr(b.term(bb)["discr"])
                    if not any(x[1].endswith("is_ascii_digit") for x in expr_calls(subj)):
                        continue
                    neg = False
                    se = strip_expr(subj)
                    while se[0] == "unop" and se[1] == "Not":
                        neg = not neg
                        se = strip_expr(se[2])
                    taken_true = full[j + 1] == ft[1]
                    if taken_true != neg:
                        digit_true = True
                if not digit_true:
                    bad.append("blocks %s" % full)
    ck.require(n >= 1 and not bad, "C14:SHAPE:line-number-ends-at-first-non-digit", "listing shape",
               "once the number has started, the scan continues only over digits (%d continuing paths)" % n,
               "parse_line_number keeps scanning past a character that is not a digit (%s): LIST writes `20 0.5` for the stored "
               "line `20 .5`, which then reloads under a different line number" % (bad[:2] or "no continuing path found"), b.span)
    ps = [c for c in b.calls() if c.callee.endswith("<impl str>::parse")]
    ok = bool(ps)
    for c in ps:
        cs = [x[1].split("::")[-1] for x in expr_calls(b.expr(c.args[0]))]
        if any(x not in ("as_ref", "index", "deref", "get", "get_unchecked", "branch", "into_iter", "next", "char_indices", "is_ascii_digit") for x in cs):
            ok = False
    ck.require(ok, "C14:SHAPE:line-number-is-contiguous-slice", "listing shape",
               "the converted text is a slice of the line", "parse_line_number converts a rebuilt string, not the slice of the line it scanned",
               b.span, nontrivial=False)


def _names(body, e):
    out = []
    def walk(x):
        if isinstance(x, tuple):
            if x and x[0] == "local":
                out.append(body.local_name(x[1]) or "")
            for y in x[1:]:
                walk(y)
        elif isinstance(x, list):
            for y in x:
                walk(y)
    walk(e)
    return out


def finite_rule(ck, F):
    n = 0
    for body in F.bodies.values():
        if body.crate != "abasic_core":
            continue
        for c in body.calls():
            if not (c.callee.endswith("<impl str>::parse") and c.gargs and c.gargs[0] == "f64"):
                continue
            n += 1
            # does the payload flow into a Token::NumericLiteral in this function?
            lits = list(aggregates(body, "tokenizer::Token", "NumericLiteral"))
            if not lits:
                ck.ok("C14:FINITE:%s" % body.path.split("::", 1)[1], "finite numerals",
                      "payload does not become a numeric literal token here (DATA numbers render and re-parse to themselves)",
                      "", c.span, nontrivial=False)
                continue
            fin = [x for x in body.calls() if x.callee.endswith("is_finite")]
            ok = False
            for (b, i, pl, rv, sp) in lits:
                for f in fin:
                    if f.target is None:
                        continue
                    ft = bool_switch_true_target(body, f.target)
                    if ft and body.dominates(ft[1], b) and not body.dominates(ft[0], b):
                        ok = True
            ck.require(ok, "C14:FINITE:%s" % body.path.split("::", 1)[1], "finite numerals",
                       "the NumericLiteral is built only on the true arm of is_finite()",
                       "%s stores the result of parse::<f64>() in a NumericLiteral without a finiteness test: a numeral with "
                       "hundreds of digits becomes `inf`, which LIST prints as `inf` and the lexer reads back as a variable"
                       % body.path, c.span)
    ck.floor("C14.parse::<f64> sites", n, 2)
    # the value of every numeric literal the tokenizer produces is str::parse::<f64> of its digits: LIST prints the value with
    # f64's Display, whose output parse::<f64> reads back to the same value (std's shortest-round-trip guarantee, trusted); a
    # hand-rolled accumulation (mantissa * 10 + digit, divided by a scale) rounds differently, so `0.1` lists as 0.1 but
    # `1234567.1234567` can list as a neighbouring double and drift on every reload
    k = 0
    for body in F.bodies.values():
        if body.crate != "abasic_core" or "tokenizer::Tokenizer" not in body.path or "::tests" in body.path:
            continue
        for (b, i, pl, rv, sp) in aggregates(body, "tokenizer::Token", "NumericLiteral"):
            k += 1
            e = body.expr(rv["ops"][0], depth=30)
            ps = [x for x in expr_calls(e) if x[1].endswith("<impl str>::parse")]
            okp = bool(ps) and all(len(x) > 3 and x[3] is not None and (x[3].gargs or [""])[0] == "f64" for x in ps)
            arith = strip_expr(e)
            direct = okp and arith[0] in ("place", "call")      # the payload of the parse result, not arithmetic on it
            ck.require(direct, "C14:NUMERAL:value-is-parse-f64:%s" % body.path.split("::")[-1], "finite numerals",
                       "the literal's value is the payload of str::parse::<f64>()",
                       "%s computes the value of a numeric literal by other means than str::parse::<f64> of its digits (%s): such a "
                       "value need not be the double that f64's Display spelling of it parses back to, so a listing can change "
                       "from reload to reload" % (body.path, show(e)[:80]), sp)
    ck.floor("C14.numeric literal constructions in the tokenizer", k, 1)


def escapes_proper(rd):
    """Does the renderer transform the text (replace / escape) before writing it?"""
    return any(c.callee.split("::")[-1] in ("replace", "escape_default", "escape_debug") for c in rd.calls())


def controlling_switches_(body, bb):
    from lib import controlling_switches
    return controlling_switches(body, bb)


def data_number_classifier(ck, F, P):
    """Shared with C08 (INPUT replies go through the same parser)."""
    # numbers: an unquoted item is a number exactly when str::parse::<f64> accepts it -- the renderer writes numbers
    # with f64's Display (to_string), whose output parse::<f64> always accepts (std round trip, trusted), so ANY extra
    # condition on the number arm makes some rendered number reload as a string
    from lib import controlling_switches, expr_has_field
    pe = F.one("DataParser::push_current_element")
    if pe is None:
        ck.missing("%s:DATA-NUMBER:classifier" % P, "DataParser::push_current_element")
    else:
        nums = list(aggregates(pe, "data::DataElement", "Number"))
        ck.floor("%s.DataElement::Number construction sites in the DATA parser" % P, len(nums), 1)
        for (bb, i, pl, rv, sp) in nums:
            src = pe.expr(rv["ops"][0])
            from_parse = any(x[1].endswith("<impl str>::parse") for x in expr_calls(src))
            extra = []
            for (sb, subj, names) in controlling_switches(pe, bb):
                cs = [x[1] for x in expr_calls(subj)]
                if any(x.endswith("<impl str>::parse") for x in cs) and names and set(names.values()) == {"Ok", "Err"}:
                    continue
                if expr_has_field(subj, "state"):
                    continue
                extra.append(show(subj)[:100])
            ck.require(from_parse and not extra, "%s:DATA-NUMBER:classifier" % P, "DATA renderer vs parser",
                       "an unquoted item is a number iff parse::<f64>() accepts it (the only other condition is the quote state)",
                       "the DATA parser classifies an unquoted item as a number under an extra condition (%s; payload from parse: %s): "
                       "a number the renderer prints with f64's Display (e.g. `inf` for an overflowing item) reloads as a string" %
                       (extra, from_parse), sp)


def data_inverse(ck, F):
    # the per-item rendering: the closure of the iterator chain, or the function itself when it is written as a loop
    rd = F.one("data::data_elements_to_string::{closure#0}") or F.one("data_elements_to_string::{closure#0}")
    de0 = F.one("data::data_elements_to_string")
    if rd is None and de0 is not None:
        # `.map(render_one)`: a function of the module handed to the chain by name
        from lib import norm
        for blk in de0.blocks:
            t = blk["term"]
            for o in (t.get("args", []) if t["k"] == "call" else []):
                if o.get("k") == "const" and "fn" in o:
                    cand = F.bodies.get(norm(o["fn"]))
                    if cand is not None and cand.path.startswith("abasic_core::data::") and "DataElement" in " ".join(
                            str(cand.local_ty(i + 1)) for i in range(cand.arg_count)):
                        rd = cand
    rd = rd or de0
    pc = F.one("DataParser::parse_char")
    if rd is None or pc is None:
        ck.missing("C14:DATA:fns", "data_elements_to_string closure / DataParser::parse_char")
        return
    # renderer: how is a String element written?
    tpl = None
    for c in rd.calls():
        if c.callee.endswith("Arguments::new"):
            for a in c.args:
                e = strip_refs(rd.expr(a))
                if e[0] == "const" and e[1].get("text", "").startswith('b"'):
                    tpl = tables.fmt_template(e[1]["text"])
    quotes_always = tpl == ['"', None, '"']
    escapes = any(c.callee.split("::")[-1] in ("replace", "escape_default", "escape_debug", "contains") for c in rd.calls())
    # parser: can a quote character be appended to a non-empty unquoted element?
    pushes_quote = False
    for c in pc.calls():
        if c.callee.endswith("String::push") and "current_element" in show(pc.expr(c.args[0])):
            # which arm of the char switch are we in?  look for a dominating comparison with '"' (34)
            for b in sorted(pc.reachable()):
                t = pc.term(b)
                if t["k"] == "switch" and t.get("dty") == "char":
                    for v, tgt in t["targets"]:
                        if int(v) == 34 and pc.dominates(tgt, c.bb):
                            pushes_quote = True
    ck.note("data_renderer_template", tpl)
    # every way a String item is rendered must be the quoted template (anything else cannot be shown to re-parse)
    from lib import path_records
    unq = 0
    n_str = 0
    raw_when_quote = 0      # string paths written raw on the true arm of contains('"')
    quoted_with_quote = 0   # string paths written between quotes although the item may contain a quote
    has_contains_test = False
    from lib import iteration_paths
    recs_ = path_records(rd)
    if rd.natural_loops():
        recs_ = recs_ + path_records(rd, paths=iteration_paths(rd))      # the per-item code is a loop body
    for r in recs_:
        is_str = any(val == "String" for (_t, _ps, val, _s) in r["decisions"])
        if not is_str:
            continue
        n_str += 1
        quoted = False
        for c in r["calls"]:
            if c.callee.endswith("Arguments::new"):
                for a in c.args:
                    e = strip_refs(rd.expr(a))
                    if e[0] == "const" and e[1].get("text", "").startswith('b"') and \
                            tables.fmt_template(e[1]["text"]) == ['"', None, '"']:
                        quoted = True
        # outcome of a `string.contains('"')` test on this path, if any
        contains_quote = None
        for (_t, _ps, val, subj) in r["decisions"]:
            cs = [x for x in expr_calls(subj) if x[1].endswith("<impl str>::contains") or x[1].endswith("String::contains")
                  or x[1].split("::")[-1] == "contains"]
            for x in cs:
                pat = strip_expr(x[2][1]) if len(x[2]) > 1 else None
                if pat is not None and pat[0] == "const" and (pat[1].get("int") == 34 or pat[1].get("str") == '"' or pat[1].get("text") in ("'\"'", '"\\""')):
                    has_contains_test = True
                    if isinstance(val, bool):
                        contains_quote = val
        if not quoted:
            # written out by hand: push('"'); push_str(item); push('"')
            qs = [c for c in r["calls"] if c.callee.endswith("String::push") and len(c.args) > 1 and
                  strip_expr(rd.expr(c.args[1]))[0] == "const" and strip_expr(rd.expr(c.args[1]))[1].get("int") == 34]
            ps = [c for c in r["calls"] if c.callee.endswith("String::push_str")]
            if len(qs) >= 2 and ps:
                i0, i1 = r["calls"].index(qs[0]), r["calls"].index(qs[-1])
                if any(i0 < r["calls"].index(p) < i1 for p in ps):
                    quoted = True
        if quoted:
            if contains_quote is not False:
                quoted_with_quote += 1
        else:
            if contains_quote is True:
                raw_when_quote += 1
            else:
                unq += 1
    ck.require(n_str >= 1 and unq == 0, "C14:DATA-RENDER:strings-always-quoted", "DATA renderer vs parser",
               "every path that renders a string item writes it between double quotes"
               + (" (or raw, on the arm where the item contains a double quote: %d paths)" % raw_when_quote if raw_when_quote else ""),
               "the DATA renderer can write a string item without quotes (%d of %d String paths) although it contains no double "
               "quote: an item that looks like a number (`DATA \"007\"`) or carries significant blanks reloads as a different item"
               % (unq, n_str), rd.span)
    if pushes_quote and not escapes_proper(rd) and quoted_with_quote:
        ck.bad("C14:DATA-QUOTE:data::data_elements_to_string", "DATA renderer vs parser",
               "the DATA renderer wraps string items in double quotes even when they may contain one (%d such paths), and "
               "DataParser::parse_char can append a '\"' to a non-empty unquoted item: `DATA hello \"there\"` lists as "
               "`DATA \"hello \"there\"\"`, which reloads as different items" % quoted_with_quote, rd.span)
    else:
        ck.ok("C14:DATA-QUOTE:data::data_elements_to_string", "DATA renderer vs parser",
              "string items the parser can produce are rendered so that they re-parse to themselves "
              "(parser_can_embed_quote=%s, quoted paths that may hold a quote=%d, raw-on-quote paths=%d)" %
              (pushes_quote, quoted_with_quote, raw_when_quote))
    if raw_when_quote:
        # the raw spelling re-parses to the same item only because such an item came from the unquoted branch of the parser:
        # trimmed, non-empty, not starting with a quote, free of `,` and `:` -- quoted items can never contain a quote
        qpush = False
        for c in pc.calls():
            if c.callee.endswith("String::push") and "current_element" in show(pc.expr(c.args[0])):
                for (sb, subj, names) in controlling_switches_(pc, c.bb):
                    if names and "InDoubleQuotedString" in names.values():
                        info = pc.switch_info(sb)
                        tq = [info[1].get(v) for v, n in names.items() if n == "InDoubleQuotedString"]
                        if tq and tq[0] is not None and pc.dominates(tq[0], c.bb):
                            # inside the quoted state: is this push on the arm for the quote character itself?
                            for b2 in sorted(pc.reachable()):
                                t2 = pc.term(b2)
                                if t2["k"] == "switch" and t2.get("dty") == "char" and pc.dominates(tq[0], b2):
                                    for v2, tgt2 in t2["targets"]:
                                        if int(v2) == 34 and pc.dominates(tgt2, c.bb):
                                            qpush = True
        ck.require(not qpush, "C14:DATA-QUOTE:quoted-items-hold-no-quote", "DATA renderer vs parser",
                   "inside a quoted item the quote character is never appended (it ends the item)",
                   "the DATA parser can now store a double quote inside a quoted item: rendering such an item raw no longer "
                   "re-parses to the same item", pc.span)
    data_number_classifier(ck, F, "C14")
    if F.one("DataParser::push_current_element") is not None:
        rn = [c for c in rd.calls() if c.callee.endswith("ToString>::to_string")]
        ck.require(len(rn) >= 1, "C14:DATA-NUMBER:renderer", "DATA renderer vs parser", "numbers are rendered with f64's to_string()",
                   "the DATA renderer no longer writes numbers with f64's Display", rd.span)
    # separator: ", " -- blanks around commas are ignored by the parser (trim) -- checked with C12.5
    de = F.one("data::data_elements_to_string")
    if de is not None:
        joins = [c for c in de.calls() if c.callee.endswith("::join")]
        ok = any(any(expr_const_str(de.expr(a)) == ", " for a in c.args) for c in joins)
        if not ok:
            # or pushed between items by hand
            ok = any(c.callee.endswith("String::push_str") and len(c.args) > 1 and expr_const_str(de.expr(c.args[1])) == ", "
                     for c in de.calls())
        ck.require(ok, "C14:DATA:separator", "DATA renderer vs parser", "items are joined by `, `",
                   "DATA items are no longer joined by `, `", de.span)
