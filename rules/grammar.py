"""A9: parsing skeletons of the recursive-descent functions (evaluator and analyzer forks).

A skeleton is the function's CFG projected onto calls of the token-cursor API of `Program`
(next_token / next_unwrapped_token / peek_next_token / accept_next_token(K) / expect_next_token(K) /
try_next_token(F) / discard_remaining_tokens) and calls to other parsing functions of the same fork, in
reverse post-order, each tagged with whether it sits inside a natural loop.
"""
from lib import sfx, strip_expr, strip_refs, show, expr_calls

CURSOR = ("next_token", "next_unwrapped_token", "peek_next_token", "accept_next_token", "expect_next_token",
          "try_next_token", "discard_remaining_tokens", "has_next_token")


def rpo(body):
    seen = set()
    order = []

    def dfs(b):
        stack = [(b, iter(body.succs(b)))]
        seen.add(b)
        while stack:
            node, it = stack[-1]
            adv = False
            for s in it:
                if s not in seen:
                    seen.add(s)
                    stack.append((s, iter(body.succs(s))))
                    adv = True
                    break
            if not adv:
                order.append(node)
                stack.pop()

    dfs(0)
    order.reverse()
    return order


def token_arg(body, c):
    """Constant token / fn-item argument of a cursor call."""
    if len(c.args) < 2:
        return None
    e = strip_expr(body.expr(c.args[1]))
    if e[0] == "agg" and str(e[1]).endswith("tokenizer::Token"):
        return e[2]
    if e[0] == "const" and "fn" in e[1]:
        return e[1]["fn"].split("::")[-2] + "::" + e[1]["fn"].split("::")[-1]
    return show(e)


def fork_prefix(body):
    """`abasic_core::expression::ExpressionEvaluator` for a method path."""
    return body.path.rsplit("::", 1)[0]


_CONSUMES = {}


def consumes(F, path, stack=()):
    """Does the function (transitively, within its fork) touch the token cursor?"""
    if path in _CONSUMES:
        return _CONSUMES[path]
    if path in stack:
        return False
    b = F.bodies.get(path)
    if b is None:
        return False
    res = False
    for c in b.calls():
        nm = c.callee.split("::")[-1]
        if c.callee.startswith("abasic_core::program::Program::") and nm in CURSOR:
            res = True
            break
    if not res:
        for c in b.calls():
            if c.is_local and c.callee != path and ("Evaluator::" in c.callee or "Analyzer::" in c.callee):
                if consumes(F, c.callee, stack + (path,)):
                    res = True
                    break
    if not stack:
        _CONSUMES[path] = res
    return res


def skeleton(body, peers=(), F=None, distinct=False, inline=None, _stack=()):
    """[(kind, detail, in_loop)] in reverse post-order.  `inline(path) -> bool` says which local parsing helpers are
    expanded in place (helpers that exist in one fork only, or a function the caller wants to look through)."""
    loops = body.natural_loops()
    loop_blocks = set()
    for blk in loops.values():
        loop_blocks |= blk
    out = []
    pref = fork_prefix(body)
    order = rpo(body)
    for b in order:
        c = body.call_at(b)
        if c is None:
            continue
        nm = c.callee.split("::")[-1]
        inl = b in loop_blocks
        if c.callee.startswith("abasic_core::program::Program::") and nm in CURSOR:
            det = token_arg(body, c) if nm in ("accept_next_token", "expect_next_token", "try_next_token") else None
            out.append((nm, det, inl))
        elif c.is_local and (c.callee.startswith(pref + "::") or any(c.callee.startswith(p + "::") for p in peers)) \
                and nm not in ("program", "new", "expression_analyser"):
            if F is not None and not consumes(F, c.callee):
                continue  # bookkeeping helper that never touches the token cursor
            if inline is not None and F is not None and c.callee in F.bodies and c.callee not in _stack and \
                    c.callee != body.path and inline(c.callee):
                for (k2, d2, l2) in skeleton(F.bodies[c.callee], peers, F, False, inline, _stack + (body.path,)):
                    out.append((k2, d2, inl or l2))
                continue
            out.append(("call", nm, inl))
    if distinct:
        seen = []
        for x in out:
            if x not in seen:
                seen.append(x)
        return seen
    return out


def tier_summary(body):
    """Summary of a binary precedence tier: first operand, loop operator, loop operand, combiner, arg order."""
    sk = skeleton(body)
    res = {"first": None, "loop_op": None, "loop_operand": None, "combiner": None, "left_is_acc": None,
           "right_is_fresh": None, "result_to_acc": None, "self_call": False, "skeleton": sk}
    self_name = body.path.split("::")[-1]
    for (k, d, inl) in sk:
        if k == "call" and d == self_name:
            res["self_call"] = True
        if k == "call" and not inl and res["first"] is None:
            res["first"] = d
        if k in ("accept_next_token", "try_next_token") and inl and res["loop_op"] is None:
            res["loop_op"] = (k, d)
        if k == "call" and inl and res["loop_operand"] is None:
            res["loop_operand"] = d
    # the accumulator: the local returned inside Ok(..)
    acc = None
    for b, i, pl, rv, sp in body.assigns():
        if pl["local"] == 0 and not pl["proj"] and rv["k"] == "aggregate" and rv.get("variant") == "Ok":
            op = rv["ops"][0]
            if op["k"] in ("copy", "move"):
                l = op["place"]["local"]
                # follow single moves
                for _ in range(4):
                    d = body.unique_def(l)
                    if d and d[0] == "assign" and d[3]["k"] == "use" and d[3]["op"]["k"] in ("copy", "move") \
                            and not d[3]["op"]["place"]["proj"]:
                        l = d[3]["op"]["place"]["local"]
                    else:
                        break
                acc = l
    res["acc"] = acc
    loops = body.natural_loops()
    loop_blocks = set()
    for blk in loops.values():
        loop_blocks |= blk
    for c in body.calls():
        if c.bb not in loop_blocks:
            continue
        if "operators::" in c.callee and (c.callee.split("::")[-1].startswith("evaluate")):
            res["combiner"] = "::".join(c.callee.split("::")[-2:])
            args = c.args
            # method form: (self op, left, right); free fn form: (left, right)
            lr = args[-2:]
            l = strip_refs(body.expr(lr[0]))
            r = strip_refs(body.expr(lr[1]))
            res["left_is_acc"] = l == ("local", acc)
            rcalls = [x[1].split("::")[-1] for x in expr_calls(r)]
            res["right_is_fresh"] = res["loop_operand"] in rcalls
            # result flows back into the accumulator
            back = False
            for d in body.defs().get(acc, []):
                if d[0] == "assign":
                    ee = body.rv_expr(d[3])
                    if any(x[3] is c for x in expr_calls(ee) if len(x) > 3):
                        back = True
            res["result_to_acc"] = back
    return res


def skeleton_paths(body, peers=(), F=None, inline=None, rename=None, limit=4000, _stack=()):
    """The set of maximal cursor/parse step sequences along the acyclic paths of the function (each loop body at most
    once; sequences that are proper prefixes of another one -- the early error exits -- are dropped).  Independent of the
    order in which the compiler laid out the arms of a branch."""
    pref = fork_prefix(body)
    per_block = {}
    for b in body.reachable():
        c = body.call_at(b)
        if c is None:
            continue
        nm = c.callee.split("::")[-1]
        if c.callee.startswith("abasic_core::program::Program::") and nm in CURSOR:
            det = token_arg(body, c) if nm in ("accept_next_token", "expect_next_token", "try_next_token") else None
            per_block[b] = [((nm, det),)]
        elif c.is_local and (c.callee.startswith(pref + "::") or any(c.callee.startswith(p + "::") for p in peers)) \
                and nm not in ("program", "new", "expression_analyser"):
            if F is not None and not consumes(F, c.callee):
                continue
            if inline is not None and F is not None and c.callee in F.bodies and c.callee not in _stack and \
                    c.callee != body.path and inline(c.callee):
                sub = skeleton_paths(F.bodies[c.callee], peers, F, inline, rename, limit, _stack + (body.path,))
                per_block[b] = sorted(sub) if sub else [()]
            else:
                per_block[b] = [(("call", rename.get(nm, nm) if rename else nm),)]
    seqs = set()
    for path in body.paths(limit=limit):
        if body.term(path[-1])["k"] == "unreachable":
            continue
        cur = [()]
        for b in path:
            opts = per_block.get(b)
            if not opts:
                continue
            cur = [x + o for x in cur for o in opts]
            if len(cur) > limit:
                raise OverflowError("too many step sequences in %s" % body.path)
        for x in cur:
            # ordered-distinct, like skeleton(distinct=True): merged arms repeat steps
            d = []
            for it in x:
                if it not in d:
                    d.append(it)
            seqs.add(tuple(d))
    maximal = {x for x in seqs if not any(y != x and y[:len(x)] == x for y in seqs)}
    return frozenset(maximal)
