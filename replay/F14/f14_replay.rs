use abasic_core::{Interpreter, InterpreterOutput, InterpreterState};

fn feed(i: &mut Interpreter, line: &str) -> String {
    i.start_evaluating(line).unwrap();
    while i.get_state() == InterpreterState::Running {
        i.continue_evaluating().unwrap();
    }
    i.take_output().into_iter().map(|o| match o { InterpreterOutput::Print(s) => s, o => o.to_string() }).collect()
}

#[test]
fn data_items_with_embedded_quotes_round_trip() {
    for src in ["10 DATA hello \"there\"", "10 DATA a\"b, \"c,d\", 5, x y \"z\" w :PRINT 1", "10 DATA it\"s,\"\",   q\"  "] {
        let mut a = Interpreter::default();
        feed(&mut a, src);
        feed(&mut a, "20 READ A$: PRINT \"<\";A$;\">\": GOTO 20");
        let listing1 = feed(&mut a, "LIST");
        let mut b = Interpreter::default();
        for l in listing1.lines() { feed(&mut b, l); }
        let listing2 = feed(&mut b, "LIST");
        assert_eq!(listing1, listing2, "LIST is not a fixed point for {src}");
        let run = |i: &mut Interpreter| { let _ = i.start_evaluating("RUN"); let mut out = String::new();
            loop { out += &i.take_output().into_iter().map(|o| o.to_string()).collect::<String>();
                   if i.get_state() != InterpreterState::Running { break; } if i.continue_evaluating().is_err() { break; } }
            out + &i.take_output().into_iter().map(|o| o.to_string()).collect::<String>() };
        assert_eq!(run(&mut a), run(&mut b), "READ sequence differs for {src}");
    }
}
