use abasic_core::{Interpreter, InterpreterOutput, InterpreterState};

fn feed(i: &mut Interpreter, line: &str) -> (String, Option<String>) {
    let mut err = i.start_evaluating(line).err().map(|e| e.to_string());
    while err.is_none() && i.get_state() == InterpreterState::Running {
        err = i.continue_evaluating().err().map(|e| e.to_string());
    }
    (i.take_output().into_iter().map(|o| match o { InterpreterOutput::Print(s) => s, o => format!("[{o}]") }).collect(), err)
}

#[test]
fn failing_return_at_a_breakpoint_does_not_forget_the_breakpoint() {
    let mut i = Interpreter::default();
    for l in ["10 PRINT \"A\"", "20 STOP", "30 PRINT \"B\""] { feed(&mut i, l); }
    let (out, e) = feed(&mut i, "RUN");
    assert!(e.is_none() && out.starts_with("A\n"), "{out} {e:?}");
    let (_, e) = feed(&mut i, "RETURN");
    assert!(e.unwrap().starts_with("RETURN WITHOUT GOSUB"));
    let (out, e) = feed(&mut i, "CONT");
    assert_eq!((out.as_str(), e), ("B\n", None));
}

#[test]
fn successful_return_at_a_breakpoint_still_leaves_the_subroutine() {
    let mut i = Interpreter::default();
    for l in ["10 GOSUB 100", "20 PRINT \"BACK\"", "30 END", "100 STOP", "110 PRINT \"SUB\"", "120 RETURN"] { feed(&mut i, l); }
    feed(&mut i, "RUN");
    let (out, e) = feed(&mut i, "RETURN");
    assert_eq!((out.as_str(), e), ("BACK\n", None));
    let (_, e) = feed(&mut i, "CONT");
    assert!(e.unwrap().starts_with("CAN'T CONTINUE"));
}
