use abasic_core::{Interpreter, InterpreterOutput, InterpreterState};

fn feed(i: &mut Interpreter, line: &str) -> (String, Option<String>) {
    let mut err = i.start_evaluating(line).err().map(|e| e.to_string());
    while err.is_none() && i.get_state() == InterpreterState::Running {
        err = i.continue_evaluating().err().map(|e| e.to_string());
    }
    (i.take_output().into_iter().map(|o| match o { InterpreterOutput::Print(s) => s, o => format!("[{o}]") }).collect(), err)
}

#[test]
fn failed_function_call_at_breakpoint_does_not_shadow_variables() {
    let mut i = Interpreter::default();
    for l in ["10 DEF FN F(X)=X+Q$", "20 X=7", "30 STOP", "40 PRINT X"] { feed(&mut i, l); }
    let (_, e) = feed(&mut i, "RUN");
    assert!(e.is_none());
    let (_, e) = feed(&mut i, "PRINT FN F(99)");
    let e = e.unwrap();
    assert!(e.starts_with("TYPE MISMATCH IN 10"), "{e}");
    let (out, e) = feed(&mut i, "CONT");
    assert_eq!((out.as_str(), e), ("7\n", None));
}

#[test]
fn nested_failures_unwind_every_frame() {
    let mut i = Interpreter::default();
    for l in ["10 DEF FN A(X)=FN B(X+1)", "20 DEF FN B(Y)=Y/0", "30 X=1:Y=2", "40 STOP", "50 PRINT X;Y"] { feed(&mut i, l); }
    feed(&mut i, "RUN");
    let (_, e) = feed(&mut i, "PRINT FN A(5)");
    let e = e.unwrap(); assert!(e.contains("IN 20") && e.contains("DIVISION"), "{e}");
    let (out, e) = feed(&mut i, "CONT");
    assert_eq!((out.as_str(), e), ("12\n", None));
}
