use abasic_core::{Interpreter, InterpreterOutput, InterpreterState, SourceFileAnalyzer, DiagnosticMessage};

fn run(line: &str) -> (Result<(), String>, String) {
    let mut i = Interpreter::default();
    let mut r = i.start_evaluating(line).map_err(|e| e.to_string());
    while r.is_ok() && i.get_state() == InterpreterState::Running {
        r = i.continue_evaluating().map_err(|e| e.to_string());
    }
    let out: String = i.take_output().into_iter().map(|o| match o { InterpreterOutput::Print(s) => s, o => o.to_string() }).collect();
    (r, out)
}

#[test]
fn deep_parens_interpreter() {
    let n = 5000;
    let line = format!("PRINT {}1{}", "(".repeat(n), ")".repeat(n));
    let (r, _) = run(&line);
    assert_eq!(r, Err("OUT OF MEMORY ERROR (STACK OVERFLOW)".to_string()));
}

#[test]
fn shallow_parens_still_work_and_depth_is_balanced() {
    let n = 60;
    let line = format!("PRINT {}1{}", "(".repeat(n), ")".repeat(n));
    let mut i = Interpreter::default();
    for _ in 0..200 {
        i.start_evaluating(&line).unwrap();
        assert_eq!(i.get_state(), InterpreterState::Idle);
    }
    // errors inside nested expressions must not leak depth either
    let bad = format!("PRINT {}1/0{}", "(".repeat(n), ")".repeat(n));
    for _ in 0..200 {
        assert!(i.start_evaluating(&bad).is_err());
    }
    i.take_output();
    i.start_evaluating(&line).unwrap();
    let out: Vec<String> = i.take_output().into_iter().map(|o| o.to_string()).collect();
    assert_eq!(out.join(""), "1\n");
}

#[test]
fn deep_if_interpreter() {
    let line = format!("{}PRINT 1", "IF 1 THEN ".repeat(20000));
    let (r, _) = run(&line);
    assert_eq!(r, Err("OUT OF MEMORY ERROR (STACK OVERFLOW)".to_string()));
    let line = format!("{}PRINT 1", "IF 1 THEN ".repeat(50));
    let (r, out) = run(&line);
    assert_eq!((r, out.as_str()), (Ok(()), "1\n"));
}

#[test]
fn deep_analyzer() {
    let n = 5000;
    let src = format!("10 PRINT {}1{}\n20 {}PRINT 1\n", "(".repeat(n), ")".repeat(n), "IF 1 THEN ".repeat(20000));
    let a = SourceFileAnalyzer::analyze(src);
    let errs: Vec<String> = a.messages().iter().filter_map(|m| match m { DiagnosticMessage::Error(l, e) => Some(format!("{l}:{e}")), _ => None }).collect();
    assert_eq!(errs.len(), 2, "{errs:?}");
    assert!(errs.iter().all(|e| e.contains("OUT OF MEMORY")), "{errs:?}");
}
