#!/usr/bin/env python3
"""Mechanical mutation sweep: a recall probe for the rule engine (development tool, not a registered check).

    selftest/sweep/sweep.py gen                      -> selftest/sweep/mutants.json (every single-token mutant of the non-test source)
    selftest/sweep/sweep.py run [--workers N] [--only <substr>]
                                                     -> selftest/sweep/results.jsonl (one record per mutant, resumable)
    selftest/sweep/sweep.py report                   -> table on stdout

For each mutant (one operator swapped / one statement deleted / one constant changed in non-test code):
  1. build + run the project's own test suite on a scratch copy; a mutant the suite kills (or that does not compile) is dropped:
     the brief asks for changes that still compile and pass the existing tests;
  2. run all 20 checks on the surviving mutant, record which keys they report.
A survivor no check reports is either an equivalent mutant, outside every property, or a miss: those are triaged by hand
(selftest/sweep/TRIAGE.md).  Nothing here runs ABASIC programs other than through the project's own unedited test suite, and the
deciding checks are exactly the registered ones; scratch copies live under /var/tmp and are removed at the end.
"""
import hashlib
import json
import os
import re
import shutil
import subprocess
import sys
import threading
import time

HERE = os.path.dirname(os.path.abspath(__file__))
VERIF = os.path.dirname(os.path.dirname(HERE))
REPO = os.environ.get("ABASIC_REPO", "/repo")
SRC_DIRS = ["abasic-core/src", "abasic-cli/src", "abasic-web/src", "abasic-lsp/src"]
IDS = ["C%02d" % i for i in range(1, 21)]
BASE_FAIL = {"type_mismatch_works", "unterminated_string_literal_works"}

OPS = [
    # (name, regex, replacements)
    ("rel", re.compile(r"(?<=[\w\)\]] )(<=|>=|<|>|==|!=)(?= [\w\(\-'\"&\*])"),
     {"<": ["<=", ">"], "<=": ["<"], ">": [">=", "<"], ">=": [">"], "==": ["!="], "!=": ["=="]}),
    ("logic", re.compile(r" (&&|\|\|) "), {"&&": ["||"], "||": ["&&"]}),
    ("arith", re.compile(r"(?<=[\w\)\]] )(\+|-|\*)(?= [\w\(])"), {"+": ["-"], "-": ["+"], "*": ["+"]}),
    ("one", re.compile(r"(?<=[\+\-] )(1)\b"), {"1": ["0", "2"]}),
    ("bool", re.compile(r"\b(true|false)\b"), {"true": ["false"], "false": ["true"]}),
    ("not", re.compile(r"(?<=if )(!)(?=[\w\(])"), {"!": [""]}),
    ("flow", re.compile(r"\b(continue|break)(?=;)"), {"continue": ["break"], "break": ["continue"]}),
    ("compound", re.compile(r"(\+=|-=)"), {"+=": ["-="], "-=": ["+="]}),
    ("some", re.compile(r"\b(is_some|is_none|is_ok|is_err|is_empty)\(\)"), None),
    ("minmax", re.compile(r"\b(min|max|first|last|saturating_sub|saturating_add|checked_add|checked_sub)\("), None),
    # second batch
    ("int", re.compile(r"(?<![\w\.\[#])(\d+)(?![\w\.\]])"), "bump"),
    ("neg", re.compile(r"(?<![\w\)=<>!])(!)(?=[a-z_\(]\w*)"), {"!": [""]}),
    ("rev", re.compile(r"(\.rev\(\))"), {".rev()": [""]}),
    ("trim", re.compile(r"(\.trim\(\)|\.trim_start\(\)|\.trim_end\(\))"), {".trim()": [""], ".trim_start()": [""], ".trim_end()": [""]}),
    ("upper", re.compile(r"(\.to_ascii_uppercase\(\)|\.to_uppercase\(\))"), {".to_ascii_uppercase()": [""], ".to_uppercase()": [""]}),
]
SWAP = {"is_some": "is_none", "is_none": "is_some", "is_ok": "is_err", "is_err": "is_ok",
        "min": "max", "max": "min", "first": "last", "last": "first"}
DELETABLE = re.compile(r"^\s*(self\.[\w\.]+(\(.*\))?\s*(=|\+=|-=)[^=].*;|self\.[\w\.\(\)]+\(.*\)\??;|[a-z_][\w\.]*\.(clear|push|pop|insert|remove|truncate|push_str|extend|reset|flush|set|gc|retain|send)\w*\(.*\)\??;|[a-z_]\w*(\.\w+)* (=|\+=|-=) [^=].*;)\s*$")


def source_files():
    out = []
    for d in SRC_DIRS:
        for root, dirs, files in os.walk(os.path.join(REPO, d)):
            for fn in sorted(files):
                if fn.endswith(".rs") and not fn.endswith("_test.rs") and fn not in ("tests.rs", "test_util.rs"):
                    out.append(os.path.relpath(os.path.join(root, fn), REPO))
    return sorted(out)


def code_lines(text):
    """(index, line) of non-test, non-comment lines"""
    lines = text.split("\n")
    out = []
    in_test = False
    for i, l in enumerate(lines):
        if l.strip().startswith("#[cfg(test)]"):
            # everything from a cfg(test) item to the end of the file is test code in this repository (checked by hand:
            # tokenizer.rs, line_number_parser.rs, data.rs, string_manager.rs, arrays.rs all end with their test modules),
            # except data.rs:214 which guards one helper followed by the test module
            in_test = True
        if in_test:
            continue
        s = l.strip()
        if not s or s.startswith("//") or s.startswith("#[") or s.startswith("use ") or s.startswith("pub use "):
            continue
        out.append((i, l))
    return lines, out


def strip_strings(line):
    """mask string/char literals and trailing comments so operators inside them are not mutated"""
    out = []
    i = 0
    n = len(line)
    while i < n:
        c = line[i]
        if c == '"':
            j = i + 1
            while j < n and line[j] != '"':
                j += 2 if line[j] == "\\" else 1
            out.append('"' + "_" * (min(j, n) - i - 1) + ('"' if j < n else ""))
            i = j + 1
        elif c == "/" and line[i:i + 2] == "//":
            out.append(" " * (n - i))
            break
        else:
            out.append(c)
            i += 1
    return "".join(out)[:n].ljust(n)


def gen():
    muts = []
    for rel in source_files():
        text = open(os.path.join(REPO, rel)).read()
        lines, code = code_lines(text)
        for (i, l) in code:
            masked = strip_strings(l)
            for (name, rx, table) in OPS:
                for m in rx.finditer(masked):
                    tok = m.group(1)
                    if table == "bump":
                        if name == "int" and (int(tok) in (0, 1) or "const " in l and "=" not in l):
                            continue
                        reps = [str(int(tok) + 1)] if len(tok) < 6 else []
                    elif table is None:
                        if tok not in SWAP:
                            continue
                        reps = [SWAP[tok]]
                    else:
                        reps = table.get(tok, [])
                    for r in reps:
                        new = l[:m.start(1)] + r + l[m.end(1):]
                        muts.append({"file": rel, "line": i + 1, "op": name, "old": l.strip(), "new": new.strip(), "text": new})
            if DELETABLE.match(l) and l.count("(") == l.count(")"):
                muts.append({"file": rel, "line": i + 1, "op": "delete", "old": l.strip(), "new": "", "text": ""})
    for m in muts:
        m["id"] = hashlib.sha1(("%s:%d:%s:%s" % (m["file"], m["line"], m["op"], m["new"])).encode()).hexdigest()[:10]
    with open(os.path.join(HERE, "mutants.json"), "w") as f:
        json.dump(muts, f, indent=0)
    byop = {}
    for m in muts:
        byop[m["op"]] = byop.get(m["op"], 0) + 1
    print("%d mutants over %d files: %s" % (len(muts), len(source_files()), byop))


class Worker:
    def __init__(self, k):
        self.k = k
        self.dir = "/var/tmp/abasic-sweep-w%d" % k
        self.repo = os.path.join(self.dir, "repo")
        self.env = dict(os.environ, CARGO_NET_OFFLINE="true", CARGO_TARGET_DIR=os.path.join(self.dir, "target"),
                        ABASIC_VERIF_CACHE="/var/tmp/abasic-sweep-cache")

    def setup(self):
        shutil.rmtree(self.dir, ignore_errors=True)
        os.makedirs(self.dir)
        subprocess.check_call(["rsync", "-a", "--exclude", "target", "--exclude", ".git", REPO + "/", self.repo + "/"])
        r = self.tests()
        assert r["ok"], "baseline suite differs on the unmutated copy: %r" % r

    def tests(self):
        try:
            p = subprocess.run(["cargo", "test", "--workspace", "--offline", "--no-fail-fast"], cwd=self.repo, env=self.env,
                               stdout=subprocess.PIPE, stderr=subprocess.STDOUT, text=True, timeout=200)
        except subprocess.TimeoutExpired:
            subprocess.run(["pkill", "-f", self.dir + "/target"], stdout=subprocess.DEVNULL, stderr=subprocess.DEVNULL)
            return {"ok": False, "why": "timeout"}
        out = p.stdout
        if "could not compile" in out or re.search(r"^error(\[E\d+\])?:", out, re.M) and "test result" not in out:
            return {"ok": False, "why": "compile"}
        passed = sum(int(x) for x in re.findall(r"test result: \w+\. (\d+) passed", out))
        failed = set(x.split("::")[-1] for x in re.findall(r"^test (\S+) \.\.\. FAILED", out, re.M))
        ok = passed == 151 and failed == BASE_FAIL
        return {"ok": ok, "why": "suite" if not ok else "", "passed": passed, "failed": sorted(failed - BASE_FAIL)[:5]}

    def checks(self):
        ev = os.path.join(self.dir, "evidence")
        shutil.rmtree(ev, ignore_errors=True)
        env = dict(self.env, ABASIC_REPO=self.repo, ABASIC_EVIDENCE_DIR=ev)
        env.pop("CARGO_TARGET_DIR")
        r = subprocess.run([sys.executable, os.path.join(VERIF, "rules", "extract.py")], env=env, stdout=subprocess.PIPE,
                           stderr=subprocess.STDOUT, text=True)
        if r.returncode != 0:
            return {"error": r.stdout[-400:]}
        res = {}
        lock = threading.Lock()

        def one(pid):
            p = subprocess.run([sys.executable, os.path.join(VERIF, "rules", "run.py"), pid], env=env, stdout=subprocess.PIPE,
                               stderr=subprocess.STDOUT, text=True)
            keys = re.findall(r"^  key: (.*)$", p.stdout, re.M)
            if p.returncode not in (0, 1) and not keys:
                keys = ["ERROR:" + p.stdout[-200:]]
            with lock:
                if keys:
                    res[pid] = keys
        ths = []
        sem = threading.Semaphore(5)

        def guarded(pid):
            with sem:
                one(pid)
        for pid in IDS:
            t = threading.Thread(target=guarded, args=(pid,))
            t.start()
            ths.append(t)
        for t in ths:
            t.join()
        return res

    def run_one(self, m):
        path = os.path.join(self.repo, m["file"])
        orig = open(os.path.join(REPO, m["file"])).read()
        lines = orig.split("\n")
        assert lines[m["line"] - 1].strip() == m["old"], "source moved under the mutant list: regenerate"
        lines[m["line"] - 1] = m["text"]
        with open(path, "w") as f:
            f.write("\n".join(lines))
        rec = {"id": m["id"], "file": m["file"], "line": m["line"], "op": m["op"], "old": m["old"], "new": m["new"]}
        try:
            t = self.tests()
            rec["tests"] = t
            if t["ok"]:
                rec["reported"] = self.checks()
        finally:
            with open(path, "w") as f:
                f.write(orig)
        return rec


def run(workers, only):
    muts = json.load(open(os.path.join(HERE, "mutants.json")))
    if only:
        muts = [m for m in muts if only in m["file"] or only == m["op"]]
    done = set()
    rp = os.path.join(HERE, "results.jsonl")
    if os.path.exists(rp):
        for l in open(rp):
            done.add(json.loads(l)["id"])
    todo = [m for m in muts if m["id"] not in done]
    print("%d mutants, %d already done, %d to do, %d workers" % (len(muts), len(done), len(todo), workers), flush=True)
    ws = [Worker(k) for k in range(workers)]
    ts = [threading.Thread(target=w.setup) for w in ws]
    [t.start() for t in ts]
    [t.join() for t in ts]
    lock = threading.Lock()
    it = iter(todo)
    out = open(rp, "a")
    t0 = time.time()
    n = [0]

    def loop(w):
        while True:
            with lock:
                m = next(it, None)
            if m is None:
                return
            try:
                rec = w.run_one(m)
            except Exception as e:  # keep the sweep going; the record says what happened
                rec = {"id": m["id"], "file": m["file"], "line": m["line"], "op": m["op"], "old": m["old"], "new": m["new"],
                       "tests": {"ok": False, "why": "harness:%s" % e}}
            with lock:
                out.write(json.dumps(rec) + "\n")
                out.flush()
                n[0] += 1
                if n[0] % 10 == 0:
                    print("%d/%d  %.0fs" % (n[0], len(todo), time.time() - t0), flush=True)
    ts = [threading.Thread(target=loop, args=(w,)) for w in ws]
    [t.start() for t in ts]
    [t.join() for t in ts]
    for w in ws:
        shutil.rmtree(w.dir, ignore_errors=True)
    shutil.rmtree("/var/tmp/abasic-sweep-cache", ignore_errors=True)
    print("SWEEP-DONE", flush=True)


def recheck(workers):
    """Re-run the twenty checks (current rules) on the survivors that no check reported; the suite verdict is kept."""
    rp = os.path.join(HERE, "results.jsonl")
    recs = [json.loads(l) for l in open(rp)]
    muts = {m["id"]: m for m in json.load(open(os.path.join(HERE, "mutants.json")))}
    todo = [r for r in recs if r["tests"]["ok"] and not r.get("reported") and r["id"] in muts]
    print("%d silent survivors to re-check with %d workers" % (len(todo), workers), flush=True)
    ws = [Worker(k) for k in range(workers)]
    for w in ws:
        shutil.rmtree(w.dir, ignore_errors=True)
        os.makedirs(w.dir)
        subprocess.check_call(["rsync", "-a", "--exclude", "target", "--exclude", ".git", REPO + "/", w.repo + "/"])
    lock = threading.Lock()
    it = iter(todo)

    def loop(w):
        while True:
            with lock:
                r = next(it, None)
            if r is None:
                return
            m = muts[r["id"]]
            path = os.path.join(w.repo, m["file"])
            orig = open(os.path.join(REPO, m["file"])).read()
            lines = orig.split("\n")
            lines[m["line"] - 1] = m["text"]
            with open(path, "w") as f:
                f.write("\n".join(lines))
            try:
                r["reported"] = w.checks()
            finally:
                with open(path, "w") as f:
                    f.write(orig)
    ts = [threading.Thread(target=loop, args=(w,)) for w in ws]
    [t.start() for t in ts]
    [t.join() for t in ts]
    with open(rp, "w") as f:
        for r in recs:
            f.write(json.dumps(r) + "\n")
    for w in ws:
        shutil.rmtree(w.dir, ignore_errors=True)
    shutil.rmtree("/var/tmp/abasic-sweep-cache", ignore_errors=True)
    print("RECHECK-DONE", flush=True)


def report():
    recs = [json.loads(l) for l in open(os.path.join(HERE, "results.jsonl"))]
    tot = len(recs)
    why = {}
    for r in recs:
        k = "survived" if r["tests"]["ok"] else r["tests"].get("why", "?").split(":")[0]
        why[k] = why.get(k, 0) + 1
    surv = [r for r in recs if r["tests"]["ok"]]
    rep = [r for r in surv if r.get("reported")]
    print("mutants %d: %s" % (tot, why))
    print("survivors of the test suite: %d, reported by at least one check: %d, silent: %d" % (len(surv), len(rep), len(surv) - len(rep)))
    for r in surv:
        if not r.get("reported"):
            print("SILENT %s %s:%d [%s]  %s   ->   %s" % (r["id"], r["file"], r["line"], r["op"], r["old"][:90], r["new"][:90]))


if __name__ == "__main__":
    cmd = sys.argv[1] if len(sys.argv) > 1 else "report"
    if cmd == "gen":
        gen()
    elif cmd == "run":
        w = 4
        only = None
        a = sys.argv[2:]
        while a:
            if a[0] == "--workers":
                w = int(a[1]); a = a[2:]
            elif a[0] == "--only":
                only = a[1]; a = a[2:]
            else:
                a = a[1:]
        run(w, only)
    elif cmd == "recheck":
        recheck(int(sys.argv[3]) if len(sys.argv) > 3 and sys.argv[2] == "--workers" else 3)
    else:
        report()
