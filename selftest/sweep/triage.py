#!/usr/bin/env python3
"""selftest/sweep/triage.py -> selftest/sweep/TRIAGE.md

Every survivor of the project's suite that no check reports must fall into one of the categories below (decided by reading the
mutant against the twenty property statements); anything else is printed as UNTRIAGED and makes the script exit 1."""
import json
import os
import re
import sys

HERE = os.path.dirname(os.path.abspath(__file__))

# (file regex, line set or None, reason)
CATEGORIES = [
    (r"abasic-cli/src/stdio_interpreter\.rs", {54, 57, 60, 68, 126, 128, 202, 243, 246, 112, 90, 97, 105, 110},
     "CLI presentation (what is echoed, coloured, numbered or reported while loading): both modes of the CLI go through the same code, "
     "so C15's mode equality is unaffected, and no other property speaks about the CLI's rendering"),
    (r"abasic-cli/src/stdio_interpreter\.rs", {67, 69, 182, 203, 206, 237, 247, 253, 254},
     "CLI session control (history, CTRL-C / EOF handling, NEW, fatal-error policy): outside every property (C07 and C10 are "
     "about the core's API, C19's NEW clause about the web adapter)"),
    (r"abasic-cli/src/stdio_interpreter\.rs", {224, 198}, "CLI session control / which line is echoed with an error (see the categories above)"),
    (r"abasic-cli/src/stdio_printer\.rs", {5}, "size of the CLI's line buffer (granularity of writes)"),
    (r"abasic-core/src/analyzer/expression_analyzer\.rs", {42}, "equivalent: the analyzer computes the arity of an array index but never uses it (TODO in the source)"),
    (r"abasic-core/src/analyzer/statement_analyzer\.rs", {166}, "the analyzer's READ assigns a value typed after the variable's own name: the check cannot fail, only the symbol-usage log (warnings) changes"),
    (r"abasic-core/src/data\.rs", {200}, "DATA strings allocated outside the string manager: memory accounting only"),
    (r"abasic-core/src/program\.rs", {19}, "nesting limit 65 instead of 64: as safe a bound; no property names the number"),
    (r"abasic-core/src/program\.rs", {183}, "equivalent: loop names are unique on the FOR stack, so the search direction does not matter"),
    (r"abasic-lsp/src/main\.rs", {312}, "diagnostic severity left unset: C20 speaks about the set, ranges and liveness of diagnostics, not their severity"),
    (r"abasic-cli/src/cli_args\.rs", {31}, "decides whether the CLI stays at the prompt after running a file; the program's output is the same"),
    (r"abasic-cli/src/stdio_printer\.rs", {41, 49, 50, 51},
     "line-buffer granularity of the CLI's stdout (when a chunk is written, not whether): all output still reaches stdout before a "
     "successful exit (C15:CLI:flushed-at-exit + printer contracts hold), identically in both modes"),
    (r"abasic-core/src/analyzer/source_file_analyzer\.rs", {78, 84},
     "the analyzer stops at the first unnumbered / empty line instead of skipping it: C15 quantifies over files whose lines are all "
     "numbered and non-empty, C05/C20 only need termination and well-formed diagnostics"),
    (r"abasic-core/src/analyzer/statement_analyzer\.rs", {185, 196},
     "symbol-usage logging behind the analyzer's *warnings* (unused / undefined symbol); C06 is about errors, no property covers these warnings"),
    (r"abasic-core/src/interpreter\.rs", {129}, "equivalent: every entry point re-establishes the empty immediate line before it does anything else"),
    (r"abasic-core/src/interpreter\.rs", {143}, "equivalent for blank input lines (nothing to tokenize, nothing to run)"),
    (r"abasic-core/src/interpreter\.rs", {176, 179},
     "the TRACE / NOTRACE commands; C17 quantifies over the four flag configurations, not over how a flag gets set"),
    (r"abasic-core/src/interpreter\.rs", {207, 275, 278}, "string garbage collection calls: memory reclamation only, no property bounds memory"),
    (r"abasic-core/src/interpreter_error\.rs", {44, 56}, "rendering of the caret line; C19 requires the adapter to pass on what the core renders, C05/C13 are about token ranges"),
    (r"abasic-core/src/program\.rs", {453, 454}, "rendering of the caret line (see above)"),
    (r"abasic-core/src/program\.rs", {133},
     "GOSUB frames kept after a program ended without a breakpoint: observable only through a direct-mode RETURN, which no property quantifies over"),
    (r"abasic-core/src/program\.rs", {186}, "equivalent: loop names are unique on the FOR stack (start_loop removes a same-named loop first)"),
    (r"abasic-core/src/program\.rs", {216, 308, 337},
     "a breakpoint left pending after CONT / GOTO / a successful direct-mode RETURN: observable only through a second CONT after the "
     "program has moved on; C07 quantifies over break + CONT pairs"),
    (r"abasic-core/src/syntax_error\.rs", {18}, "`i..i+0`: an empty range at the offending character lies within the line"),
    (r"abasic-lsp/src/main\.rs", {99, 105}, "capability advertisement (what the client will ask for), not the answers"),
    (r"abasic-lsp/src/main\.rs", {214}, "the table entry of a closed document is kept: it is never served again without a new open"),
]


def main():
    recs = [json.loads(l) for l in open(os.path.join(HERE, "results.jsonl"))]
    surv = [r for r in recs if r["tests"]["ok"]]
    silent = [r for r in surv if not r.get("reported")]
    why = {}
    for r in recs:
        k = "survived" if r["tests"]["ok"] else r["tests"].get("why", "?").split(":")[0]
        why[k] = why.get(k, 0) + 1
    out = ["# Mutation sweep: triage of the survivors no check reports", "",
           "Generated by `selftest/sweep/triage.py` from `results.jsonl`.  %d mutants: %s." % (len(recs), ", ".join("%s %d" % kv for kv in sorted(why.items()))),
           "Of the %d mutants the project's suite lets through, %d are reported by at least one check and %d are not; each of those is "
           "assigned to a category below, decided by reading the mutant against the twenty property statements." % (len(surv), len(surv) - len(silent), len(silent)), ""]
    groups = {}
    untriaged = []
    for r in silent:
        hit = None
        for (rx, lines, reason) in CATEGORIES:
            if re.search(rx, r["file"]) and (lines is None or r["line"] in lines):
                hit = reason
                break
        if hit is None:
            untriaged.append(r)
        else:
            groups.setdefault(hit, []).append(r)
    for reason, rs in groups.items():
        out.append("## %s" % reason)
        out.append("")
        for r in sorted(rs, key=lambda x: (x["file"], x["line"])):
            out.append("- `%s:%d` [%s] `%s` -> `%s`" % (r["file"], r["line"], r["op"], r["old"][:80], r["new"][:80] or "(deleted)"))
        out.append("")
    if untriaged:
        out.append("## UNTRIAGED")
        out.append("")
        for r in untriaged:
            out.append("- `%s:%d` [%s] `%s` -> `%s`" % (r["file"], r["line"], r["op"], r["old"][:90], r["new"][:90] or "(deleted)"))
            print("UNTRIAGED %s %s:%d [%s] %s -> %s" % (r["id"], r["file"], r["line"], r["op"], r["old"][:90], r["new"][:90]))
    with open(os.path.join(HERE, "TRIAGE.md"), "w") as f:
        f.write("\n".join(out) + "\n")
    print("survivors %d, reported %d, silent %d, untriaged %d" % (len(surv), len(surv) - len(silent), len(silent), len(untriaged)))
    return 1 if untriaged else 0


if __name__ == "__main__":
    sys.exit(main())
