//! Compile-fail witnesses for the crate-boundary part of the who-may-write arguments (C01, C04, C10, C11, C16).
//!
//! Each witness names `abasic_core` exactly as an external host would.  It is paired with a compiling twin that
//! differs only in the offending line, so that a witness which "fails to compile" merely because a path is wrong
//! cannot pass.  Run with `cargo +nightly test --doc --offline` (the stable toolchain ignores the error codes).

/// A host cannot assign the interpreter's turn-taking state.
/// ```compile_fail,E0616
/// let mut i = abasic_core::Interpreter::default();
/// i.state = abasic_core::InterpreterState::Idle;
/// ```
/// twin (compiled, never run):
/// ```no_run
/// let mut i = abasic_core::Interpreter::default();
/// i.enable_tracing = true;
/// assert_eq!(i.get_state(), abasic_core::InterpreterState::Idle);
/// ```
pub struct StateIsPrivate;

/// A host cannot plant or read the pending INPUT reply.
/// ```compile_fail,E0616
/// let mut i = abasic_core::Interpreter::default();
/// i.input = Some(String::from("42"));
/// ```
/// twin (compiled, never run):
/// ```no_run
/// let mut i = abasic_core::Interpreter::default();
/// i.enable_warnings = true;
/// ```
pub struct InputIsPrivate;

/// A host cannot reach the program (line store, locations, stacks) through the interpreter.
/// ```compile_fail,E0616
/// let mut i = abasic_core::Interpreter::default();
/// let _p = &mut i.program;
/// ```
/// twin (compiled, never run):
/// ```no_run
/// let mut i = abasic_core::Interpreter::default();
/// let _o = i.take_output();
/// ```
pub struct ProgramIsPrivate;

/// A host cannot reach variables or arrays directly.
/// ```compile_fail,E0616
/// let mut i = abasic_core::Interpreter::default();
/// let _v = &mut i.variables;
/// ```
/// twin (compiled, never run):
/// ```no_run
/// let mut i = abasic_core::Interpreter::default();
/// let _ = i.start_evaluating("X = 1");
/// ```
pub struct VariablesArePrivate;

/// A host cannot name the line store.
/// ```compile_fail,E0603
/// fn f(_: &abasic_core::program_lines::ProgramLines) {}
/// ```
/// twin (compiled, never run):
/// ```no_run
/// fn f(_: &abasic_core::Interpreter) {}
/// ```
pub struct LineStoreIsPrivate;

/// A host cannot name `Program` (and therefore not `Program::set_numbered_line`).
/// ```compile_fail,E0603
/// fn f(p: &mut abasic_core::program::Program) { p.set_numbered_line(10, vec![]); }
/// ```
/// twin (compiled, never run):
/// ```no_run
/// fn f(i: &mut abasic_core::Interpreter) { let _ = i.start_evaluating("10"); }
/// ```
pub struct ProgramTypeIsPrivate;

/// A host cannot fabricate an error value (the backtrace field is private), so errors only originate in the crate.
/// ```compile_fail,E0451
/// let _e = abasic_core::TracedInterpreterError {
///     error: abasic_core::InterpreterError::TypeMismatch,
///     location: None,
///     backtrace: std::backtrace::Backtrace::capture(),
/// };
/// ```
/// twin (compiled, never run):
/// ```no_run
/// let mut i = abasic_core::Interpreter::default();
/// let e = i.start_evaluating("PRINT \"A\" + 1").unwrap_err();
/// assert_eq!(e.error, abasic_core::InterpreterError::TypeMismatch);
/// ```
pub struct ErrorsOriginateInside;

/// A host cannot touch the random number generator's state; the only seeding entry point is `randomize`.
/// ```compile_fail,E0616
/// let mut i = abasic_core::Interpreter::default();
/// let _r = &mut i.rng;
/// ```
/// twin (compiled, never run):
/// ```no_run
/// let mut i = abasic_core::Interpreter::default();
/// i.randomize(42);
/// ```
pub struct RngIsPrivate;
