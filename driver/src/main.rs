//! MIR fact extractor for the abasic verification rules.
//!
//! Used as RUSTC_WORKSPACE_WRAPPER: argv[1] is the real rustc path (dropped), the rest
//! are rustc's arguments.  For every workspace crate it writes one JSON file
//! `$ABASIC_FACTS_DIR/<crate>.<kind>.json` in one write.  No rule lives here: this only
//! serialises what rustc knows (type-checked, trait-resolved MIR, ADT tables, consts).
#![feature(rustc_private)]
#![allow(clippy::all)]

extern crate rustc_abi;
extern crate rustc_driver;
extern crate rustc_hir;
extern crate rustc_interface;
extern crate rustc_middle;
extern crate rustc_session;
extern crate rustc_span;

use rustc_driver::{Callbacks, Compilation};
use rustc_hir::def::DefKind;
use rustc_hir::def_id::{DefId, LOCAL_CRATE};
use rustc_interface::interface::Compiler;
use rustc_middle::mir::{
    AggregateKind, BasicBlockData, Body, Const, ConstOperand, Operand, Place, PlaceElem, Rvalue,
    StatementKind, TerminatorKind,
};
use rustc_middle::mir::PlaceTy;
use rustc_middle::ty::print::{with_resolve_crate_name, with_no_trimmed_paths, with_no_visible_paths};
use rustc_middle::ty::{self, Instance, Ty, TyCtxt, TypeVisitableExt, TypingEnv};
use rustc_span::Span;
use std::fmt::Write as _;

// ---------------------------------------------------------------- JSON helpers

fn esc(s: &str) -> String {
    let mut o = String::with_capacity(s.len() + 2);
    o.push('"');
    for c in s.chars() {
        match c {
            '"' => o.push_str("\\\""),
            '\\' => o.push_str("\\\\"),
            '\n' => o.push_str("\\n"),
            '\r' => o.push_str("\\r"),
            '\t' => o.push_str("\\t"),
            c if (c as u32) < 0x20 => {
                let _ = write!(o, "\\u{:04x}", c as u32);
            }
            c => o.push(c),
        }
    }
    o.push('"');
    o
}

fn arr(items: Vec<String>) -> String {
    format!("[{}]", items.join(","))
}

fn obj(items: Vec<(&str, String)>) -> String {
    let parts: Vec<String> = items.into_iter().map(|(k, v)| format!("{}:{}", esc(k), v)).collect();
    format!("{{{}}}", parts.join(","))
}

// ---------------------------------------------------------------- naming

fn path_of(tcx: TyCtxt<'_>, did: DefId) -> String {
    with_resolve_crate_name!(with_no_visible_paths!(with_no_trimmed_paths!(tcx.def_path_str(did))))
}

fn path_with_args<'tcx>(tcx: TyCtxt<'tcx>, did: DefId, args: ty::GenericArgsRef<'tcx>) -> String {
    with_resolve_crate_name!(with_no_visible_paths!(with_no_trimmed_paths!(
        tcx.def_path_str_with_args(did, args)
    )))
}

fn ty_str(ty: Ty<'_>) -> String {
    with_resolve_crate_name!(with_no_visible_paths!(with_no_trimmed_paths!(format!("{}", ty))))
}

fn crate_of(tcx: TyCtxt<'_>, did: DefId) -> String {
    tcx.crate_name(did.krate).to_string()
}

fn adt_path_of_ty<'tcx>(tcx: TyCtxt<'tcx>, ty: Ty<'tcx>) -> Option<String> {
    match ty.peel_refs().kind() {
        ty::Adt(def, _) => Some(path_of(tcx, def.did())),
        _ => None,
    }
}

fn span_json(tcx: TyCtxt<'_>, span: Span) -> String {
    let sm = tcx.sess.source_map();
    let call = span.source_callsite();
    let lo = sm.lookup_char_pos(call.lo());
    let hi = sm.lookup_char_pos(call.hi());
    let file = match &lo.file.name {
        rustc_span::FileName::Real(r) => match r.local_path() {
            Some(p) => p.to_string_lossy().to_string(),
            None => format!("{:?}", lo.file.name),
        },
        other => format!("{:?}", other),
    };
    let mut mac = String::new();
    if span.from_expansion() {
        if let Some(e) = span.macro_backtrace().last() {
            mac = format!("{}", e.kind.descr());
        }
    }
    obj(vec![
        ("file", esc(&file)),
        ("line", format!("{}", lo.line)),
        ("col", format!("{}", lo.col.0 + 1)),
        ("eline", format!("{}", hi.line)),
        ("exp", format!("{}", span.from_expansion())),
        ("macro", esc(&mac)),
    ])
}

// ---------------------------------------------------------------- MIR pieces

struct Cx<'a, 'tcx> {
    tcx: TyCtxt<'tcx>,
    body: &'a Body<'tcx>,
    env: TypingEnv<'tcx>,
}

impl<'a, 'tcx> Cx<'a, 'tcx> {
    fn place(&self, p: &Place<'tcx>) -> String {
        let tcx = self.tcx;
        let mut pty = PlaceTy::from_ty(self.body.local_decls[p.local].ty);
        let mut projs = vec![];
        for elem in p.projection.iter() {
            let j = match elem {
                PlaceElem::Deref => obj(vec![("k", esc("deref"))]),
                PlaceElem::Field(f, fty) => {
                    let mut items = vec![("k", esc("field")), ("i", format!("{}", f.as_usize()))];
                    if let ty::Adt(def, _) = pty.ty.kind() {
                        let vidx = pty.variant_index.unwrap_or(rustc_abi::FIRST_VARIANT);
                        let v = def.variant(vidx);
                        items.push(("adt", esc(&path_of(tcx, def.did()))));
                        items.push(("variant", esc(&v.name.to_string())));
                        if let Some(fd) = v.fields.get(f) {
                            items.push(("name", esc(&fd.name.to_string())));
                        }
                    } else if let ty::Tuple(_) = pty.ty.kind() {
                        items.push(("adt", esc("(tuple)")));
                    } else if let ty::Closure(did, _) = pty.ty.kind() {
                        items.push(("adt", esc(&format!("(closure {})", path_of(tcx, *did)))));
                    }
                    items.push(("ty", esc(&ty_str(fty))));
                    obj(items)
                }
                PlaceElem::Index(l) => {
                    obj(vec![("k", esc("index")), ("local", format!("{}", l.as_usize()))])
                }
                PlaceElem::ConstantIndex { offset, from_end, .. } => obj(vec![
                    ("k", esc("constindex")),
                    ("offset", format!("{}", offset)),
                    ("from_end", format!("{}", from_end)),
                ]),
                PlaceElem::Subslice { from, to, from_end } => obj(vec![
                    ("k", esc("subslice")),
                    ("from", format!("{}", from)),
                    ("to", format!("{}", to)),
                    ("from_end", format!("{}", from_end)),
                ]),
                PlaceElem::Downcast(name, vidx) => {
                    let n = match name {
                        Some(s) => s.to_string(),
                        None => format!("{}", vidx.as_usize()),
                    };
                    obj(vec![("k", esc("downcast")), ("variant", esc(&n))])
                }
                other => obj(vec![("k", esc("other")), ("dbg", esc(&format!("{:?}", other)))]),
            };
            projs.push(j);
            pty = pty.projection_ty(tcx, elem);
        }
        obj(vec![
            ("local", format!("{}", p.local.as_usize())),
            ("proj", arr(projs)),
            ("ty", esc(&ty_str(pty.ty))),
        ])
    }

    fn constant(&self, c: &ConstOperand<'tcx>) -> String {
        let tcx = self.tcx;
        let ty = c.const_.ty();
        let mut items = vec![
            ("k", esc("const")),
            ("ty", esc(&ty_str(ty))),
            ("text", esc(&with_no_trimmed_paths!(format!("{}", c.const_)))),
        ];
        if let ty::FnDef(did, args) = ty.kind() {
            items.push(("fn", esc(&path_of(tcx, *did))));
            items.push(("fn_full", esc(&path_with_args(tcx, *did, args))));
            items.push(("fn_crate", esc(&crate_of(tcx, *did))));
        }
        if let Const::Unevaluated(uv, _) = c.const_ {
            items.push(("item", esc(&path_of(tcx, uv.def))));
            if let Some(p) = uv.promoted {
                items.push(("promoted", format!("{}", p.as_usize())));
            }
        }
        let is_scalar = ty.is_integral() || ty.is_bool() || ty.is_char() || ty.is_floating_point();
        if is_scalar {
            if let Some(si) = c.const_.try_eval_scalar_int(tcx, self.env) {
                let size = si.size();
                let bits = si.to_bits(size);
                if ty.is_signed() {
                    let v = size.sign_extend(bits) as i128;
                    items.push(("int", format!("{}", v)));
                } else if ty.is_floating_point() {
                    items.push(("bits", format!("{}", bits)));
                    if size.bytes() == 8 {
                        let f = f64::from_bits(bits as u64);
                        items.push(("float", esc(&format!("{:?}", f))));
                    }
                } else {
                    items.push(("int", format!("{}", bits)));
                }
            }
        } else if let ty::Ref(_, inner, _) = ty.kind() {
            if inner.is_str() {
                let evaluable = match c.const_ {
                    Const::Ty(_, tc) => !tc.has_non_region_param()
                        && matches!(tc.kind(), ty::ConstKind::Value(_)),
                    Const::Unevaluated(..) => false,
                    Const::Val(..) => true,
                };
                if evaluable {
                    if let Ok(cv) = c.const_.eval(tcx, self.env, c.span) {
                        if let Some(bytes) = cv.try_get_slice_bytes_for_diagnostics(tcx) {
                            items.push(("str", esc(&String::from_utf8_lossy(bytes))));
                        }
                    }
                }
            }
        }
        obj(items)
    }

    fn operand(&self, o: &Operand<'tcx>) -> String {
        match o {
            Operand::Copy(p) => obj(vec![("k", esc("copy")), ("place", self.place(p))]),
            Operand::Move(p) => obj(vec![("k", esc("move")), ("place", self.place(p))]),
            Operand::Constant(c) => self.constant(c),
            #[allow(unreachable_patterns)]
            other => obj(vec![("k", esc("other")), ("dbg", esc(&format!("{:?}", other)))]),
        }
    }

    fn rvalue(&self, rv: &Rvalue<'tcx>) -> String {
        let tcx = self.tcx;
        match rv {
            Rvalue::Use(o, ..) => obj(vec![("k", esc("use")), ("op", self.operand(o))]),
            Rvalue::Ref(_, bk, p) => obj(vec![
                ("k", esc("ref")),
                ("mut", format!("{}", matches!(bk, rustc_middle::mir::BorrowKind::Mut { .. }))),
                ("place", self.place(p)),
            ]),
            Rvalue::RawPtr(_, p) => obj(vec![("k", esc("rawptr")), ("place", self.place(p))]),
            Rvalue::CopyForDeref(p) => obj(vec![
                ("k", esc("use")),
                ("op", obj(vec![("k", esc("copy")), ("place", self.place(p))])),
            ]),
            Rvalue::Cast(kind, o, ty) => obj(vec![
                ("k", esc("cast")),
                ("cast", esc(&format!("{:?}", kind))),
                ("op", self.operand(o)),
                ("to", esc(&ty_str(*ty))),
                ("from", esc(&ty_str(o.ty(self.body, tcx)))),
            ]),
            Rvalue::BinaryOp(op, ab) => obj(vec![
                ("k", esc("binop")),
                ("op", esc(&format!("{:?}", op))),
                ("a", self.operand(&ab.0)),
                ("b", self.operand(&ab.1)),
                ("aty", esc(&ty_str(ab.0.ty(self.body, tcx)))),
            ]),
            Rvalue::UnaryOp(op, o) => obj(vec![
                ("k", esc("unop")),
                ("op", esc(&format!("{:?}", op))),
                ("a", self.operand(o)),
                ("aty", esc(&ty_str(o.ty(self.body, tcx)))),
            ]),
            Rvalue::Discriminant(p) => {
                let pty = p.ty(self.body, tcx).ty;
                let mut items = vec![("k", esc("discr")), ("place", self.place(p))];
                if let ty::Adt(def, _) = pty.kind() {
                    if def.is_enum() {
                        items.push(("adt", esc(&path_of(tcx, def.did()))));
                        let vs: Vec<String> = def
                            .discriminants(tcx)
                            .map(|(vidx, d)| {
                                arr(vec![
                                    format!("{}", d.val),
                                    esc(&def.variant(vidx).name.to_string()),
                                ])
                            })
                            .collect();
                        items.push(("variants", arr(vs)));
                    }
                }
                obj(items)
            }
            Rvalue::Aggregate(kind, ops) => {
                let mut items = vec![("k", esc("aggregate"))];
                match &**kind {
                    AggregateKind::Adt(did, vidx, _, _, _) => {
                        let def = tcx.adt_def(*did);
                        let v = def.variant(*vidx);
                        items.push(("agg", esc("adt")));
                        items.push(("adt", esc(&path_of(tcx, *did))));
                        items.push(("variant", esc(&v.name.to_string())));
                        let names: Vec<String> =
                            v.fields.iter().map(|f| esc(&f.name.to_string())).collect();
                        items.push(("fields", arr(names)));
                    }
                    AggregateKind::Tuple => items.push(("agg", esc("tuple"))),
                    AggregateKind::Array(_) => items.push(("agg", esc("array"))),
                    AggregateKind::Closure(did, _) => {
                        items.push(("agg", esc("closure")));
                        items.push(("closure", esc(&path_of(tcx, *did))));
                    }
                    other => {
                        items.push(("agg", esc("other")));
                        items.push(("dbg", esc(&format!("{:?}", other))));
                    }
                }
                let os: Vec<String> = ops.iter().map(|o| self.operand(o)).collect();
                items.push(("ops", arr(os)));
                obj(items)
            }
            Rvalue::Repeat(o, n) => obj(vec![
                ("k", esc("repeat")),
                ("op", self.operand(o)),
                ("n", esc(&format!("{}", n))),
            ]),
            other => obj(vec![("k", esc("other")), ("dbg", esc(&format!("{:?}", other)))]),
        }
    }

    fn block(&self, bb: usize, data: &BasicBlockData<'tcx>) -> String {
        let tcx = self.tcx;
        let mut stmts = vec![];
        for st in &data.statements {
            match &st.kind {
                StatementKind::Assign(b) => {
                    let (p, rv) = &**b;
                    stmts.push(obj(vec![
                        ("k", esc("assign")),
                        ("place", self.place(p)),
                        ("rv", self.rvalue(rv)),
                        ("span", span_json(tcx, st.source_info.span)),
                    ]));
                }
                StatementKind::SetDiscriminant { place, variant_index } => {
                    stmts.push(obj(vec![
                        ("k", esc("setdiscr")),
                        ("place", self.place(place)),
                        ("variant", format!("{}", variant_index.as_usize())),
                        ("span", span_json(tcx, st.source_info.span)),
                    ]));
                }
                StatementKind::Intrinsic(i) => {
                    stmts.push(obj(vec![
                        ("k", esc("intrinsic")),
                        ("dbg", esc(&format!("{:?}", i))),
                        ("span", span_json(tcx, st.source_info.span)),
                    ]));
                }
                _ => {}
            }
        }
        let term = data.terminator();
        let tspan = span_json(tcx, term.source_info.span);
        let t = match &term.kind {
            TerminatorKind::Goto { target } => {
                obj(vec![("k", esc("goto")), ("target", format!("{}", target.as_usize()))])
            }
            TerminatorKind::SwitchInt { discr, targets } => {
                let ts: Vec<String> = targets
                    .iter()
                    .map(|(v, t)| arr(vec![format!("{}", v), format!("{}", t.as_usize())]))
                    .collect();
                obj(vec![
                    ("k", esc("switch")),
                    ("discr", self.operand(discr)),
                    ("dty", esc(&ty_str(discr.ty(self.body, tcx)))),
                    ("targets", arr(ts)),
                    ("otherwise", format!("{}", targets.otherwise().as_usize())),
                ])
            }
            TerminatorKind::Return => obj(vec![("k", esc("return"))]),
            TerminatorKind::Unreachable => obj(vec![("k", esc("unreachable"))]),
            TerminatorKind::UnwindResume => obj(vec![("k", esc("resume"))]),
            TerminatorKind::UnwindTerminate(_) => obj(vec![("k", esc("terminate"))]),
            TerminatorKind::Drop { place, target, .. } => obj(vec![
                ("k", esc("drop")),
                ("place", self.place(place)),
                ("target", format!("{}", target.as_usize())),
            ]),
            TerminatorKind::Call { func, args, destination, target, fn_span, .. } => {
                let mut items = vec![("k", esc("call")), ("func", self.operand(func))];
                let fty = func.ty(self.body, tcx);
                if let ty::FnDef(did, gargs) = fty.kind() {
                    items.push(("callee", esc(&path_of(tcx, *did))));
                    items.push(("callee_full", esc(&path_with_args(tcx, *did, gargs))));
                    items.push(("callee_crate", esc(&crate_of(tcx, *did))));
                    let gas: Vec<String> = gargs.iter().map(|a| esc(&with_resolve_crate_name!(with_no_visible_paths!(with_no_trimmed_paths!(format!("{}", a)))))).collect();
                    items.push(("gargs", arr(gas)));
                    // resolve through traits where possible
                    let resolvable = matches!(tcx.def_kind(*did), DefKind::Fn | DefKind::AssocFn);
                    if resolvable {
                        if let Ok(Some(inst)) = Instance::try_resolve(tcx, self.env, *did, gargs) {
                            let rdid = inst.def_id();
                            items.push(("resolved", esc(&path_of(tcx, rdid))));
                            items.push(("resolved_full", esc(&path_with_args(tcx, rdid, inst.args))));
                            items.push(("resolved_crate", esc(&crate_of(tcx, rdid))));
                            items.push(("resolved_kind", esc(&format!("{:?}", inst.def).split('(').next().unwrap_or("").to_string())));
                        }
                    }
                } else {
                    items.push(("callee", esc("(indirect)")));
                    items.push(("fty", esc(&ty_str(fty))));
                }
                let a: Vec<String> = args.iter().map(|a| self.operand(&a.node)).collect();
                items.push(("args", arr(a)));
                items.push(("dest", self.place(destination)));
                items.push((
                    "target",
                    match target {
                        Some(t) => format!("{}", t.as_usize()),
                        None => "null".to_string(),
                    },
                ));
                items.push(("fn_span", span_json(tcx, *fn_span)));
                obj(items)
            }
            TerminatorKind::Assert { cond, expected, msg, target, .. } => {
                use rustc_middle::mir::AssertKind as AK;
                let (kind, ops): (String, Vec<String>) = match &**msg {
                    AK::BoundsCheck { len, index } => {
                        ("BoundsCheck".into(), vec![self.operand(len), self.operand(index)])
                    }
                    AK::Overflow(op, a, b) => (
                        format!("Overflow:{:?}", op),
                        vec![self.operand(a), self.operand(b)],
                    ),
                    AK::OverflowNeg(a) => ("OverflowNeg".into(), vec![self.operand(a)]),
                    AK::DivisionByZero(a) => ("DivisionByZero".into(), vec![self.operand(a)]),
                    AK::RemainderByZero(a) => ("RemainderByZero".into(), vec![self.operand(a)]),
                    AK::MisalignedPointerDereference { .. } => ("MisalignedPointer".into(), vec![]),
                    AK::NullPointerDereference => ("NullPointer".into(), vec![]),
                    other => (format!("Other:{:?}", other).chars().take(60).collect(), vec![]),
                };
                obj(vec![
                    ("k", esc("assert")),
                    ("cond", self.operand(cond)),
                    ("expected", format!("{}", expected)),
                    ("kind", esc(&kind)),
                    ("ops", arr(ops)),
                    ("target", format!("{}", target.as_usize())),
                ])
            }
            TerminatorKind::FalseEdge { real_target, .. } => {
                obj(vec![("k", esc("goto")), ("target", format!("{}", real_target.as_usize()))])
            }
            TerminatorKind::FalseUnwind { real_target, .. } => {
                obj(vec![("k", esc("goto")), ("target", format!("{}", real_target.as_usize()))])
            }
            other => obj(vec![("k", esc("other")), ("dbg", esc(&format!("{:?}", other)))]),
        };
        obj(vec![
            ("bb", format!("{}", bb)),
            ("cleanup", format!("{}", data.is_cleanup)),
            ("stmts", arr(stmts)),
            ("term", t),
            ("tspan", tspan),
        ])
    }
}

fn body_json<'tcx>(tcx: TyCtxt<'tcx>, did: DefId) -> Option<String> {
    let kind = tcx.def_kind(did);
    let is_fn = matches!(kind, DefKind::Fn | DefKind::AssocFn | DefKind::Closure);
    // initializers of named constants (lookup tables written as `const T: [(u8, Token); N] = [..]`)
    let is_const = matches!(kind, DefKind::Const { .. });
    if !is_fn && !is_const {
        return None;
    }
    if is_fn && !tcx.is_mir_available(did) {
        return None;
    }
    let body: &Body<'tcx> = if is_const { tcx.mir_for_ctfe(did) } else { tcx.optimized_mir(did) };
    let env = TypingEnv::post_analysis(tcx, did);
    let cx = Cx { tcx, body, env };
    let mut locals = vec![];
    for (l, decl) in body.local_decls.iter_enumerated() {
        let mut items = vec![
            ("i", format!("{}", l.as_usize())),
            ("ty", esc(&ty_str(decl.ty))),
        ];
        if let Some(a) = adt_path_of_ty(tcx, decl.ty) {
            items.push(("adt", esc(&a)));
        }
        locals.push(obj(items));
    }
    let mut dbg = vec![];
    for v in &body.var_debug_info {
        if let rustc_middle::mir::VarDebugInfoContents::Place(p) = &v.value {
            dbg.push(obj(vec![("name", esc(&v.name.to_string())), ("place", cx.place(p))]));
        }
    }
    let blocks: Vec<String> = body
        .basic_blocks
        .iter_enumerated()
        .map(|(bb, data)| cx.block(bb.as_usize(), data))
        .collect();
    let mut promoted = vec![];
    if !matches!(kind, DefKind::Closure) || true {
        let proms = tcx.promoted_mir(did);
        for (pi, pbody) in proms.iter_enumerated() {
            let penv = TypingEnv::post_analysis(tcx, did);
            let pcx = Cx { tcx, body: pbody, env: penv };
            let pblocks: Vec<String> = pbody
                .basic_blocks
                .iter_enumerated()
                .map(|(bb, data)| pcx.block(bb.as_usize(), data))
                .collect();
            promoted.push(obj(vec![("i", format!("{}", pi.as_usize())), ("blocks", arr(pblocks))]));
        }
    }
    let vis = match kind {
        DefKind::Fn | DefKind::AssocFn => format!("{:?}", tcx.visibility(did)),
        _ => String::from("closure"),
    };
    let mut items = vec![
        ("path", esc(&path_of(tcx, did))),
        ("crate", esc(&crate_of(tcx, did))),
        ("kind", esc(&format!("{:?}", kind))),
        ("vis", esc(&vis)),
        ("is_pub", format!("{}", matches!(kind, DefKind::Fn | DefKind::AssocFn) && tcx.visibility(did).is_public())),
        ("arg_count", format!("{}", body.arg_count)),
        ("span", span_json(tcx, body.span)),
        ("locals", arr(locals)),
        ("debug", arr(dbg)),
        ("blocks", arr(blocks)),
        ("promoted", arr(promoted)),
    ];
    // impl self type / trait for assoc fns
    if let DefKind::AssocFn = kind {
        if let Some(impl_did) = tcx.impl_of_assoc(did) {
            let self_ty = tcx.type_of(impl_did).instantiate_identity().skip_norm_wip();
            items.push(("self_ty", esc(&ty_str(self_ty))));
            if let Some(a) = adt_path_of_ty(tcx, self_ty) {
                items.push(("self_adt", esc(&a)));
            }
            if let Some(tr) = tcx.impl_opt_trait_ref(impl_did) {
                let tr = tr.instantiate_identity().skip_norm_wip();
                items.push(("impl_trait", esc(&path_of(tcx, tr.def_id))));
            }
        }
    }
    if let DefKind::Closure = kind {
        let parent = tcx.typeck_root_def_id(did);
        items.push(("parent", esc(&path_of(tcx, parent))));
    }
    Some(obj(items))
}

fn adts_json<'tcx>(tcx: TyCtxt<'tcx>) -> Vec<String> {
    let mut out = vec![];
    for ldid in tcx.hir_crate_items(()).definitions() {
        let did = ldid.to_def_id();
        let kind = tcx.def_kind(did);
        if !matches!(kind, DefKind::Struct | DefKind::Enum) {
            continue;
        }
        let def = tcx.adt_def(did);
        let mut variants = vec![];
        let discrs: Vec<u128> = if def.is_enum() {
            def.discriminants(tcx).map(|(_, d)| d.val).collect()
        } else {
            vec![0]
        };
        for (i, v) in def.variants().iter().enumerate() {
            let mut fields = vec![];
            for f in v.fields.iter() {
                let fty = tcx.type_of(f.did).instantiate_identity().skip_norm_wip();
                let mut mentions: Vec<String> = vec![];
                for ga in fty.walk() {
                    if let Some(t) = ga.as_type() {
                        if let ty::Adt(d, _) = t.kind() {
                            let p = path_of(tcx, d.did());
                            if !mentions.contains(&p) {
                                mentions.push(p);
                            }
                        }
                    }
                }
                fields.push(obj(vec![
                    ("name", esc(&f.name.to_string())),
                    ("ty", esc(&ty_str(fty))),
                    ("pub", format!("{}", f.vis.is_public())),
                    ("vis", esc(&format!("{:?}", f.vis))),
                    ("mentions", arr(mentions.iter().map(|m| esc(m)).collect())),
                ]));
            }
            variants.push(obj(vec![
                ("name", esc(&v.name.to_string())),
                ("discr", format!("{}", discrs.get(i).copied().unwrap_or(0))),
                ("fields", arr(fields)),
            ]));
        }
        out.push(obj(vec![
            ("path", esc(&path_of(tcx, did))),
            ("kind", esc(&format!("{:?}", kind))),
            ("pub", format!("{}", tcx.visibility(did).is_public())),
            ("variants", arr(variants)),
            ("span", span_json(tcx, tcx.def_span(did))),
        ]));
    }
    out
}

fn consts_json<'tcx>(tcx: TyCtxt<'tcx>) -> Vec<String> {
    let mut out = vec![];
    for ldid in tcx.hir_crate_items(()).definitions() {
        let did = ldid.to_def_id();
        if !matches!(tcx.def_kind(did), DefKind::Const { .. }) {
            continue;
        }
        let ty = tcx.type_of(did).instantiate_identity().skip_norm_wip();
        let mut items = vec![("path", esc(&path_of(tcx, did))), ("ty", esc(&ty_str(ty)))];
        if ty.is_integral() {
            if let Ok(cv) = tcx.const_eval_poly(did) {
                if let Some(si) = cv.try_to_scalar_int() {
                    let size = si.size();
                    let bits = si.to_bits(size);
                    if ty.is_signed() {
                        items.push(("int", format!("{}", size.sign_extend(bits) as i128)));
                    } else {
                        items.push(("int", format!("{}", bits)));
                    }
                }
            }
        }
        out.push(obj(items));
    }
    out
}

struct Extract;

impl Callbacks for Extract {
    fn after_analysis<'tcx>(&mut self, _c: &Compiler, tcx: TyCtxt<'tcx>) -> Compilation {
        let dir = match std::env::var("ABASIC_FACTS_DIR") {
            Ok(d) => d,
            Err(_) => return Compilation::Continue,
        };
        let nonce = std::env::var("ABASIC_FACTS_NONCE").unwrap_or_default();
        let crate_name = tcx.crate_name(LOCAL_CRATE).to_string();
        let crate_types: Vec<String> =
            tcx.crate_types().iter().map(|t| esc(&format!("{:?}", t))).collect();
        let mut bodies = vec![];
        for ldid in tcx.hir_body_owners() {
            if let Some(j) = body_json(tcx, ldid.to_def_id()) {
                bodies.push(j);
            }
        }
        let out = obj(vec![
            ("crate", esc(&crate_name)),
            ("nonce", esc(&nonce)),
            ("crate_types", arr(crate_types)),
            ("pointer_bits", format!("{}", tcx.data_layout.pointer_size().bits())),
            ("adts", arr(adts_json(tcx))),
            ("consts", arr(consts_json(tcx))),
            ("bodies", arr(bodies)),
        ]);
        let kind = if tcx.crate_types().iter().any(|t| format!("{:?}", t) == "Executable") {
            "bin"
        } else {
            "lib"
        };
        let path = format!("{}/{}.{}.json", dir, crate_name, kind);
        let tmp = format!("{}.tmp.{}", path, std::process::id());
        std::fs::write(&tmp, out).expect("write facts");
        std::fs::rename(&tmp, &path).expect("rename facts");
        Compilation::Continue
    }
}

fn main() {
    let mut args: Vec<String> = std::env::args().collect();
    // RUSTC_WORKSPACE_WRAPPER passes the real rustc as argv[1].
    if args.len() > 1 && (args[1].ends_with("rustc") || args[1].contains("/rustc")) {
        args.remove(1);
    }
    rustc_driver::run_compiler(&args, &mut Extract);
}
